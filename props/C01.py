"""C01 — HTTP/1 forwarding is framing-consistent: no request or response desync.

T1 (machine-checked contracts on the real functions, all inputs):
  parse_content_length, parse_transfer_encoding      exact accepted sets and results (RFC 9110 §8.6, RFC 9112 §6.1/§7)
  validate_headers (+ .name_pattern)                 returns normally => the framing fields are unambiguous (<=1 TE, <=1 CL, not both,
                                                     CL digits, TE a known coding list, TE only in HTTP/1.1, request TE ends in chunked,
                                                     no TE on 1xx/204), every field name passed the token test; and conversely
  expected_http_body_size                            for validated heads the result encodes exactly RFC 9112 §6.3 rules 1-8
  make_body_reader                                   None -> ChunkedReader, -1 -> Http10Reader, n -> ContentLengthReader(n)
  Http1Client.send / Http1Server.send                head = start-line CRLF (name ": " value CRLF)* CRLF, body data framed per the
                                                     *forwarded* headers, terminator iff chunked (and the message can have a body)
  HttpStream.check_invalid / validate_request        a head that fails validation is answered with an error, never sent upstream/downstream
  te_classes.substring_lemma                         the facts about the coding-list patterns used above
T2 (bounded): the real HttpLayer driven sans-io over enumerated request/response heads x bodies x pipelining x addon edits x
  deliveries; the octets written to the origin / client are read by an independent RFC 9112 reader (props/http1ref.py) and
  compared with the flows recorded at the request/response hooks; ambiguous heads must be refused (400 / 502 + close);
  for client streams the reader accepts without leniency, the recorded flows must also equal what the client sent.
  Request methods in the bounded inputs are RFC 9110 tokens (mitmproxy does not validate methods / targets: a non-token
  method without whitespace is forwarded as is — noticed, outside the statement's list of ambiguity classes).
"""
from pyvc.api import *
from props.prelude import *

CLAIM = "other"
EXPLANATION = ("T1 proves, for all inputs of each function, the framing decision (validate_headers, parse_content_length, parse_transfer_encoding, "
               "expected_http_body_size against RFC 9112 6.3), the reader selection, the re-framing done by Http1Client.send / Http1Server.send and the "
               "reject-don't-forward behaviour of check_invalid. The end-to-end statement (an independent reader of the forwarded octets reads exactly the "
               "recorded flows) is the composition of these with h11's line splitter and body readers and with _read_headers / the request-line parser; that "
               "composition is only checked bounded (T2) against an executable RFC 9112 reader. Defect classes found are either repaired (see known_findings.d/C01.json, fixed:) "
               "or recorded as known findings, each with a narrow input class outside which the obligations are proved / the bounded checks pass.")
ASSUMPTIONS = [
    "h11 (ReceiveBuffer.maybe_extract_lines, ChunkedReader, ContentLengthReader, Http10Reader) is third-party: in T1 its constructors are ghost records, its behaviour is exercised only in T2",
    "bytes.lower()/str.lower()/str.upper() are uninterpreted (idempotent, length-preserving) functions; the only further fact used is: for ASCII s and a lower-case pattern R, lower(s) in R <=> s in case-insensitive R (trusted, stated in pyvc/libx_http1.py)",
    "the three compiled validation regexes are translated to SMT regular expressions from CPython's own parse tree (pyvc/libx_http1.py: regex_language; Python's `$` = end or before a final newline, `\\Z` = end); re.sub('[\\t ]*,[\\t ]*', ',', s) is uninterpreted with the exact preimages of the eight literals",
    "UTF-8 decoding is an uninterpreted function that is the identity on ASCII and maps non-ASCII input to non-ASCII text",
    "inside validate_headers / expected_http_body_size / send, parse_content_length and parse_transfer_encoding are replaced by their own contracts (deterministic named predicates CLacc / TEc / TEp); accepted Content-Length values are digit strings (parse_content_length's contract)",
    "'%x' % n is an uninterpreted function of n (chunk-size formatting)",
    "header sets made invalid by an addon after validation are outside the send contracts (they assume a field list with the shape validate_headers guarantees: one unrelated field plus at most one framing field)",
    "field-list contracts are proved for <= 2 fields in the quick tier / <= 3 in the thorough tier (validate_headers) resp. <= 1 / <= 2 (expected_http_body_size); field names and values are fully symbolic",
    "Layer.handle_event, Http1Connection.mark_done are replaced by ghost trace items in the send contracts (mark_done has its own contract in C02)",
]

HOST = b"example.com"


# =====================================================================================================================
# T2 (bounded): real HttpLayer, sans-io, against the executable RFC 9112 reader of props/http1ref.py

def mk_request(method=b"POST", target=b"http://example.com/p", version=b"HTTP/1.1", lines=(), body=b"", eol=b"\r\n", host=True):
    head = method + b" " + target + b" " + version + eol
    if host:
        head += b"Host: " + HOST + eol
    for ln in lines:
        head += ln + eol
    return head + eol + body


def chunked(*chunks, ext=b"", trailer=b"", upper=False):
    out = b""
    for c in chunks:
        size = (b"%X" if upper else b"%x") % len(c)
        out += size + ext + b"\r\n" + c + b"\r\n"
    return out + b"0" + ext + b"\r\n" + trailer + b"\r\n"


SMUGGLE = b"GET http://example.com/smuggled HTTP/1.1\r\nHost: example.com\r\n\r\n"

# framing-relevant header line sets for requests: (label, lines, body the sender "means")
REQ_FRAMINGS = [
    ("none", [], b""),
    ("cl0", [b"Content-Length: 0"], b""),
    ("cl3", [b"Content-Length: 3"], b"abc"),
    ("cl-lower", [b"content-length: 3"], b"abc"),
    ("cl-ows", [b"Content-Length:   3  "], b"abc"),
    ("cl-tab", [b"Content-Length:\t3"], b"abc"),
    ("cl-dup-same", [b"Content-Length: 3", b"Content-Length: 3"], b"abc"),
    ("cl-dup-diff", [b"Content-Length: 3", b"Content-Length: 4"], b"abcd"),
    ("cl-dup-diff2", [b"Content-Length: 0", b"Content-Length: " + b"%d" % len(SMUGGLE)], SMUGGLE),
    ("cl-list-same", [b"Content-Length: 3, 3"], b"abc"),
    ("cl-list-diff", [b"Content-Length: 3, 4"], b"abcd"),
    ("cl-plus", [b"Content-Length: +3"], b"abc"),
    ("cl-minus", [b"Content-Length: -3"], b"abc"),
    ("cl-lead0", [b"Content-Length: 03"], b"abc"),
    ("cl-hex", [b"Content-Length: 0x3"], b"abc"),
    ("cl-empty", [b"Content-Length:"], b""),
    ("cl-alpha", [b"Content-Length: abc"], b"abc"),
    ("cl-trailing-lf", [b"Content-Length: 3\n"], b"abc"),
    ("cl-vt", [b"Content-Length: 3\x0b"], b"abc"),
    ("cl-underscore", [b"Content_Length: 3"], b""),
    ("cl-sp-colon", [b"Content-Length : 3"], b"abc"),
    ("cl-fold", [b"Content-Length:", b" 3"], b"abc"),
    ("cl-fold2", [b"Content-Length: 3", b" 4"], b"abc"),
    ("cl-unicode-digit", [b"Content-Length: \xd9\xa3"], b"abc"),
    ("cl-smuggle", [b"Content-Length: " + b"%d" % len(SMUGGLE)], SMUGGLE),
    ("te-chunked", [b"Transfer-Encoding: chunked"], chunked(b"abc")),
    ("te-chunked-2", [b"Transfer-Encoding: chunked"], chunked(b"a", b"bc")),
    ("te-chunked-empty", [b"Transfer-Encoding: chunked"], chunked()),
    ("te-chunked-ext", [b"Transfer-Encoding: chunked"], chunked(b"abc", ext=b";x=y")),
    ("te-chunked-upper", [b"Transfer-Encoding: chunked"], chunked(b"abcdefghijkl", upper=True)),
    ("te-Chunked", [b"Transfer-Encoding: Chunked"], chunked(b"abc")),
    ("te-lower-name", [b"transfer-encoding: chunked"], chunked(b"abc")),
    ("te-gzip-chunked", [b"Transfer-Encoding: gzip, chunked"], chunked(b"abc")),
    ("te-gzip-chunked-nosp", [b"Transfer-Encoding: gzip,chunked"], chunked(b"abc")),
    ("te-gzip-tab-chunked", [b"Transfer-Encoding: gzip\t,\tchunked"], chunked(b"abc")),
    ("te-chunked-chunked", [b"Transfer-Encoding: chunked, chunked"], chunked(b"abc")),
    ("te-chunked-gzip", [b"Transfer-Encoding: chunked, gzip"], chunked(b"abc")),
    ("te-identity", [b"Transfer-Encoding: identity"], b""),
    ("te-gzip", [b"Transfer-Encoding: gzip"], b"abc"),
    ("te-xchunked", [b"Transfer-Encoding: xchunked"], chunked(b"abc")),
    ("te-chunked-param", [b"Transfer-Encoding: chunked;q=1"], chunked(b"abc")),
    ("te-two-lines", [b"Transfer-Encoding: gzip", b"Transfer-Encoding: chunked"], chunked(b"abc")),
    ("te-dup", [b"Transfer-Encoding: chunked", b"Transfer-Encoding: chunked"], chunked(b"abc")),
    ("te-fold", [b"Transfer-Encoding:", b" chunked"], chunked(b"abc")),
    ("te-sp-colon", [b"Transfer-Encoding : chunked"], chunked(b"abc")),
    ("te-vt", [b"Transfer-Encoding: \x0bchunked"], chunked(b"abc")),
    ("te-nul", [b"Transfer-Encoding: chunked\x00"], chunked(b"abc")),
    ("te-nonascii", [b"Transfer-Encoding: chun\xc4\xb8ed"], chunked(b"abc")),
    ("te-kelvin", [b"Transfer-Encoding: chun\xe2\x84\xaaed"], chunked(b"abc")),
    ("te-comma-only", [b"Transfer-Encoding: ,chunked"], chunked(b"abc")),
    ("te-empty", [b"Transfer-Encoding:"], b""),
    ("te-cl", [b"Transfer-Encoding: chunked", b"Content-Length: 3"], chunked(b"abc")),
    ("cl-te", [b"Content-Length: 3", b"Transfer-Encoding: chunked"], chunked(b"abc")),
    ("te-cl-smuggle", [b"Transfer-Encoding: chunked", b"Content-Length: 5"], b"0\r\n\r\n" + SMUGGLE),
    ("cl-te-smuggle", [b"Content-Length: 5", b"Transfer-Encoding: xchunked"], b"0\r\n\r\n" + SMUGGLE),
    ("te-identity-cl", [b"Transfer-Encoding: identity", b"Content-Length: 3"], b"abc"),
    ("expect", [b"Content-Length: 3", b"Expect: 100-continue"], b"abc"),
]


def _encoded_bodies():
    """bodies with a decodable Content-Encoding: the encoded octets (what is on the wire and must stay on the wire) differ in
    length from the decoded ones, and the decoded form ends in something that reads as a second request"""
    import gzip
    import zlib
    plain = b"Z" * 40 + SMUGGLE
    gz = gzip.compress(plain, mtime=0)
    df = zlib.compress(plain)
    out = [
        ("ce-gzip", [b"Content-Encoding: gzip", b"Content-Length: %d" % len(gz)], gz),
        ("ce-deflate", [b"Content-Encoding: deflate", b"Content-Length: %d" % len(df)], df),
        ("ce-gzip-chunked", [b"Content-Encoding: gzip", b"Transfer-Encoding: chunked"], chunked(gz[:10], gz[10:])),
        ("ce-gzip-broken", [b"Content-Encoding: gzip", b"Content-Length: 5"], b"\x1f\x8bxyz"),
        ("ce-identity", [b"Content-Encoding: identity", b"Content-Length: 3"], b"abc"),
        ("ce-unknown", [b"Content-Encoding: rot13", b"Content-Length: 3"], b"abc"),
    ]
    try:
        import brotli
        br = brotli.compress(plain)
        out.append(("ce-br", [b"Content-Encoding: br", b"Content-Length: %d" % len(br)], br))
    except Exception:
        pass
    try:
        import zstandard
        zs = zstandard.ZstdCompressor().compress(plain)
        out.append(("ce-zstd", [b"Content-Encoding: zstd", b"Content-Length: %d" % len(zs)], zs))
    except Exception:
        pass
    return out


REQ_FRAMINGS += _encoded_bodies()

# other header-section oddities (with an unambiguous CL 3 body)
REQ_ODD = [
    ("bad-name-space", [b"X Y: 1", b"Content-Length: 3"], b"abc"),
    ("bad-name-nul", [b"X\x00Y: 1", b"Content-Length: 3"], b"abc"),
    ("bad-name-paren", [b"X(Y): 1", b"Content-Length: 3"], b"abc"),
    ("bad-name-nonascii", [b"X\xc3\xa9: 1", b"Content-Length: 3"], b"abc"),
    ("empty-name", [b": 1", b"Content-Length: 3"], b"abc"),
    ("no-colon", [b"garbage", b"Content-Length: 3"], b"abc"),
    ("lead-fold", [b" folded", b"Content-Length: 3"], b"abc"),
    ("obs-fold", [b"X-A: a", b"\tb", b"Content-Length: 3"], b"abc"),
    ("obs-fold-te", [b"X-A: a", b" Transfer-Encoding: chunked", b"Content-Length: 3"], b"abc"),
    ("bare-cr", [b"X-A: a\rb", b"Content-Length: 3"], b"abc"),
    ("bare-cr-te", [b"X-A: a\rTransfer-Encoding: chunked", b"Content-Length: 3"], b"abc"),
    ("bare-lf", [b"X-A: a\nX-B: b", b"Content-Length: 3"], b"abc"),
    ("bare-lf-te", [b"X-A: a\nTransfer-Encoding: chunked", b"Content-Length: 3"], b"abc"),
    ("nul-value", [b"X-A: a\x00b", b"Content-Length: 3"], b"abc"),
    ("value-colon", [b"X-A: a: b", b"Content-Length: 3"], b"abc"),
    ("empty-value", [b"X-A:", b"Content-Length: 3"], b"abc"),
    ("dup-host", [b"Host: other.example", b"Content-Length: 3"], b"abc"),
    ("conn-close", [b"Connection: close", b"Content-Length: 3"], b"abc"),
    ("conn-keepalive", [b"Connection: keep-alive", b"Content-Length: 3"], b"abc"),
    ("high-bytes", [b"X-A: \xff\xfe", b"Content-Length: 3"], b"abc"),
]

RESP_OK = (b"HTTP/1.1 200 OK\r\nContent-Length: 2\r\n\r\nok", False)


def mk_response(status=b"200 OK", version=b"HTTP/1.1", lines=(), body=b"", eol=b"\r\n"):
    head = version + b" " + status + eol
    for ln in lines:
        head += ln + eol
    return head + eol + body


# (label, response bytes, server closes afterwards)
def response_variants():
    out = []
    for label, lines, body in REQ_FRAMINGS:
        if label in ("expect", "cl-smuggle", "cl-dup-diff2"):
            continue
        close = not any(ln.lower().startswith((b"content-length", b"transfer-encoding")) for ln in lines) or label in ("te-identity", "te-gzip", "te-chunked-gzip")
        out.append((label, mk_response(lines=lines, body=body if body else (b"" if lines else b"xyz")), close))
    out += [
        ("204", mk_response(b"204 No Content"), False),
        ("204-cl", mk_response(b"204 No Content", lines=[b"Content-Length: 3"]), False),
        ("204-te", mk_response(b"204 No Content", lines=[b"Transfer-Encoding: chunked"]), False),
        ("304", mk_response(b"304 Not Modified", lines=[b"Content-Length: 3"]), False),
        ("304-te", mk_response(b"304 Not Modified", lines=[b"Transfer-Encoding: chunked"]), False),
        ("100-then-200", mk_response(b"100 Continue") + mk_response(lines=[b"Content-Length: 2"], body=b"ok"), False),
        ("102-then-200", mk_response(b"102 Processing") + mk_response(lines=[b"Content-Length: 2"], body=b"ok"), False),
        ("100-te", mk_response(b"100 Continue", lines=[b"Transfer-Encoding: chunked"]) + mk_response(lines=[b"Content-Length: 2"], body=b"ok"), False),
        ("no-reason", b"HTTP/1.1 200\r\nContent-Length: 2\r\n\r\nok", False),
        ("http10-cl", mk_response(version=b"HTTP/1.0", lines=[b"Content-Length: 2"], body=b"ok"), True),
        ("http10-close", mk_response(version=b"HTTP/1.0", body=b"ok"), True),
        ("http10-te", mk_response(version=b"HTTP/1.0", lines=[b"Transfer-Encoding: chunked"], body=chunked(b"ok")), True),
        ("http10-keepalive", mk_response(version=b"HTTP/1.0", lines=[b"Connection: keep-alive", b"Content-Length: 2"], body=b"ok"), False),
        ("bad-status", b"HTTP/1.1 2x0 OK\r\nContent-Length: 2\r\n\r\nok", False),
        ("bad-version", b"HTTX/1.1 200 OK\r\nContent-Length: 2\r\n\r\nok", False),
        ("resp-obs-fold", mk_response(lines=[b"X-A: a", b" b", b"Content-Length: 2"], body=b"ok"), False),
        ("resp-bare-cr", mk_response(lines=[b"X-A: a\rb", b"Content-Length: 2"], body=b"ok"), False),
        ("resp-bare-lf", mk_response(lines=[b"X-A: a\nX-B: b", b"Content-Length: 2"], body=b"ok"), False),
        ("resp-bad-name", mk_response(lines=[b"X Y: 1", b"Content-Length: 2"], body=b"ok"), False),
        ("resp-conn-close", mk_response(lines=[b"Connection: close", b"Content-Length: 2"], body=b"ok"), True),
        ("resp-split", mk_response(lines=[b"Content-Length: 0"]) + mk_response(lines=[b"Content-Length: 3"], body=b"bad"), False),
    ]
    return out


def is_error_page(m):
    return any(n.lower() == b"server" and v.startswith(b"mitmproxy") for n, v in m.fields) and m.status >= 400


# ---- recorded defects of the unchanged tree (see known_findings.d/C01.json): narrow input classes K.  A failing check on an
# input inside K is reported under "<check>[KF-C01-n]" (matched against the recorded finding), outside K under the plain name.
KF_CRLF = "KF-C01-1"   # CR / LF / NUL (obs-fold, bare CR, NUL) inside field values are recorded and forwarded verbatim
KF_STRIP = "KF-C01-2"  # VT / FF / CR next to OWS are stripped from field values before validation (malformed CL/TE accepted)
KF_NOBODY = "KF-C01-3"  # body framing (chunk terminator, addon-set content) is written for responses that cannot have a body
KF_INTERIM = "KF-C01-4"  # an interim 1xx response of the origin is recorded and relayed as the final response
KF_METHOD = "KF-C01-6"  # methods are compared case-insensitively: 'head' is framed like HEAD

_FRAMING_NAMES = (b"content-length", b"transfer-encoding")


def _head_of(raw):
    i = raw.find(b"\r\n\r\n")
    j = raw.find(b"\n\n")
    if i < 0 or (0 <= j < i):
        i = j
    return raw if i < 0 else raw[:i]


def input_classes(raws, responses, addon_label, req_methods):
    import re
    ks = set()
    heads = [_head_of(x) for x in raws] + [_head_of(r) for r, _ in responses]
    for h in heads:
        if re.search(rb"\r\n[ \t]", h) or re.search(rb"\r(?!\n)", h) or b"\x00" in h:
            ks.add(KF_CRLF)
        for ln in re.split(rb"\r?\n", h)[1:]:
            if b":" in ln:
                n, v = ln.split(b":", 1)
                v = v.strip(b" \t")
                if n.strip().lower() in _FRAMING_NAMES and v != v.strip():
                    ks.add(KF_STRIP)
    for m_ in req_methods:
        if m_ != m_.upper() and m_.upper() in (b"HEAD", b"CONNECT"):
            ks.add(KF_METHOD)
    for k, (r, _) in enumerate(responses):
        m = re.match(rb"HTTP/\d\.\d (\d\d\d)", r)
        if not m:
            continue
        st = int(m.group(1))
        meth = req_methods[k] if k < len(req_methods) else b"GET"
        if 100 <= st <= 199 and st != 101:
            ks.add(KF_INTERIM)
        bodiless = meth.upper() == b"HEAD" or st in (204, 304) or 100 <= st <= 199
        te_chunked = re.search(rb"\r\ntransfer-encoding:[^\r\n]*chunked", _head_of(r).lower()) is not None
        if bodiless and ((te_chunked and meth.upper() != b"HEAD") or addon_label in ("resp.content", "resp.content.empty")):   # (empty content under Content-Encoding: gzip is a non-empty raw body)
            ks.add(KF_NOBODY)
    return ks


def check_exchange(b, ex, raws, label, inp, resp_ambiguous=None, classes=frozenset()):
    """All C01 run-time contracts on one finished exchange. `raws`: the raw requests the client meant to send, in order."""
    from props import http1ref as R
    from mitmproxy.connection import ConnectionState

    def fail(check, detail, kfs=()):
        for k in kfs:
            if k in classes:
                b.fail(f"{check}[{k}]", dict(inp, **{"class": k}), detail)
                return
        b.fail(check, inp, detail)

    if ex.error:
        fail("c01.total", ex.error)
        return
    flows = ex.flows
    # ---- upstream: an independent reader of each server connection reads exactly the recorded requests
    ups = []
    up_ok = True
    for i, s in enumerate(ex.servers):
        eof = ex.closed(s) is not None
        r = R.read_stream(ex.to_server(i), True, eof)
        if r["state"] != "clean":
            up_ok = False
            fail("c01.upstream.complete_and_valid", f"server#{i}: {r['state']} ({r['why']}); octets {ex.to_server(i)!r}")
        ups.extend(r["messages"])
    rec = [f for f in flows if "request" in f.hooks and f.snaps["request"].method.upper() != b"CONNECT"]
    if up_ok and len(ups) != len(rec):
        fail("c01.upstream.same_number", f"reader sees {len(ups)} requests {ups!r}; recorded flows with request hook: {len(rec)}")
    for u, f in zip(ups, rec):
        s = f.snaps["request"]
        target = s.path if not s.authority else s.scheme + b"://" + s.authority + s.path
        if (u.method, u.target, u.version) != (s.method, target, s.http_version):
            fail("c01.upstream.request_line", f"reader {u!r} vs recorded {s!r}")
        if u.body != (s.content or b""):
            fail("c01.upstream.body", f"reader body {u.body!r} vs recorded {s.content!r} ({u!r})")
        if u.flags:
            fail("c01.upstream.head_unambiguous", f"forwarded head needs leniencies {sorted(u.flags)}: {u!r}", [KF_CRLF])
        if list(u.fields) != list(s.fields):
            fail("c01.upstream.fields", f"reader fields {u.fields!r} vs recorded {list(s.fields)!r}", [KF_CRLF])
    verdicts = [R.request_verdict(x) for x in raws]
    # ---- what mitmproxy recorded is what the client sent (streams the reference reader accepts without any leniency, no addon
    #      edits): same number of requests in the same order, same method / fields / body.  Not literally demanded by the
    #      statement (which compares forwarded octets with recorded flows) but it is the other half of "no request desync".
    if inp.get("addon") == "none" and all(v[0] == "ok" for v in verdicts) and inp.get("case", "A")[0] in "AB":
        sent = R.read_stream(b"".join(raws), True, False)["messages"]
        seen = [f for f in flows if "requestheaders" in f.hooks]
        closes_early = any(b"connection: close" in _head_of(x).lower() or _head_of(x).split(b"\r\n")[0].endswith(b" HTTP/1.0") for x in raws[:-1])
        if len(seen) != len(sent) and not closes_early:
            fail("c01.recorded_matches_client_stream.number", f"client sent {len(sent)} requests, {len(seen)} flows were created")
        for q, f in zip(sent, seen):
            hs = f.snaps["requestheaders"]
            if (q.method, list(q.fields)) != (hs.method, list(hs.fields)):
                fail("c01.recorded_matches_client_stream.head", f"client sent {q!r}, recorded {hs!r}")
            if "request" in f.snaps and (f.snaps["request"].content or b"") != q.body:
                fail("c01.recorded_matches_client_stream.body", f"client sent body {q.body!r}, recorded {f.snaps['request'].content!r}")
    # ---- ambiguous requests are rejected, not forwarded
    first_bad = next((i for i, v in enumerate(verdicts) if v[0] in ("ambiguous", "malformed")), None)
    if first_bad is not None and verdicts[first_bad][0] == "ambiguous":
        why = verdicts[first_bad][1]
        n_hook = sum(1 for f in flows if "request" in f.hooks)
        if len(ups) > first_bad:
            fail("c01.ambiguous.not_forwarded", f"request #{first_bad} is ambiguous ({why}) but {len(ups)} requests were forwarded: {ups!r}", [KF_STRIP])
        if n_hook > first_bad:
            fail("c01.ambiguous.no_request_hook", f"request #{first_bad} ambiguous ({why}) but the request hook fired for {n_hook} flows", [KF_STRIP])
        if ex.closed(ex.client) != "full":
            fail("c01.ambiguous.connection_closed", f"client connection not closed after ambiguous request ({why})", [KF_STRIP])
    # ---- downstream: an independent reader of the client connection reads exactly the recorded responses
    # (each response in the context of the method of the request it answers; a page mitmproxy generates for a request it
    #  refused is read as a plain response: the connection is closed right after it)
    ctx = []
    for f in flows:
        m = f.snaps["requestheaders"].method if "requestheaders" in f.snaps else b"GET"
        if m.upper() == b"CONNECT":
            continue
        ctx.append(m if "response" in f.hooks else b"GET")
    client_eof = ex.closed(ex.client) is not None
    d = R.read_stream(ex.to_client(), False, client_eof, ctx + [b"GET"])
    downs = d["messages"]
    relayed = [m for m in downs if not is_error_page(m)]
    pages = [m for m in downs if is_error_page(m)]
    recd = [f for f in flows if "response" in f.hooks]
    if d["state"] != "clean":
        fail("c01.downstream.complete_and_valid", f"{d['state']} ({d['why']}); octets to client {ex.to_client()!r}", [KF_NOBODY, KF_INTERIM, KF_METHOD])
    else:
        if len(relayed) != len(recd):
            fail("c01.downstream.same_number", f"reader sees {len(relayed)} relayed responses {relayed!r}; flows with response hook: {len(recd)} {[f.snaps['response'] for f in recd]!r}", [KF_INTERIM, KF_NOBODY, KF_METHOD])
        else:
            for m, f in zip(relayed, recd):
                s = f.snaps["response"]
                if (m.version, m.status) != (s.http_version, s.status_code) or m.reason != s.reason:
                    fail("c01.downstream.status_line", f"reader {m!r} vs recorded {s!r}", [KF_INTERIM])
                if m.body != (s.content or b""):
                    fail("c01.downstream.body", f"reader body {m.body!r} vs recorded {s.content!r}", [KF_NOBODY, KF_INTERIM, KF_METHOD])
                if m.flags - {"no_sp_after_status"}:
                    fail("c01.downstream.head_unambiguous", f"relayed head needs leniencies {sorted(m.flags)}: {m!r}", [KF_CRLF])
                if list(m.fields) != list(s.fields):
                    fail("c01.downstream.fields", f"reader fields {m.fields!r} vs recorded {list(s.fields)!r}", [KF_CRLF, KF_INTERIM])
                sent_expect = any(n.lower() == b"expect" and v.lower() == b"100-continue" for n, v in f.snaps["requestheaders"].fields) if "requestheaders" in f.snaps else False
                if m.interim and not (sent_expect and len(m.interim) == 1 and m.interim[0].status == 100 and not m.interim[0].fields):
                    fail("c01.downstream.no_unrecorded_interim", f"interim responses {m.interim!r} precede {m!r}", [KF_INTERIM])
        if len(pages) > 1 or (pages and downs[-1] is not pages[0]):
            fail("c01.downstream.error_page_last", f"{downs!r}", [KF_INTERIM])
        if pages and ex.closed(ex.client) != "full":
            fail("c01.downstream.error_page_then_close", "error page sent but client connection left open")
    if first_bad is not None and verdicts[first_bad][0] == "ambiguous" and d["state"] == "clean":
        # (no page is owed if an earlier message already ended the connection: Connection: close / HTTP/1.0)
        ended_before = any(b"connection: close" in _head_of(x).lower() or b" HTTP/1.0" in _head_of(x).split(b"\r\n")[0] for x in raws[:first_bad])
        if (not pages or pages[0].status != 400) and not ended_before:
            fail("c01.ambiguous.answered_400", f"no 400 page for ambiguous request ({verdicts[first_bad][1]}): {downs!r}", [KF_STRIP])
    if resp_ambiguous:
        # the origin's response has ambiguous framing: it must not be relayed
        if recd and any("response" in f.hooks for f in flows[:1]):
            fail("c01.ambiguous_response.not_relayed", f"ambiguous response ({resp_ambiguous}) reached the response hook / was relayed: {relayed!r}", [KF_STRIP])
        for s in ex.servers[:1]:
            if ex.closed(s) is None and (s.state & ConnectionState.CAN_READ):
                fail("c01.ambiguous_response.server_closed", f"server connection kept open after ambiguous response ({resp_ambiguous})", [KF_STRIP])
        if d["state"] == "clean" and not (pages and pages[0].status == 502):
            fail("c01.ambiguous_response.answered_502", f"no 502 page for ambiguous response ({resp_ambiguous}): {downs!r}", [KF_STRIP])


def response_verdict(raw, method=b"GET"):
    from props import http1ref as R
    r = R.read_stream(raw, False, True, [method])
    if r["state"] == "invalid":
        why = r["why"]
        if "content-length" in why or "transfer-encoding" in why or "chunked" in why or "field name" in why:
            return why
    return None


STREAMING = {}   # addon policies that switch streaming on (used by family E of the bounded inputs)


def addon_policies():
    def set_req_content(name, f, i):
        if name == "request":
            f.request.content = b"EDITED!"

    def set_req_header(name, f, i):
        if name == "request":
            f.request.headers["x-added"] = "1"

    def set_req_header_early(name, f, i):
        if name == "requestheaders":
            f.request.headers["x-added"] = "1"

    def set_resp_content(name, f, i):
        if name == "response":
            f.response.content = b"EDITED-RESPONSE"

    def set_resp_header(name, f, i):
        if name == "response":
            f.response.headers["x-added"] = "1"

    def empty_req_content(name, f, i):
        if name == "request":
            f.request.content = b""

    def empty_resp_content(name, f, i):
        if name == "response":
            f.response.content = b""

    def stream_request(name, f, i):
        if name == "requestheaders":
            f.request.stream = True

    def stream_both(name, f, i):
        if name == "requestheaders":
            f.request.stream = True
        if name == "responseheaders":
            f.response.stream = True

    STREAMING.update({"req.stream": stream_request, "both.stream": stream_both})
    return [("none", None), ("req.content", set_req_content), ("req.header", set_req_header), ("req.header.early", set_req_header_early),
            ("resp.content", set_resp_content), ("resp.header", set_resp_header), ("req.content.empty", empty_req_content),
            ("resp.content.empty", empty_resp_content)]


def bounded(tier, seed):
    import itertools
    import random
    from props import http1ref as R
    from props import sansio
    b = Bounded()
    rnd = random.Random(seed)
    b.rule = ("request heads = {GET,POST,HEAD,OPTIONS} x {HTTP/1.1,HTTP/1.0} x framing header sets (Content-Length / Transfer-Encoding absent, valid, "
              "duplicate same/different, list, sign, leading zero, hex, OWS, obs-fold, space before colon, case, unknown/multiple/parametrised codings, "
              "TE+CL, smuggling payload bodies) + header-section oddities (invalid names, bare LF, bare CR, NUL, obs-fold) x bodies; response heads "
              "likewise + 1xx/204/304/HTTP-1.0/close-delimited; pipelining depth <= 3; addon edits {none, set content, set header (early/late), empty content} "
              "x delivery {whole, 1-byte}; distinct = distinct (client stream, responses, addon, delivery); non-trivial = at least one flow was created")
    b.bound = "bodies <= 12 bytes (smuggling payload 62 bytes); pipelining depth <= 3; one origin server; regular proxy mode; validate_inbound_headers on"
    cases = []  # (label, raws, responses(list of (bytes, close)), addon label, resp_ambiguous)
    methods = [b"GET", b"POST", b"HEAD", b"OPTIONS"]
    versions = [b"HTTP/1.1", b"HTTP/1.0"]
    # (A) single request, every framing x method x version, good response
    for (lab, lines, body), m, v in itertools.product(REQ_FRAMINGS + REQ_ODD, methods, versions):
        if tier == "quick" and m == b"OPTIONS":
            continue
        cases.append((f"A:{lab}:{m.decode()}:{v.decode()}", [mk_request(m, version=v, lines=lines, body=body)], [RESP_OK, RESP_OK], "none", None))
    # bare-LF line endings for the whole head
    for (lab, lines, body) in REQ_FRAMINGS[:8] + REQ_FRAMINGS[25:30]:
        cases.append((f"A-lf:{lab}", [mk_request(lines=lines, body=body, eol=b"\n")], [RESP_OK], "none", None))
    # (B) pipelining: every ordered pair (and sampled triples) from a pool
    pool_labels = ["none", "cl3", "te-chunked", "te-chunked-2", "cl-dup-diff2", "te-cl-smuggle", "cl-te-smuggle", "cl-plus", "te-xchunked", "expect", "cl-smuggle", "te-gzip-chunked", "ce-gzip", "ce-gzip-chunked"]
    pool = [(lab, lines, body) for lab, lines, body in REQ_FRAMINGS if lab in pool_labels] + [x for x in REQ_ODD if x[0] in ("obs-fold", "bare-cr", "bad-name-space", "conn-close")]
    for p in itertools.product(pool, repeat=2):
        raws = [mk_request(b"POST", target=b"http://example.com/r%d" % i, lines=l, body=bd) for i, (_, l, bd) in enumerate(p)]
        cases.append(("B:" + "+".join(x[0] for x in p), raws, [RESP_OK] * 4, "none", None))
    triples = list(itertools.product(pool, repeat=3))
    rnd.shuffle(triples)
    for p in triples[: (150 if tier == "quick" else 2500)]:
        raws = [mk_request(b"POST", target=b"http://example.com/r%d" % i, lines=l, body=bd) for i, (_, l, bd) in enumerate(p)]
        cases.append(("B3:" + "+".join(x[0] for x in p), raws, [RESP_OK] * 5, "none", None))
    # (C) response variants x request method x request version
    for (lab, raw, close), m, v in itertools.product(response_variants(), [b"GET", b"HEAD", b"POST", b"head"], versions):
        if tier == "quick" and (m == b"POST" or (m == b"head" and v != b"HTTP/1.1")):
            continue
        lines, body = ([b"Content-Length: 3"], b"abc") if m == b"POST" else ([], b"")
        amb = response_verdict(raw, m)
        # two pipelined requests: the second response must stay matched to the second request
        raws = [mk_request(m, target=b"http://example.com/one", version=v, lines=lines, body=body), mk_request(b"GET", target=b"http://example.com/two", version=v)]
        cases.append((f"C:{lab}:{m.decode()}:{v.decode()}", raws, [(raw, close), (b"HTTP/1.1 200 OK\r\nContent-Length: 6\r\n\r\nsecond", False)], "none", amb))
    # (D) addon edits on a representative subset
    sub_req = [x for x in REQ_FRAMINGS if x[0] in ("none", "cl3", "te-chunked", "te-gzip-chunked", "expect", "cl-ows", "ce-gzip", "ce-deflate")]
    sub_resp = [x for x in response_variants() if x[0] in ("none", "cl3", "te-chunked", "204", "304", "http10-close", "te-gzip", "http10-cl", "ce-gzip")]
    for (alab, _), (lab, lines, body), (rlab, raw, close), m in itertools.product(addon_policies()[1:], sub_req, sub_resp, [b"POST", b"HEAD"]):
        raws = [mk_request(m, target=b"http://example.com/one", lines=lines, body=body), mk_request(b"GET", target=b"http://example.com/two")]
        cases.append((f"D:{alab}:{lab}:{rlab}:{m.decode()}", raws, [(raw, close), (b"HTTP/1.1 200 OK\r\nContent-Length: 6\r\n\r\nsecond", False)], alab, None))
    addons = dict(addon_policies())
    # (E) streamed messages (flow.request.stream set in requestheaders / stream_large_bodies): the head goes upstream before the body
    #     has been read; it must still be the recorded head (e.g. without the Expect: 100-continue mitmproxy answered itself)
    addons.update(STREAMING)
    str_req = [x for x in REQ_FRAMINGS if x[0] in ("cl3", "te-chunked", "te-chunked-2", "expect", "ce-gzip", "cl-smuggle", "none")]
    str_req.append(("expect-chunked", [b"Transfer-Encoding: chunked", b"Expect: 100-continue"], chunked(b"ab", b"c")))
    str_req.append(("expect-mixed-case", [b"Content-Length: 3", b"expect: 100-Continue"], b"abc"))
    str_resp = [x for x in response_variants() if x[0] in ("cl3", "te-chunked", "http10-close")]
    for (lab, lines, body), (rlab, raw, close), how in itertools.product(str_req, str_resp, ["req.stream", "both.stream", "stream_large_bodies"]):
        raws = [mk_request(b"POST", target=b"http://example.com/one", lines=lines, body=body), mk_request(b"GET", target=b"http://example.com/two")]
        optkw = {"store_streamed_bodies": True}
        if how == "stream_large_bodies":
            optkw["stream_large_bodies"] = "1"
        cases.append((f"E:{how}:{lab}:{rlab}", raws, [(raw, close), (b"HTTP/1.1 200 OK\r\nContent-Length: 6\r\n\r\nsecond", False)],
                      how if how in STREAMING else "none", None, optkw))
    if tier == "quick":
        deliveries = ["whole", "bytes"]
    else:
        deliveries = ["whole", "bytes", "heads"]
    for case in cases:
        label, raws, responses, alab, amb = case[:5]
        options = R.get_options(**case[5]) if len(case) > 5 else None
        stream = b"".join(raws)
        for dl in deliveries:
            if dl == "whole":
                segs, split = [stream], None
            elif dl == "bytes":
                if tier == "quick" and label[0] in "BDE" and rnd.random() < 0.6:
                    continue
                segs, split = [stream[i:i + 1] for i in range(len(stream))], (lambda x: [x[i:i + 1] for i in range(len(x))])
            else:
                segs, split = list(raws), (lambda x: [x[:len(x) // 2], x[len(x) // 2:]])
            ex = R.Exchange(segs, responses, server_splitter=split, addon=addons[alab], options=options)
            inp = {"case": label, "delivery": dl, "client_stream": stream.decode("latin-1"), "responses": [r.decode("latin-1") for r, _ in responses], "addon": alab}
            if len(case) > 5:
                inp["options"] = case[5]
            b.case((label, dl), nontrivial=bool(ex.flows))
            meths = [x.split(b" ", 1)[0] for x in raws]
            check_exchange(b, ex, raws, label, inp, amb, input_classes(raws, responses, alab, meths))
    return b


# =====================================================================================================================
# T1: contracts on the real functions
V = "mitmproxy.net.http.validate:"
RD = "mitmproxy.net.http.http1.read:"
TE_LITERALS = ["chunked", "compress,chunked", "deflate,chunked", "gzip,chunked", "compress", "deflate", "gzip", "identity"]
TE_CHUNKED = TE_LITERALS[:4]
TE_PLAIN = TE_LITERALS[4:]


def cands(pools, limit=40, seed=1):
    """candidate assignments {symbol: value} (scenario option `candidates`): concrete inputs on which the uninterpreted
    library functions are evaluated by their native oracles, so that counter-models and CPython conformance samples are
    real inputs.  pools: {symbol: [values]}; the product is sampled deterministically."""
    import itertools
    import random
    names = list(pools)
    prod = list(itertools.product(*[pools[n] for n in names]))
    random.Random(seed).shuffle(prod)
    return [dict(zip(names, p)) for p in prod[:limit]]


NAME_POOL = [b"Transfer-Encoding", b"content-length", b"X-A", b"bad name"]
VALUE_POOL = [b"chunked", b"gzip", b"3", b"GZIP ,\tChunked", b"x", b"03"]


def targeted(base, variants):
    """candidate assignments: `base` with each of the `variants` applied"""
    return [dict(base, **v) for v in variants]


TE_, CL_ = b"Transfer-Encoding", b"content-length"
VALIDATE_CANDS = targeted(
    dict(n0=b"X-A", v0=b"y", n1=b"X-B", v1=b"z", n2=b"X-C", v2=b"w", version=b"HTTP/1.1", status=200),
    [dict(), dict(n0=TE_, v0=b"chunked"), dict(n0=TE_, v0=b"chunked", version=b"HTTP/1.0"), dict(n0=TE_, v0=b"gzip"), dict(n0=TE_, v0=b"GZIP ,\tChunked"),
     dict(n0=TE_, v0=b"chunked", status=204), dict(n0=TE_, v0=b"chunked", status=100), dict(n0=TE_, v0=b"xchunked"), dict(n0=CL_, v0=b"3"), dict(n0=CL_, v0=b"03"),
     dict(n0=CL_, v0=b"x"), dict(n0=TE_, v0=b"chunked", n1=CL_, v1=b"3"), dict(n0=CL_, v0=b"3", n1=TE_, v1=b"chunked"), dict(n0=TE_, v0=b"chunked", n1=TE_, v1=b"chunked"),
     dict(n0=CL_, v0=b"3", n1=CL_, v1=b"3"), dict(n0=b"bad name"), dict(n1=b"bad name"), dict(n1=TE_, v1=b"chunked"), dict(n1=CL_, v1=b"3"), dict(n2=TE_, v2=b"chunked"),
     dict(n0=TE_, v0=b"chunked", n2=CL_, v2=b"3"), dict(n0=TE_, v0=b"gzip", version=b"HTTP/1.0")])
EBS_CANDS = targeted(
    dict(n0=b"X-A", v0=b"y", n1=b"X-B", v1=b"z", http11=True, method=b"GET", status=200),
    [dict(), dict(method=b"HEAD"), dict(method=b"head"), dict(method=b"CONNECT"), dict(status=204), dict(status=304), dict(status=100), dict(status=199),
     dict(n0=TE_, v0=b"chunked"), dict(n0=TE_, v0=b"gzip"), dict(n0=TE_, v0=b"chunked", method=b"HEAD"), dict(n0=TE_, v0=b"chunked", status=304),
     dict(n0=CL_, v0=b"3"), dict(n0=CL_, v0=b"3", method=b"HEAD"), dict(n0=CL_, v0=b"3", status=304), dict(n0=CL_, v0=b"3", method=b"head"),
     dict(n1=TE_, v1=b"chunked"), dict(n1=CL_, v1=b"3"), dict(http11=False), dict(n0=CL_, v0=b"0")])


def _regex_opts():
    from pyvc.libx_http1 import te_preimage
    return dict(exact_regex=True, resub_literals=TE_LITERALS,
                lower_literals=[te_preimage(L) for L in TE_LITERALS] + ["transfer-encoding", "content-length", "chunked"])


def in_re(vc, s, pyregex):
    """s matches the Python regex `pyregex` entirely — spec side: natively re.fullmatch, in proof mode the SMT regex built
    from the spec's own pattern text (the spec patterns below are written from RFC 9110/9112, not taken from the code)"""
    import re
    if vc.mode == "native":
        return re.fullmatch(pyregex, s) is not None
    import z3
    from pyvc.libx_http1 import regex_language
    lang = regex_language(pyregex, 0)
    assert lang is not None and not lang[1], pyregex
    return SBool(z3.InRe(lift(s).t, lang[0]))


def str_to_int(vc, s):
    """decimal value of a digit string (SMT-LIB str.to_int: -1 for anything else)"""
    if vc.mode == "native":
        return int(s) if len(s) > 0 and all(c in (b"0123456789" if isinstance(s, bytes) else "0123456789") for c in s) else -1
    import z3
    return SInt(z3.StrToInt(lift(s).t))


# RFC 9110 §8.6: Content-Length = 1*DIGIT ; mitmproxy may be stricter (no leading zeros) but never laxer
CL_RFC_B, CL_RFC_S = rb"[0-9]+", r"[0-9]+"
CL_STRICT_B, CL_STRICT_S = rb"(?:0|[1-9][0-9]*)", r"(?:0|[1-9][0-9]*)"


@scenario("parse_content_length", functions=[V + "parse_content_length"], exact_regex=True,
          candidates=cands({"value_b": [b"3", b"0", b"03", b"", b"3\n", b"x", b"12"], "value_s": ["3", "0", "03", "", "3\n", "x", "12"]}))
def s_parse_cl(vc):
    as_str = vc.case("type", ["bytes", "str"]) == "str"
    v = vc.sym_str("value_s") if as_str else vc.sym_bytes("value_b")
    out = vc.call(V + "parse_content_length", v)
    rfc = in_re(vc, v, CL_RFC_S if as_str else CL_RFC_B)
    strict = in_re(vc, v, CL_STRICT_S if as_str else CL_STRICT_B)
    vc.ensure("raises_only_value_error", out.ok or issubclass(out.raised_type(), ValueError))
    # malformed values are rejected: accepted => 1*DIGIT  (`$` also matched before a trailing "\n": KF-C01-5, fixed in 9d6786045)
    vc.ensure("accepted_only_if_digits", Implies(out.ok, rfc))
    vc.ensure("canonical_decimal_accepted", Implies(strict, out.ok))
    if out.ok:
        vc.ensure("value_is_decimal_value", Implies(rfc, out.result == str_to_int(vc, v)))


# RFC 9112 §6.1 / §7: Transfer-Encoding = #transfer-coding, names case-insensitive, OWS around the commas.  mitmproxy only
# knows eight combinations (stricter than the RFC is fine); spec patterns written from that list:
def te_spec_pattern(lit, as_str):
    """case-insensitive pattern of a coding list literal with optional blanks around the commas"""
    out = ""
    for c in lit:
        if c == ",":
            out += "[ \\t]*,[ \\t]*"
        elif c.isalpha():
            out += "[" + c.lower() + c.upper() + "]"
        else:
            out += c
    return out if as_str else out.encode()


TE_VALUE_POOL = ["chunked", "Chunked", "gzip, chunked", "GZIP ,\tChunked", "identity", "gzip", "xchunked", "chunked, chunked", "", "chun\u212aed"]


@scenario("parse_transfer_encoding", functions=[V + "parse_transfer_encoding"],
          candidates=cands({"value_b": [x.encode("utf8") for x in TE_VALUE_POOL], "value_s": TE_VALUE_POOL}), **_regex_opts())
def s_parse_te(vc):
    as_str = vc.case("type", ["bytes", "str"]) == "str"
    v = vc.sym_str("value_s") if as_str else vc.sym_bytes("value_b")
    out = vc.call(V + "parse_transfer_encoding", v)
    vc.ensure("raises_only_value_error", out.ok or issubclass(out.raised_type(), ValueError))
    matches = [in_re(vc, v, te_spec_pattern(L, as_str)) for L in TE_LITERALS]
    vc.ensure("accepted_iff_known_coding_list", Iff(out.ok, Or(*matches)))
    if out.ok:
        for L, m in zip(TE_LITERALS, matches):
            vc.ensure(f"result[{L}]", Iff(out.result == L, m))


# ---------------------------------------------------------------------------------------------------------------------
# validate_headers: returns normally  =>  the framing fields are unambiguous (RFC 9112 §6.1-6.3, RFC 9110 §5.1)

TOKEN_B = rb"[!#$%&'*+\-.^_`|~0-9a-zA-Z]+"
import os as _os
NMAX = int(_os.environ.get("C01_NMAX", "3" if _os.environ.get("PYVC_TIER") == "thorough" else "2"))


def ci_pattern(lit: bytes) -> bytes:
    return b"".join((b"[" + bytes([c]).lower() + bytes([c]).upper() + b"]") if bytes([c]).isalpha() else bytes([c]) for c in lit)


def mk_message(vc, kind, names, vals, version, status=None, method=b"GET"):
    from props.httpstream import mk_request, mk_response, mk_headers
    h = mk_headers(vc, tuple((names[i], vals[i]) for i in range(len(names))))
    if kind == "request":
        return mk_request(vc, headers=h, http_version=version, method=method)
    return mk_response(vc, headers=h, http_version=version, status_code=status)


def count(conds):
    r = 0
    for c in conds:
        r = r + If(c, 1, 0)
    return r


def pick(conds, items, default):
    """the item of the first true condition"""
    r = default
    for c, x in reversed(list(zip(conds, items))):
        r = If(c, x, r)
    return r


def te_class(vc, v, abstract=False):
    """(final coding is chunked, other known coding list) for a Transfer-Encoding value, by the spec patterns.
    abstract=True (proof mode only): the two pattern sets are named by uninterpreted predicates TEc / TEp (disjoint) —
    used where only the *classification* matters and the patterns themselves are the business of parse_transfer_encoding's
    own contract."""
    if abstract and vc.mode == "sym":
        import z3
        from pyvc import lib
        t = lift(v).t
        c = SBool(lib.uf("TEc", z3.StringSort(), z3.BoolSort())(t))
        p = SBool(lib.uf("TEp", z3.StringSort(), z3.BoolSort())(t))
        return And(c, Not(p)), And(p, Not(c))
    c = Or(*[in_re(vc, v, te_spec_pattern(L, isinstance(v, (str, SStr)))) for L in TE_CHUNKED])
    p = Or(*[in_re(vc, v, te_spec_pattern(L, isinstance(v, (str, SStr)))) for L in TE_PLAIN])
    return c, p


def cl_accepted(vc, value):
    """parse_content_length(value) returns normally — natively the real function, in proof mode a named (deterministic)
    predicate of the value; what it implies about the value is parse_content_length's own contract"""
    if vc.mode == "native":
        from mitmproxy.net.http import validate as VM
        try:
            VM.parse_content_length(value)
            return True
        except ValueError:
            return False
    import z3
    from pyvc import lib
    return SBool(lib.uf("CLacc", z3.StringSort(), z3.BoolSort())(lift(value).t))


def summarise_value_parsers(vc):
    """parse_content_length / parse_transfer_encoding are replaced by their own contracts (scenarios parse_content_length,
    parse_transfer_encoding): the caller sees exactly what those contracts promise, nothing more."""
    from mitmproxy.net.http import validate as VM
    real_cl, real_te = VM.parse_content_length, VM.parse_transfer_encoding
    counter = [0]

    def cl(v_, value):
        if vc.mode == "native":
            return real_cl(value)
        as_str = isinstance(value, SStr)
        strict = in_re(vc, value, CL_STRICT_S if as_str else CL_STRICT_B)
        rfc = in_re(vc, value, CL_RFC_S if as_str else CL_RFC_B)
        counter[0] += 1
        acc = cl_accepted(vc, value)
        vc.assume(Implies(strict, acc))
        vc.assume(Implies(acc, And(is_ascii(vc, value), rfc)))   # contract parse_content_length/accepted_only_if_digits
        if vc.branch(acc):
            n = vc.fresh_int(f"cl_value{counter[0]}")
            vc.assume(Implies(rfc, And(n == str_to_int(vc, value), n >= 0)))   # decimal value of a digit string
            return n
        vc.raise_(ValueError, "invalid content-length header")

    def te(v_, value):
        if vc.mode == "native":
            return real_te(value)
        c, p = te_class(vc, value, abstract=True)
        counter[0] += 1
        if vc.branch(c):
            k = vc.ex.choose(len(TE_CHUNKED), f"te_result{counter[0]}")
            return lift(TE_CHUNKED[k])
        if vc.branch(p):
            k = vc.ex.choose(len(TE_PLAIN), f"te_result{counter[0]}")
            return lift(TE_PLAIN[k])
        vc.raise_(ValueError, "unknown transfer-encoding header")

    for mod in ("mitmproxy.net.http.validate", ):
        vc.summary(mod + ":parse_content_length", cl)
        vc.summary(mod + ":parse_transfer_encoding", te)


def lower_(vc, b):
    """ASCII case folding of a field name (RFC 9110 §5.1: names are case-insensitive) — bytes.lower(); in proof mode the
    same uninterpreted idempotent function the engine uses for bytes.lower(), tied to the two framing names by the
    case-insensitive patterns (scenario option lower_literals)"""
    if vc.mode == "native":
        return b.lower()
    import z3
    from pyvc import lib
    return SBytes(lib.uf("lower", z3.StringSort(), z3.StringSort())(lift(b).t))


def name_check(vc, name):
    """the code's own field-name test `_valid_header_name.match(name)`: natively the real pattern object, in proof mode the
    uninterpreted predicate the engine uses for a compiled pattern (exact_regex off) — what that pattern accepts is the
    subject of the separate scenario validate_headers.name_pattern"""
    from mitmproxy.net.http import validate as VM
    p = VM._valid_header_name
    if vc.mode == "native":
        return p.match(name) is not None
    import z3
    from pyvc import lib
    key = z3.StringVal(f"{p.pattern!r}/{int(p.flags)}")
    return SBool(lib.uf("re_match", z3.StringSort(), z3.StringSort(), z3.BoolSort())(key, lift(name).t))


@scenario("validate_headers", functions=[V + "validate_headers"], candidates=VALIDATE_CANDS)
def s_validate(vc):
    kind = vc.case("kind", ["request", "response"])
    n = vc.case("n", list(range(NMAX + 1)))
    names = [vc.sym_bytes(f"n{i}") for i in range(n)]
    vals = [vc.sym_bytes(f"v{i}") for i in range(n)]
    version = vc.sym_bytes("version")
    status = vc.sym_int("status", lo=100, hi=999) if kind == "response" else None
    msg = mk_message(vc, kind, names, vals, version, status)
    summarise_value_parsers(vc)
    out = vc.call(V + "validate_headers", msg)
    vc.ensure("raises_only_value_error", out.ok or issubclass(out.raised_type(), ValueError))
    is_te = [lower_(vc, nm) == b"transfer-encoding" for nm in names]
    is_cl = [lower_(vc, nm) == b"content-length" for nm in names]
    n_te, n_cl = count(is_te), count(is_cl)
    te_val = pick(is_te, vals, b"") if n else b""
    cl_val = pick(is_cl, vals, b"") if n else b""
    te_chunked, te_plain = te_class(vc, te_val, abstract=True) if n else (False, False)
    http11 = version == b"HTTP/1.1"
    no_body_status = Or(And(status >= 100, status <= 199), status == 204) if kind == "response" else False
    if out.ok:
        for i in range(n):
            vc.ensure(f"ok.every_name_checked[{i}]", name_check(vc, names[i]))
        vc.ensure("ok.at_most_one_te", n_te <= 1)
        vc.ensure("ok.at_most_one_cl", n_cl <= 1)
        vc.ensure("ok.not_both", Not(And(n_te >= 1, n_cl >= 1)))
        vc.ensure("ok.cl_is_digits", Implies(n_cl >= 1, in_re(vc, cl_val, CL_RFC_B)))
        vc.ensure("ok.cl_accepted_by_parse_content_length", Implies(n_cl >= 1, cl_accepted(vc, cl_val)))
        vc.ensure("ok.te_is_known_coding_list", Implies(n_te >= 1, Or(te_chunked, te_plain)))
        vc.ensure("ok.te_only_in_http11", Implies(n_te >= 1, http11))
        if kind == "request":
            vc.ensure("ok.request_te_ends_in_chunked", Implies(n_te >= 1, te_chunked))
        else:
            vc.ensure("ok.no_te_on_1xx_204", Implies(n_te >= 1, Not(no_body_status)))
    else:
        # completeness (mitmproxy is allowed to be stricter than the RFC, this pins down *how* strict): a message is refused
        # only for one of the reasons of the statement
        names_ok = And(*[name_check(vc, nm) for nm in names]) if n else True
        cl_ok = Implies(n_cl >= 1, in_re(vc, cl_val, CL_STRICT_B))
        te_ok = Implies(n_te >= 1, And(http11, te_chunked if kind == "request" else And(Or(te_chunked, te_plain), Not(no_body_status))))
        good = And(names_ok, n_te <= 1, n_cl <= 1, Not(And(n_te >= 1, n_cl >= 1)), cl_ok, te_ok)
        vc.ensure("refused_only_for_a_stated_reason", Not(good))


@scenario("validate_headers.name_pattern", functions=[V + "validate_headers"], exact_regex=True,
          candidates=cands({"name": [b"X-A", b"X", b"X\n", b"bad name", b"", b"\xc3\xa9"]}))
def s_validate_name(vc):
    """what the field-name test accepts: exactly the RFC 9110 tokens (known defect: plus token + newline)"""
    kind = vc.case("kind", ["request", "response"])
    name = vc.sym_bytes("name")
    msg = mk_message(vc, kind, [name], [b"x"], b"HTTP/1.1", 200 if kind == "response" else None)
    vc.assume(And(lower_(vc, name) != b"transfer-encoding", lower_(vc, name) != b"content-length"))
    out = vc.call(V + "validate_headers", msg)
    tok = in_re(vc, name, TOKEN_B)
    vc.ensure("token_accepted", Implies(tok, out.ok))
    vc.ensure("accepted_only_if_token", Implies(out.ok, tok))   # trailing newline was KF-C01-5
    vc.ensure("raises_only_value_error", out.ok or issubclass(out.raised_type(), ValueError))


# ---------------------------------------------------------------------------------------------------------------------
# expected_http_body_size: for heads that pass validation, the framing decision is exactly RFC 9112 §6.3

def is_ascii(vc, b):
    if vc.mode == "native":
        return all(c < 128 for c in b)
    import z3
    return SBool(z3.InRe(lift(b).t, z3.Star(z3.Range(chr(0), chr(127)))))


def spec_valid_fields(vc, is_request, names, vals, http11, status):
    """the postcondition of validate_headers (scenario validate_headers), as a predicate on the field list"""
    n = len(names)
    is_te = [lower_(vc, nm) == b"transfer-encoding" for nm in names]
    is_cl = [lower_(vc, nm) == b"content-length" for nm in names]
    n_te, n_cl = count(is_te), count(is_cl)
    te_val = pick(is_te, vals, b"") if n else b""
    cl_val = pick(is_cl, vals, b"") if n else b""
    te_c, te_p = te_class(vc, te_val, abstract=True) if n else (False, False)
    no_body_status = False if is_request else Or(And(status >= 100, status <= 199), status == 204)
    valid = And(n_te <= 1, n_cl <= 1, Not(And(n_te >= 1, n_cl >= 1)),
                Implies(n_cl >= 1, cl_accepted(vc, cl_val)),
                Implies(n_te >= 1, And(http11, te_c if is_request else And(Or(te_c, te_p), Not(no_body_status)))))
    return valid, n_te, n_cl, te_val, cl_val, te_c, te_p


def method_str(vc, m):
    """Request.method: the method bytes presented as text (UTF-8/surrogateescape; identity on ASCII)"""
    if vc.mode == "native":
        return m.decode("utf-8", "surrogateescape")
    import z3
    from pyvc import lib
    return SStr(lib.uf("decode_utf-8_surrogateescape", z3.StringSort(), z3.StringSort())(lift(m).t))


def upper_(vc, s):
    if vc.mode == "native":
        return s.upper()
    import z3
    from pyvc import lib
    return SStr(lib.uf("upper", z3.StringSort(), z3.StringSort())(lift(s).t))


EBS = RD + "expected_http_body_size"


@scenario("expected_http_body_size", functions=[EBS], candidates=EBS_CANDS)
def s_ebs(vc):
    kind = vc.case("kind", ["request", "response"])
    n = vc.case("n", list(range(int(_os.environ.get("C01_EBS_N", "2" if _os.environ.get("PYVC_TIER") == "thorough" else "1")) + 1)))
    names = [vc.sym_bytes(f"n{i}") for i in range(n)]
    vals = [vc.sym_bytes(f"v{i}") for i in range(n)]
    http11 = vc.sym_bool("http11")
    version = If(http11, b"HTTP/1.1", b"HTTP/1.0") if vc.mode == "sym" else (b"HTTP/1.1" if http11 else b"HTTP/1.0")
    method = vc.sym_bytes("method")
    status = vc.sym_int("status", lo=100, hi=999) if kind == "response" else None
    is_request = kind == "request"
    valid, n_te, n_cl, te_val, cl_val, te_c, te_p = spec_valid_fields(vc, is_request, names, vals, http11, status)
    m = method_str(vc, method)
    facts = [upper_(vc, lit) == lit for lit in ("HEAD", "CONNECT")]          # str.upper() of an upper-case literal
    facts.append(upper_(vc, upper_(vc, m)) == upper_(vc, m))                 # str.upper() is idempotent
    for v in vals:
        c, p = te_class(vc, v, abstract=True)
        facts.append(Implies(Or(c, p), And(is_ascii(vc, v), len_(v) > 0)))   # the named pattern sets contain non-empty ASCII strings only (te_classes.substring_lemma)
        facts.append(Implies(cl_accepted(vc, v), is_ascii(vc, v)))           # parse_content_length's contract: accepted values are ASCII
    vc.assume(And(*facts))
    summarise_value_parsers(vc)
    from props.httpstream import mk_request
    if is_request:
        req = mk_message(vc, "request", names, vals, version, method=method)
        resp = None
    else:
        req = mk_request(vc, method=method)
        resp = mk_message(vc, "response", names, vals, version, status)
    out = vc.call(EBS, req, resp)
    vc.ensure("raises_only_value_error", out.ok or issubclass(out.raised_type(), ValueError))
    # RFC 9112 §6.3 as a function of the validated head
    lenient_method = And(Or(upper_(vc, m) == "HEAD", upper_(vc, m) == "CONNECT"), m != "HEAD", m != "CONNECT")   # KF-C01-6
    if is_request:
        rule12 = False
    else:
        rule1 = Or(m == "HEAD", And(status >= 100, status <= 199), status == 204, status == 304)
        rule2 = And(status >= 200, status <= 299, m == "CONNECT")
        rule12 = Or(rule1, rule2)
    digits = in_re(vc, cl_val, CL_RFC_B) if n else True
    spec_chunked = And(Not(rule12), n_te >= 1, te_c)
    spec_len = If(rule12, 0, If(n_te >= 1, -1, If(n_cl >= 1, str_to_int(vc, cl_val), 0 if is_request else -1)))
    in_scope = And(valid, Implies(n_cl >= 1, digits))
    if not out.ok:
        vc.ensure("valid_head.no_exception", Not(valid))
        return
    r = out.result
    if isnone(r):
        vc.ensure_kf("none_only_for_chunked", Implies(in_scope, spec_chunked), "KF-C01-6", lenient_method)
    else:
        vc.ensure_kf("int_only_when_not_chunked", Implies(in_scope, Not(spec_chunked)), "KF-C01-6", lenient_method)
        vc.ensure_kf("length_per_rfc9112_6_3", Implies(in_scope, r == spec_len), "KF-C01-6", lenient_method)


# ---------------------------------------------------------------------------------------------------------------------
# make_body_reader: the h11 reader chosen for a framing decision

H1 = "mitmproxy.proxy.layers.http._http1:"


@scenario("make_body_reader", functions=[H1 + "make_body_reader"])
def s_make_body_reader(vc):
    import h11._readers as HR
    kind = vc.case("size", ["chunked", "until_close", "length"])
    made = []

    def reader(name):
        def summ(v, *a):
            made.append((name, a))
            return v.ghost("reader", name, *a)
        return summ

    # h11's reader classes are third-party: their constructors are replaced by ghost records (which class, which argument)
    for nm in ("ChunkedReader", "Http10Reader", "ContentLengthReader"):
        vc.summary(H1 + nm, reader(nm))                 # the name _http1.py calls (patched natively)
        vc.summary("h11._readers:" + nm, reader(nm))    # the defining module (symbolic dispatch)
    n = vc.sym_int("n", lo=0)
    arg = None if kind == "chunked" else (-1 if kind == "until_close" else n)
    out = vc.call(H1 + "make_body_reader", arg)
    vc.ensure("no_exception", out.ok)
    vc.ensure("exactly_one_reader", len(made) == 1)
    if len(made) != 1:
        return
    name, a = made[0]
    if kind == "chunked":
        vc.ensure("chunked.reader", name == "ChunkedReader" and len(a) == 0)
    elif kind == "until_close":
        vc.ensure("until_close.reader", name == "Http10Reader" and len(a) == 0)
    else:
        vc.ensure("length.reader", name == "ContentLengthReader" and len(a) == 1)
        if len(a) == 1:
            vc.ensure("length.exact", a[0] == n)


# ---------------------------------------------------------------------------------------------------------------------
# Http1Client.send / Http1Server.send: re-framing of forwarded messages

H1C = H1 + "Http1Client"
H1S = H1 + "Http1Server"
EVT = "mitmproxy.proxy.layers.http._events:"
CRLF = b"\r\n"
SEND_OPTS = dict(exact_regex=True, lower_literals=None)


def wire_fields(names, vals):
    r = b""
    for nm, v in zip(names, vals):
        r = r + nm + b": " + v + CRLF
    return r


def hexlen(vc, n):
    """lower-case hexadecimal chunk-size (RFC 9112 §7.1: 1*HEXDIG) — natively %x, in proof mode the engine's uninterpreted %x"""
    if vc.mode == "native":
        return b"%x" % n
    import z3
    from pyvc import lib
    return SBytes(lib.uf("hex_lower", z3.IntSort(), z3.StringSort())(lift(n).t))


def framing_fields(vc, framing, te_value):
    """field list of a forwarded message for a framing class: TE (value symbolic, of the given class) / CL / neither, plus one
    unrelated field in front"""
    x_name, x_val = vc.sym_bytes("xn"), vc.sym_bytes("xv")
    vc.assume(And(lower_(vc, x_name) != b"transfer-encoding", lower_(vc, x_name) != b"content-length"))
    if framing in ("chunked", "te_plain"):
        return [x_name, b"Transfer-Encoding"], [x_val, te_value]
    if framing == "cl":
        clv = vc.sym_bytes("clv")
        # passes validation (parse_content_length's contract; the trailing-newline class KF-C01-5 is recorded there)
        vc.assume(And(cl_accepted(vc, clv), in_re(vc, clv, CL_RFC_B)))
        return [x_name, b"Content-Length"], [x_val, clv]
    return [x_name], [x_val]


def mark_done_ghost(vc):
    def md(v, self_, **kw):
        return v.gen([v.ghost("mark_done", tuple(sorted((k, bool(x) if not is_sym(x) else x) for k, x in kw.items())))])
    vc.summary(H1 + "Http1Connection.mark_done", md)
    vc.summary(H1S + ".mark_done", md)


def lower_s(vc, s):
    if vc.mode == "native":
        return s.lower()
    import z3
    from pyvc import lib
    return type(lift(s))(lib.uf("lower", z3.StringSort(), z3.StringSort())(lift(s).t))


def te_value_of_class(vc, framing):
    """a symbolic Transfer-Encoding value of the class (named pattern sets TEc / TEp): final coding chunked / other known
    coding list.  Facts about the pattern sets used here are proved in scenario te_classes.substring_lemma:
    values in TEc contain 'chunked' after case folding, values in TEp do not; both are non-empty ASCII."""
    v = vc.sym_bytes("te")
    c, p = te_class(vc, v, abstract=True)
    vc.assume(c if framing == "chunked" else p)
    vc.assume(And(is_ascii(vc, v), len_(v) > 0))
    vc.assume(Implies(c, contains(lower_s(vc, v), b"chunked")))
    vc.assume(Implies(p, Not(contains(lower_s(vc, v), b"chunked"))))
    return v


@scenario("te_classes.substring_lemma", functions=[], candidates=cands({"v": [x.encode("utf8") for x in TE_VALUE_POOL]}))
def s_te_lemma(vc):
    """pattern facts used by the send / mark_done contracts: for every value v in a named class,
    lower(v) contains 'chunked' iff the class is 'final coding chunked'; v is non-empty ASCII.
    (lower() enters through its trusted fact: lower(v) in R <=> v in case-insensitive R for ASCII v.)"""
    v = vc.sym_bytes("v")
    lw = lower_s(vc, v)
    if vc.mode == "sym":
        import z3
        from pyvc.libx_http1 import te_preimage, rx_to_re
        for L in TE_LITERALS:
            rx = te_preimage(L)
            vc.assume(SBool(z3.InRe(lw.t, rx_to_re(rx)) == z3.InRe(v.t, rx_to_re(rx, ci=True))))
    for L in TE_LITERALS:
        m = in_re(vc, v, te_spec_pattern(L, False))
        vc.ensure(f"ascii_nonempty[{L}]", Implies(m, And(is_ascii(vc, v), len_(v) > 0)))
        if L in TE_CHUNKED:
            vc.ensure(f"contains_chunked[{L}]", Implies(m, contains(lw, b"chunked")))
        else:
            vc.ensure(f"no_chunked[{L}]", Implies(m, Not(contains(lw, b"chunked"))))
    for i, a in enumerate(TE_LITERALS):
        for b_ in TE_LITERALS[i + 1:]:
            vc.ensure(f"disjoint[{a}|{b_}]", Not(And(in_re(vc, v, te_spec_pattern(a, False)), in_re(vc, v, te_spec_pattern(b_, False)))))


def is_ghost(c, tag):
    if isinstance(c, STuple):
        return c.items[0].concrete() == tag
    return isinstance(c, tuple) and len(c) > 0 and c[0] == tag


SEND_CANDS = cands({"te": [b"chunked", b"gzip, chunked", b"gzip", b"identity"], "xn": [b"X-A"], "xv": [b"y"], "clv": [b"3", b"0"], "method": [b"GET", b"HEAD", b"head", b"POST"],
                    "scheme": [b"http"], "authority": [b"example.com", b""], "path": [b"/p"], "data": [b"", b"abc"], "status": [200, 304, 204], "reason": [b"OK"],
                    "end_stream": [False]}, limit=30)


@scenario("http1client.send", functions=[H1C + ".send", "mitmproxy.net.http.http1.assemble:assemble_request_head",
                                         "mitmproxy.net.http.http1.assemble:_assemble_request_line"], candidates=SEND_CANDS)
def s_client_send(vc):
    from props.httpstream import mk_request, mk_headers
    framing = vc.case("framing", ["chunked", "cl", "none"])   # what a validated request can carry (TE without final chunked is refused)
    evk = vc.case("event", ["headers", "data", "eom"])
    form = vc.case("target", ["origin", "absolute", "connect"]) if evk == "headers" else "origin"
    summarise_value_parsers(vc)
    te_v = te_value_of_class(vc, framing) if framing in ("chunked", "te_plain") else None
    names, vals = framing_fields(vc, framing, te_v)
    method = b"CONNECT" if form == "connect" else vc.sym_bytes("method")
    if form != "connect":
        vc.assume(upper_b(vc, method) != b"CONNECT")
    scheme, authority, path, version = vc.sym_bytes("scheme"), vc.sym_bytes("authority"), vc.sym_bytes("path"), vc.case("version", [b"HTTP/1.1", b"HTTP/1.0"])
    if form == "origin":
        authority = b""
    elif form == "absolute":
        vc.assume(len_(authority) > 0)
    req = mk_request(vc, headers=mk_headers(vc, tuple(zip(names, vals))), method=method, scheme=scheme, authority=authority, path=path, http_version=version)
    server = mk_server(vc, state=__import__("mitmproxy.connection", fromlist=["x"]).ConnectionState.OPEN)
    ctx = mk_context(vc, mk_client(vc), server, mk_options(vc, validate_inbound_headers=True))
    fresh = evk == "headers"
    cl = vc.new(H1C, context=ctx, conn=server, stream_id=None if fresh else 1, request=None if fresh else req, response=None,
                request_done=False, response_done=False, debug=None, _paused=None, _paused_event_queue=None)
    mark_done_ghost(vc)
    data = vc.sym_bytes("data")
    if evk == "headers":
        ev = vc.new(EVT + "RequestHeaders", stream_id=1, request=req, end_stream=vc.sym_bool("end_stream"), replay_flow=None)
    elif evk == "data":
        ev = vc.new(EVT + "RequestData", stream_id=1, data=data)
    else:
        ev = vc.new(EVT + "RequestEndOfMessage", stream_id=1)
    out = vc.call(H1C + ".send", cl, ev)
    vc.ensure("no_exception", out.ok)
    if not out.ok:
        return
    tr = out.trace
    sends = [c for c in tr if is_cmd(c, "SendData")]
    vc.ensure("only_to_this_server", all(c.connection is server for c in sends))
    chunked = framing == "chunked"
    if evk == "headers":
        target = authority if form == "connect" else (scheme + b"://" + authority + path if form == "absolute" else path)
        head = method + b" " + target + b" " + version + CRLF + wire_fields(names, vals) + CRLF
        vc.ensure("headers.one_send", len(tr) == 1 and len(sends) == 1)
        if len(sends) == 1:
            vc.ensure("headers.exact_head", sends[0].data == head)
        vc.ensure("headers.request_recorded", cl.request is req and vc.eq(cl.stream_id, 1))
    elif evk == "data":
        if vc.branch(len_(data) == 0):
            vc.ensure("data.empty_sends_nothing", len(tr) == 0)
            return
        vc.ensure("data.one_send", len(tr) == 1 and len(sends) == 1)
        if len(sends) == 1:
            want = hexlen(vc, len_(data)) + CRLF + data + CRLF if chunked else data
            vc.ensure("data.framed_per_forwarded_headers", sends[0].data == want)
    else:
        kinds = ["ghost" if isinstance(c, (STuple, tuple)) else (c.cls.__name__ if isinstance(c, SObj) else type(c).__name__) for c in tr]
        if chunked:
            vc.ensure("eom.chunked_terminator_then_done", kinds == ["SendData", "ghost"])
            if kinds[:1] == ["SendData"]:
                vc.ensure("eom.last_chunk", tr[0].data == b"0\r\n\r\n")
        else:
            vc.ensure("eom.nothing_written", kinds == ["ghost"])
        vc.ensure("eom.marks_request_done", len(tr) > 0 and is_ghost(tr[-1], "mark_done"))


def upper_b(vc, b):
    if vc.mode == "native":
        return b.upper()
    import z3
    from pyvc import lib
    return SBytes(lib.uf("upper", z3.StringSort(), z3.StringSort())(lift(b).t))


@scenario("http1server.send", functions=[H1S + ".send", "mitmproxy.net.http.http1.assemble:assemble_response_head",
                                         "mitmproxy.net.http.http1.assemble:_assemble_response_line"], candidates=SEND_CANDS)
def s_server_send(vc):
    from props.httpstream import mk_request, mk_response, mk_headers
    from mitmproxy.connection import ConnectionState
    framing = vc.case("framing", ["chunked", "te_plain", "cl", "none"])
    evk = vc.case("event", ["headers", "data", "eom"])
    summarise_value_parsers(vc)
    te_v = te_value_of_class(vc, framing) if framing in ("chunked", "te_plain") else None
    names, vals = framing_fields(vc, framing, te_v)
    method = vc.sym_bytes("method")
    status = vc.sym_int("status", lo=100, hi=999)
    reason = vc.sym_bytes("reason")
    version = vc.case("version", [b"HTTP/1.1", b"HTTP/1.0"])
    req = mk_request(vc, method=method)
    resp = mk_response(vc, headers=mk_headers(vc, tuple(zip(names, vals))), status_code=status, http_version=version)
    resp.data.reason = reason
    client = mk_client(vc)
    ctx = mk_context(vc, client, mk_server(vc), mk_options(vc, validate_inbound_headers=True))
    fresh = evk == "headers"
    srv = vc.new(H1S, context=ctx, conn=client, stream_id=1, request=req, response=None if fresh else resp, request_done=True,
                 response_done=False, debug=None, _paused=None, _paused_event_queue=None)
    mark_done_ghost(vc)
    for lit in ("HEAD",):
        vc.assume(upper_(vc, lit) == lit)
    m = method_str(vc, method)
    vc.assume(upper_(vc, upper_(vc, m)) == upper_(vc, m))
    data = vc.sym_bytes("data")
    if evk == "headers":
        ev = vc.new(EVT + "ResponseHeaders", stream_id=1, response=resp, end_stream=vc.sym_bool("end_stream"))
    elif evk == "data":
        ev = vc.new(EVT + "ResponseData", stream_id=1, data=data)
    else:
        ev = vc.new(EVT + "ResponseEndOfMessage", stream_id=1)
    out = vc.call(H1S + ".send", srv, ev)
    vc.ensure("no_exception", out.ok)
    if not out.ok:
        return
    tr = out.trace
    sends = [c for c in tr if is_cmd(c, "SendData")]
    vc.ensure("only_to_the_client", all(c.connection is client for c in sends))
    chunked = framing == "chunked"
    is_head = m == "HEAD"
    lenient_head = And(upper_(vc, m) == "HEAD", m != "HEAD")                                        # KF-C01-6
    bodiless_status = Or(And(status >= 100, status <= 199), status == 204, status == 304)           # RFC 9112 §6.3 rule 1
    if evk == "headers":
        head = version + b" " + dec_b(vc, status) + b" " + reason + CRLF + wire_fields(names, vals) + CRLF
        vc.ensure("headers.one_send", len(tr) == 1 and len(sends) == 1)
        if len(sends) == 1:
            vc.ensure("headers.exact_head", sends[0].data == head)
        vc.ensure("headers.response_recorded", srv.response is resp)
    elif evk == "data":
        if vc.branch(len_(data) == 0):
            vc.ensure("data.empty_sends_nothing", len(tr) == 0)
            return
        # (what follows a 101 belongs to the protocol that has been switched to: it is relayed, not a body)
        if vc.branch(And(status != 101, Or(is_head, bodiless_status))):
            # a response that cannot have a body: no body octets may follow the head (was KF-C01-3)
            vc.ensure("data.nothing_for_bodiless_response", len(tr) == 0)
            return
        vc.ensure_kf("data.one_send", len(tr) == 1 and len(sends) == 1, "KF-C01-6", And(lenient_head, status != 101))
        if len(sends) == 1:
            want = hexlen(vc, len_(data)) + CRLF + data + CRLF if chunked else data
            vc.ensure("data.framed_per_forwarded_headers", sends[0].data == want)
    else:
        kinds = ["ghost" if isinstance(c, (STuple, tuple)) else (c.cls.__name__ if isinstance(c, SObj) else type(c).__name__) for c in tr]
        if chunked and vc.branch(Not(Or(is_head, bodiless_status))):
            vc.ensure_kf("eom.chunked_terminator_then_done", kinds == ["SendData", "ghost"], "KF-C01-6", lenient_head)
            if kinds[:1] == ["SendData"]:
                vc.ensure("eom.last_chunk", tr[0].data == b"0\r\n\r\n")
        elif chunked:
            vc.ensure("eom.nothing_written_for_bodiless_response", kinds == ["ghost"])   # (was KF-C01-3)
        else:
            vc.ensure("eom.nothing_written", kinds == ["ghost"])
        vc.ensure("eom.marks_response_done", len(tr) > 0 and is_ghost(tr[-1], "mark_done"))


def dec_b(vc, n):
    if vc.mode == "native":
        return b"%d" % n
    from pyvc.lib import int_to_str
    return SBytes(int_to_str(lift(n).t))


# ---------------------------------------------------------------------------------------------------------------------
# HttpStream.check_invalid / validate_request: a head that fails validation is rejected, not forwarded

HTTPL = "mitmproxy.proxy.layers.http:"


@scenario("check_invalid", functions=[HTTPL + "HttpStream.check_invalid", HTTPL + "validate_request"])
def s_check_invalid(vc):
    from props import httpstream as HS_
    from mitmproxy.proxy.layers.http._events import ErrorCode
    is_request = vc.case("direction", [True, False])
    validation_on = vc.case("validate_inbound_headers", [True, False])
    invalid = vc.sym_bool("headers_invalid")
    why = vc.sym_str("why")
    scheme = vc.case("scheme", [b"http", b"https", b"", b"ftp"]) if is_request else b"http"
    calls = []

    def vh(v, message):
        calls.append(message)
        if v.mode == "sym":
            if v.branch(invalid):
                v.raise_(ValueError, why)
            return None
        if invalid:
            raise ValueError(why)
        return None

    vc.summary(HTTPL + "validate_headers", vh)                       # the name check_invalid / validate_request call
    vc.summary("mitmproxy.net.http.validate:validate_headers", vh)   # the defining module (symbolic dispatch)
    req = HS_.mk_request(vc, scheme=scheme)
    resp = None if is_request else HS_.mk_response(vc)
    st, flow, client, server = HS_.mk_stream(vc, "state_wait_for_request_headers" if is_request else "state_done",
                                             "state_uninitialized" if is_request else "state_wait_for_response_headers",
                                             request=req, response=resp, validate_inbound_headers=validation_on)
    out = vc.call(HTTPL + "HttpStream.check_invalid", st, is_request)
    vc.ensure("no_exception", out.ok)
    if not out.ok:
        return
    tr = out.trace
    kinds = HS_.kinds(tr)
    bad_scheme = is_request and scheme == b"ftp"
    rejected = bad_scheme or (validation_on and vc.branch(invalid))
    vc.ensure("validated_message_is_the_flows", all(m is (req if is_request else resp) for m in calls))
    vc.ensure("validation_runs_iff_enabled", len(calls) == (1 if (validation_on and not bad_scheme) else 0))
    if rejected:
        vc.ensure("rejected.returns_true", vc.eq(out.result, True))
        vc.ensure("rejected.nothing_sent_upstream", not any(HS_.is_send(c, conn=server) for c in tr))
        sends = [c for c in tr if HS_.is_send(c)]
        vc.ensure("rejected.one_error_to_client", len(sends) == 1 and HS_.is_send(sends[0], "ResponseProtocolError", client))
        if len(sends) == 1:
            vc.ensure("rejected.code", sends[0].event.code == (ErrorCode.REQUEST_VALIDATION_FAILED if is_request else ErrorCode.RESPONSE_VALIDATION_FAILED))
        vc.ensure("rejected.error_hook_once", kinds.count("HttpErrorHook") == 1)
        vc.ensure("rejected.no_request_or_response_hook", "HttpRequestHook" not in kinds and "HttpResponseHook" not in kinds and "HttpResponseHeadersHook" not in kinds)
        vc.ensure("rejected.flow_error_set", not isnone(flow.error))
        vc.ensure("rejected.flow_not_live", vc.eq(flow.live, False))
        vc.ensure("rejected.states_errored", HS_.state_name(vc, st.client_state) == "state_errored" and HS_.state_name(vc, st.server_state) == "state_errored")
        if not is_request:
            closes = [c for c in tr if is_cmd(c, "CloseConnection")]
            vc.ensure("rejected.response.server_connection_closed", len(closes) == 1 and closes[0].connection is server)
            vc.ensure("rejected.response.closed_before_anything_else", is_cmd(tr[0], "CloseConnection"))
    else:
        vc.ensure("accepted.returns_false", vc.eq(out.result, False))
        vc.ensure("accepted.emits_nothing", len(tr) == 0)
        vc.ensure("accepted.flow_untouched", isnone(flow.error) and vc.eq(flow.live, True))


# ---------------------------------------------------------------------------------------------------------------------
# HttpStream: a buffered message is handed to the HTTP/1 writer with exactly the recorded octets (raw_content, i.e. the body
# as it is on the wire under the forwarded Content-Encoding / Content-Length), never a decoded form

def _real_decode(raw: bytes, enc: str):
    from mitmproxy.net import encoding
    try:
        r = encoding.decode(raw, enc)
        return r if isinstance(r, bytes) else raw
    except Exception:
        return raw


def _oracle_c01_decode(raw, enc):
    return _real_decode(raw.encode("latin-1", "replace"), enc).decode("latin-1")


def _register_decode_oracle():
    from pyvc import lib
    lib.UF_ORACLES.setdefault("c01_decode", _oracle_c01_decode)


_register_decode_oracle()


def summarise_content_decoding(vc):
    """mitmproxy.net.encoding.decode (gzip / deflate / br / zstd codecs: third-party) is replaced by an uninterpreted function
    of (octets, coding) — no fact at all, in particular it need not be the identity; natively the real decoder runs"""
    from mitmproxy.net import encoding as E
    real = E.decode

    def dec(v, encoded, enc, errors="strict"):
        if v.mode == "native":
            return real(encoded, enc, errors)
        import z3
        from pyvc import lib
        if isnone(encoded):
            return None
        e = lift(enc)
        return SBytes(lib.uf("c01_decode", z3.StringSort(), z3.StringSort(), z3.StringSort())(lift(encoded).t, e.t))

    vc.summary("mitmproxy.net.encoding:decode", dec)


def _gz(x):
    import gzip
    return gzip.compress(x, mtime=0)


BODY_CANDS = [dict(raw=r, cev=c, edited=e) for r, c in ((_gz(b"Z" * 30 + b"GET /x HTTP/1.1\r\n\r\n"), b"gzip"), (b"abc", b"identity"), (b"abc", b"gzip"), (b"", b"gzip"), (_gz(b""), b"gzip"))
              for e in (_gz(b"edited"), b"xyz")]


@scenario("consume_request_body.forwards_raw_content", functions=[HTTPL + "HttpStream.state_consume_request_body"], candidates=BODY_CANDS)
def s_consume_request_eom(vc):
    from props import httpstream as HS_
    has_ce = vc.case("content_encoding", [True, False])
    addon_edits = vc.case("addon_sets_raw_content", [False, True])
    raw, cev, edited = vc.sym_bytes("raw"), vc.sym_bytes("cev"), vc.sym_bytes("edited")
    fields = [(b"Content-Encoding", cev)] if has_ce else []
    req = HS_.mk_request(vc, headers=HS_.mk_headers(vc, fields), method=b"POST")
    st, flow, client, server = HS_.mk_stream(vc, "state_consume_request_body", "state_wait_for_response_headers", request=req, reqbuf=raw)
    summarise_content_decoding(vc)

    def on_yield(cmd):
        n = cmd.cls.__name__ if isinstance(cmd, SObj) else type(cmd).__name__
        if n == "GetHttpConnection":
            return (server, None)
        if n == "HttpRequestHook" and addon_edits:
            cmd.flow.request.data.content = edited      # the addon replaces the octets on the wire (raw_content)
        return None

    ev = HS_.ev(vc, "RequestEndOfMessage")
    out = vc.call(HTTPL + "HttpStream.state_consume_request_body", st, ev, on_yield=on_yield)
    vc.ensure("no_exception", out.ok)
    if not out.ok:
        return
    tr = out.trace
    recorded = edited if addon_edits else raw       # flow.request.raw_content as the request hook leaves it
    vc.ensure("recorded.raw_content", flow.request.data.content == recorded)
    sends = [c for c in tr if HS_.is_send(c, conn=server)]
    heads = [c for c in sends if HS_.is_send(c, "RequestHeaders")]
    datas = [c for c in sends if HS_.is_send(c, "RequestData")]
    vc.ensure("one_head_for_the_flows_request", len(heads) == 1 and heads[0].event.request is flow.request)
    if vc.branch(len_(recorded) > 0):
        vc.ensure("one_data_event", len(datas) == 1)
        if len(datas) == 1:
            vc.ensure("data_is_exactly_the_recorded_octets", datas[0].event.data == recorded)
        if heads:
            vc.ensure("head_not_marked_as_end", vc.eq(heads[0].event.end_stream, False))
    else:
        vc.ensure("no_data_event_for_an_empty_body", len(datas) == 0)
    vc.ensure("ends_with_end_of_message", len(sends) > 0 and HS_.is_send(sends[-1], "RequestEndOfMessage"))
    vc.ensure("order", HS_.kinds(sends) == ["Send(RequestHeaders)"] + ["Send(RequestData)"] * len(datas) + ["Send(RequestEndOfMessage)"])


# ---------------------------------------------------------------------------------------------------------------------
# request-head path (HttpStream.state_wait_for_request_headers): whenever the head is written upstream — immediately for a
# streamed request, later for a buffered one — it carries the header fields of the recorded flow *as they are at that
# moment and stay afterwards*; in particular `Expect: 100-continue`, once mitmproxy has answered it itself, is gone from
# the flow before the head can leave.

@scenario("request_head_path.forwarded_fields_are_the_recorded_fields",
          functions=[HTTPL + "HttpStream.state_wait_for_request_headers", HTTPL + "HttpStream.start_request_stream", HTTPL + "HttpStream.make_server_connection"])
def s_request_head_path(vc):
    from props import httpstream as HS_
    expect = vc.case("expect", [None, b"100-continue", b"100-Continue"])
    streamed = vc.case("streamed", [True, False])          # the addon (or stream_large_bodies) asks for streaming in requestheaders
    end_stream = vc.case("end_stream", [False, True])
    x_name, x_val = vc.sym_bytes("xn"), vc.sym_bytes("xv")
    vc.assume(And(lower_(vc, x_name) != b"expect", lower_(vc, x_name) != b"host"))
    fields = [(b"Host", b"example.com"), (x_name, x_val)] + ([(b"Expect", expect)] if expect else [])
    req = HS_.mk_request(vc, headers=HS_.mk_headers(vc, fields), method=b"POST", authority=b"example.com:80")
    st, flow, client, server = HS_.mk_stream(vc, "state_wait_for_request_headers", "state_uninitialized", request=req, live=False, server_open=False)
    vc.summary(HTTPL + "validate_request", lambda v, mode, request, flag: v.lift(None))     # validation has its own contracts above
    server2 = mk_server(vc, name="server2")
    at_send = []
    order = []

    def fields_now(r):
        h = r.data.headers
        return h.fields["fields"] if vc.mode == "sym" else h.fields

    def on_yield(cmd):
        n = cmd.cls.__name__ if isinstance(cmd, SObj) else type(cmd).__name__
        if n == "GetHttpConnection":
            return (server2, None)
        if n == "HttpRequestHeadersHook" and streamed:
            cmd.flow.request.stream = True
        if HS_.is_send(cmd, "RequestHeaders"):
            at_send.append((cmd.event.request, fields_now(cmd.event.request)))
            order.append("head_upstream")
        if HS_.is_send(cmd, "ResponseHeaders", client):
            order.append("100_to_client")
        return None

    ev = HS_.ev(vc, "RequestHeaders", request=req, end_stream=end_stream, replay_flow=flow)
    out = vc.call(HTTPL + "HttpStream.state_wait_for_request_headers", st, ev, on_yield=on_yield)
    vc.ensure("no_exception", out.ok)
    if not out.ok:
        return
    final = fields_now(flow.request)
    items = lambda t: [tuple(x.items) if isinstance(x, STuple) else tuple(x) for x in (t.items if isinstance(t, STuple) else t)]
    final_items = items(final)
    answered = "100_to_client" in order
    vc.ensure("expect.answered_iff_present", answered == (expect is not None))
    if expect is not None:
        vc.ensure("expect.removed_from_the_recorded_flow", And(final_items[0][0] == b"Host", final_items[1][0] == x_name, final_items[1][1] == x_val) if len(final_items) == 2 else False)
    else:
        vc.ensure("fields_untouched", len(final_items) == 2)
    goes_now = streamed and not end_stream
    vc.ensure("head_leaves_now_iff_streamed", len(at_send) == (1 if goes_now else 0))
    if goes_now and len(at_send) == 1:
        r, f = at_send[0]
        vc.ensure("forwarded.request_is_the_flows", r is flow.request)
        fi = items(f)
        # (Headers keeps its fields in an immutable tuple that is replaced on every edit: same tuple object <=> no edit in between)
        vc.ensure("forwarded.fields_equal_recorded_fields", f is final and len(fi) == len(final_items))
        if expect is not None:
            vc.ensure("forwarded.no_expect_after_own_100_continue", order.index("100_to_client") < order.index("head_upstream") and len(fi) == 2)
