"""C29 — Raw TCP and UDP relaying is exact and each flow ends once."""
from pyvc.api import *
from props.prelude import *

CLAIM = "proof"
T = "mitmproxy.proxy.layers.tcp:TCPLayer"
U = "mitmproxy.proxy.layers.udp:UDPLayer"


def mk_tcp_layer(vc, with_flow, cstate=None, sstate=None, handler="relay_messages", awaiting=("client-id", "server-id")):
    """awaiting: ids of the sides whose close event the layer has not processed yet (TCPLayer.open_sides)"""
    client = mk_client(vc, state=cstate)
    server = mk_server(vc, state=sstate, timestamp_start=2.0)
    ctx = mk_context(vc, client, server)
    flow = None
    if with_flow:
        flow = vc.new("mitmproxy.tcp:TCPFlow", client_conn=client, server_conn=server, messages=vc.list([]), live=True,
                      error=None, id="flow-id", intercepted=False, marked="", is_replay=None, metadata=vc.dict([]), comment="",
                      timestamp_created=1.0, _backup=None)
    layer = vc.new(T, context=ctx, flow=flow, debug=None, _paused=None, _paused_event_queue=None, open_sides=vc.set(list(awaiting)))
    return layer, client, server, flow


def _open_sides(vc, layer):
    s = layer.open_sides
    return sorted((x.concrete() if hasattr(x, "concrete") else x) for x in (s.items if vc.mode == "sym" else s))


@scenario("tcp.relay.data", functions=[T + ".relay_messages"])
def s_tcp_data(vc):
    with_flow = vc.case("with_flow", [True, False])
    from_client = vc.case("from_client", [True, False])
    injected = vc.case("injected", [False, True])
    layer, client, server, flow = mk_tcp_layer(vc, with_flow)
    data = vc.sym_bytes("data")
    src, dst = (client, server) if from_client else (server, client)
    if injected:
        msg = vc.new("mitmproxy.tcp:TCPMessage", from_client=from_client, content=data, timestamp=5.0)
        ev = vc.new("mitmproxy.proxy.layers.tcp:TcpMessageInjected", flow=flow, message=msg)
    else:
        ev = vc.new("mitmproxy.proxy.events:DataReceived", connection=src, data=data)
    edited = vc.sym_bytes("edited")
    # an addon may also restructure flow.messages in the hook (annotate, merge chunks): what is relayed for this event is
    # the content of the message the layer recorded for it, not whatever happens to be last in the list afterwards
    restructure = vc.case("addon_appends_another_message", [False, True]) if with_flow else False
    decoy = vc.sym_bytes("decoy")
    hooks = []
    own = []

    def on_yield(cmd):
        if is_cmd(cmd, "TcpMessageHook"):
            hooks.append(cmd)
            # an addon may replace the content of the latest message
            m = cmd.flow.messages[-1]
            own.append(m)
            m.content = edited
            if restructure:
                extra = vc.new("mitmproxy.tcp:TCPMessage", from_client=from_client, content=decoy, timestamp=6.0)
                (cmd.flow.messages.items if vc.mode == "sym" else cmd.flow.messages).append(extra)
        return None

    out = vc.call(T + ".relay_messages", layer, ev, on_yield=on_yield)
    vc.ensure("no_exception", out.ok)
    if not out.ok:
        return
    tr = out.trace
    if with_flow:
        vc.ensure("trace.shape", len(tr) == 2 and is_cmd(tr[0], "TcpMessageHook") and is_cmd(tr[1], "SendData"))
        if len(tr) != 2:
            return
        vc.ensure("hook.flow", tr[0].flow is flow)
        vc.ensure("recorded.once", len_(flow.messages) == (2 if restructure else 1))
        m = flow.messages[0]
        vc.ensure("recorded.is_the_message_shown_to_the_hook", len(own) == 1 and own[0] is m)
        vc.ensure("recorded.direction", vc.eq(m.from_client, from_client))
        vc.ensure("send.target", tr[1].connection is dst)
        vc.ensure("send.content_is_recorded_after_hook", And(tr[1].data == m.content, tr[1].data == edited))
    else:
        vc.ensure("trace.shape", len(tr) == 1 and is_cmd(tr[0], "SendData"))
        if len(tr) != 1:
            return
        vc.ensure("send.target", tr[0].connection is dst)
        vc.ensure("send.bytes_unmodified", tr[0].data == data)
    vc.ensure("state.unchanged", "_handle_event" not in layer.__dict__ if vc.mode == "native" else "_handle_event" not in layer.fields)


@scenario("tcp.relay.close", functions=[T + ".relay_messages"])
def s_tcp_close(vc):
    """A close of one side: while the close event of the other side has not been *processed by the layer* (it is still in
    open_sides - whatever the connection states say: the server updates them as soon as a peer closes, possibly while the
    events are still queued behind a pending hook), the close is propagated as a half-close and relaying goes on; the flow
    ends (one end hook, both sides closed, state done) exactly when the last awaited close event is processed."""
    from mitmproxy.connection import ConnectionState as S
    with_flow = vc.case("with_flow", [True, False])
    from_client = vc.case("from_client", [True, False])
    other_awaited = vc.case("close_event_of_other_side_still_to_come", [True, False])
    src_awaited = vc.case("first_close_event_of_this_side", [True, False])
    cstate = conn_state(vc, "cstate")
    sstate = conn_state(vc, "sstate")
    ids = ("client-id", "server-id") if from_client else ("server-id", "client-id")
    awaiting = ([ids[0]] if src_awaited else []) + ([ids[1]] if other_awaited else [])
    layer, client, server, flow = mk_tcp_layer(vc, with_flow, cstate, sstate, awaiting=awaiting)
    src, dst = (client, server) if from_client else (server, client)
    ev = vc.new("mitmproxy.proxy.events:ConnectionClosed", connection=src)
    out = vc.call(T + ".relay_messages", layer, ev)
    vc.ensure("no_exception", out.ok)
    if not out.ok:
        return
    tr = out.trace
    kinds = trace_kinds(tr)
    done = (layer.fields if vc.mode == "sym" else layer.__dict__).get("_handle_event")
    vc.ensure("close_event_accounted_for", _open_sides(vc, layer) == ([ids[1]] if other_awaited else []))
    if other_awaited:
        # half-close is propagated, the layer keeps relaying, no end hook - also when the other side's state already says
        # 'closed': its data and close event are still to be processed
        vc.ensure("halfclose.trace", kinds == ["CloseTcpConnection"])
        if kinds == ["CloseTcpConnection"]:
            vc.ensure("halfclose.target", tr[0].connection is dst)
            vc.ensure("halfclose.flag", vc.eq(tr[0].half_close, True))
        vc.ensure("halfclose.keeps_relaying", done is None)
        if with_flow:
            vc.ensure("halfclose.flow_live", vc.eq(flow.live, True))
    else:
        n_end = kinds.count("TcpEndHook")
        vc.ensure("end.hook_once_iff_flow", n_end == (1 if with_flow else 0))
        vc.ensure("end.no_data_sent", "SendData" not in kinds)
        vc.ensure("end.state_done", done is not None and _is_method(vc, done, "done"))
        closes = [c for c in tr if is_cmd(c, "CloseConnection")]
        vc.ensure("end.closes_only_open_sides", And(*[Or(And(c.connection is client, cstate != S.CLOSED), And(c.connection is server, sstate != S.CLOSED)) for c in closes]) if closes else True)
        vc.ensure("end.closes_server_if_open", Iff(sstate != S.CLOSED, any(c.connection is server for c in closes)))
        vc.ensure("end.closes_client_if_open", Iff(cstate != S.CLOSED, any(c.connection is client for c in closes)))
        if with_flow:
            vc.ensure("end.flow_not_live", vc.eq(flow.live, False))
            vc.ensure("end.hook_last", kinds[-1] == "TcpEndHook")


def _is_method(vc, v, name):
    if vc.mode == "sym":
        return hasattr(v, "func") and v.func.qualname.endswith("." + name)
    return getattr(v, "__name__", "") == name or getattr(getattr(v, "__wrapped__", None), "__name__", "") == name


@scenario("tcp.done", functions=[T + ".done"])
def s_tcp_done(vc):
    layer, client, server, flow = mk_tcp_layer(vc, True)
    kind = vc.case("event", ["data", "close"])
    ev = vc.new("mitmproxy.proxy.events:DataReceived", connection=client, data=vc.sym_bytes("data")) if kind == "data" else vc.new("mitmproxy.proxy.events:ConnectionClosed", connection=client)
    out = vc.call(T + ".done", layer, ev)
    vc.ensure("no_exception", out.ok)
    vc.ensure("done.emits_nothing", len(out.trace) == 0)
    vc.ensure("done.records_nothing", len_(flow.messages) == 0)


@scenario("tcp.start", functions=[T + ".start"])
def s_tcp_start(vc):
    with_flow = vc.case("with_flow", [True, False])
    already_open = vc.case("server_open", [True, False])
    from mitmproxy.connection import ConnectionState as S
    client_readable = vc.case("client_still_readable", [True, False])      # the client may have half-closed during the start hook
    server_readable = vc.case("server_still_readable", [True, False]) if already_open else True
    layer, client, server, flow = mk_tcp_layer(vc, with_flow, cstate=S.OPEN if client_readable else S.CAN_WRITE,
                                               sstate=(S.OPEN if server_readable else S.CAN_WRITE) if already_open else S.CLOSED, awaiting=())
    server.timestamp_start = 2.0 if already_open else None
    fails = vc.sym_bool("connect_fails")
    errmsg = vc.sym_str("errmsg")
    vc.assume(len_(errmsg) > 0)

    def on_yield(cmd):
        if is_cmd(cmd, "OpenConnection"):
            if not vc.branch(fails):
                server.state = S.OPEN          # what the proxy server does before it reports success
                return None
            return errmsg
        return None

    ev = vc.new("mitmproxy.proxy.events:Start")
    out = vc.call(T + ".start", layer, ev, on_yield=on_yield)
    vc.ensure("no_exception", out.ok)
    if not out.ok:
        return
    kinds = trace_kinds(out.trace)
    h = (layer.fields if vc.mode == "sym" else layer.__dict__).get("_handle_event")
    failed = (not already_open) and vc.branch(fails)
    if failed:
        vc.ensure("fail.error_hook_once_iff_flow", kinds.count("TcpErrorHook") == (1 if with_flow else 0))
        vc.ensure("fail.no_end_hook", "TcpEndHook" not in kinds)
        vc.ensure("fail.client_closed", any(is_cmd(c, "CloseConnection") and c.connection is client for c in out.trace))
        vc.ensure("fail.state_done", h is not None and _is_method(vc, h, "done"))
        if with_flow:
            vc.ensure("fail.error_recorded", flow.error is not None and not isnone(flow.error))
    else:
        vc.ensure("ok.no_end_or_error_hook", "TcpErrorHook" not in kinds and "TcpEndHook" not in kinds)
        vc.ensure("ok.state_relay", h is not None and _is_method(vc, h, "relay_messages"))
        vc.ensure("ok.start_hook_iff_flow", kinds.count("TcpStartHook") == (1 if with_flow else 0))
        vc.ensure("ok.opens_iff_needed", kinds.count("OpenConnection") == (0 if already_open else 1))
        # the layer awaits a close event from exactly the sides that are readable when relaying begins
        vc.ensure("ok.awaits_close_of_exactly_the_readable_sides", _open_sides(vc, layer) == sorted((["client-id"] if client_readable else []) + (["server-id"] if server_readable else [])))


# ---------------------------------------------------------------------------------------------
# UDP


def mk_udp_layer(vc, with_flow):
    client = mk_client(vc, transport_protocol="udp")
    server = mk_server(vc, timestamp_start=2.0, transport_protocol="udp")
    ctx = mk_context(vc, client, server)
    flow = None
    if with_flow:
        flow = vc.new("mitmproxy.udp:UDPFlow", client_conn=client, server_conn=server, messages=vc.list([]), live=True,
                      error=None, id="flow-id", intercepted=False, marked="", is_replay=None, metadata=vc.dict([]), comment="",
                      timestamp_created=1.0, _backup=None)
    layer = vc.new(U, context=ctx, flow=flow, debug=None, _paused=None, _paused_event_queue=None)
    return layer, client, server, flow


@scenario("udp.relay.data", functions=[U + ".relay_messages"])
def s_udp_data(vc):
    with_flow = vc.case("with_flow", [True, False])
    from_client = vc.case("from_client", [True, False])
    injected = vc.case("injected", [False, True])
    layer, client, server, flow = mk_udp_layer(vc, with_flow)
    data = vc.sym_bytes("data")
    src, dst = (client, server) if from_client else (server, client)
    if injected:
        msg = vc.new("mitmproxy.udp:UDPMessage", from_client=from_client, content=data, timestamp=5.0)
        ev = vc.new("mitmproxy.proxy.layers.udp:UdpMessageInjected", flow=flow, message=msg)
    else:
        ev = vc.new("mitmproxy.proxy.events:DataReceived", connection=src, data=data)
    edited = vc.sym_bytes("edited")

    def on_yield(cmd):
        if is_cmd(cmd, "UdpMessageHook"):
            cmd.flow.messages[-1].content = edited

    out = vc.call(U + ".relay_messages", layer, ev, on_yield=on_yield)
    vc.ensure("no_exception", out.ok)
    if not out.ok:
        return
    tr = out.trace
    if with_flow:
        vc.ensure("trace.shape", len(tr) == 2 and is_cmd(tr[0], "UdpMessageHook") and is_cmd(tr[1], "SendData"))
        if len(tr) != 2:
            return
        vc.ensure("recorded.once", len_(flow.messages) == 1)
        m = flow.messages[0]
        vc.ensure("recorded.direction", vc.eq(m.from_client, from_client))
        vc.ensure("send.target", tr[1].connection is dst)
        vc.ensure("send.content_is_recorded_after_hook", And(tr[1].data == m.content, tr[1].data == edited))
    else:
        vc.ensure("trace.shape", len(tr) == 1 and is_cmd(tr[0], "SendData"))
        if len(tr) != 1:
            return
        vc.ensure("send.target", tr[0].connection is dst)
        vc.ensure("send.bytes_unmodified", tr[0].data == data)
    vc.ensure("state.unchanged", "_handle_event" not in (layer.__dict__ if vc.mode == "native" else layer.fields))


@scenario("udp.relay.close", functions=[U + ".relay_messages", U + ".done"])
def s_udp_close(vc):
    with_flow = vc.case("with_flow", [True, False])
    from_client = vc.case("from_client", [True, False])
    layer, client, server, flow = mk_udp_layer(vc, with_flow)
    src, dst = (client, server) if from_client else (server, client)
    ev = vc.new("mitmproxy.proxy.events:ConnectionClosed", connection=src)
    out = vc.call(U + ".relay_messages", layer, ev)
    vc.ensure("no_exception", out.ok)
    if not out.ok:
        return
    kinds = trace_kinds(out.trace)
    vc.ensure("end.trace", kinds == ["CloseConnection"] + (["UdpEndHook"] if with_flow else []))
    vc.ensure("end.closes_other_side", all(c.connection is dst for c in out.trace if is_cmd(c, "CloseConnection")))
    h = (layer.fields if vc.mode == "sym" else layer.__dict__).get("_handle_event")
    vc.ensure("end.state_done", h is not None and _is_method(vc, h, "done"))
    if with_flow:
        vc.ensure("end.flow_not_live", vc.eq(flow.live, False))
    # after the end: nothing is relayed any more
    ev2 = vc.new("mitmproxy.proxy.events:DataReceived", connection=dst, data=vc.sym_bytes("late"))
    out2 = vc.call(U + ".done", layer, ev2)
    vc.ensure("done.emits_nothing", out2.ok and len(out2.trace) == 0)


@scenario("udp.start", functions=[U + ".start"])
def s_udp_start(vc):
    with_flow = vc.case("with_flow", [True, False])
    already_open = vc.case("server_open", [True, False])
    layer, client, server, flow = mk_udp_layer(vc, with_flow)
    server.timestamp_start = 2.0 if already_open else None
    fails = vc.sym_bool("connect_fails")
    errmsg = vc.sym_str("errmsg")
    vc.assume(len_(errmsg) > 0)

    def on_yield(cmd):
        if is_cmd(cmd, "OpenConnection"):
            return If(fails, errmsg, None) if vc.mode == "sym" else (errmsg if fails else None)

    out = vc.call(U + ".start", layer, vc.new("mitmproxy.proxy.events:Start"), on_yield=on_yield)
    vc.ensure("no_exception", out.ok)
    if not out.ok:
        return
    kinds = trace_kinds(out.trace)
    h = (layer.fields if vc.mode == "sym" else layer.__dict__).get("_handle_event")
    failed = (not already_open) and vc.branch(fails)
    if failed:
        vc.ensure("fail.error_hook_once_iff_flow", kinds.count("UdpErrorHook") == (1 if with_flow else 0))
        vc.ensure("fail.no_end_hook", "UdpEndHook" not in kinds)
        vc.ensure("fail.client_closed", any(is_cmd(c, "CloseConnection") and c.connection is client for c in out.trace))
        vc.ensure("fail.state_done", h is not None and _is_method(vc, h, "done"))
    else:
        vc.ensure("ok.no_end_or_error_hook", "UdpErrorHook" not in kinds and "UdpEndHook" not in kinds)
        vc.ensure("ok.state_relay", h is not None and _is_method(vc, h, "relay_messages"))


# =============================================================================================
# T2: real TCPLayer / UDPLayer driven sans-io over all event sequences up to a bound

def bounded(tier, seed):
    import itertools
    from mitmproxy.proxy.layers import tcp as LT, udp as LU
    from mitmproxy.proxy import events
    from mitmproxy import tcp as mtcp, udp as mudp
    from mitmproxy.connection import ConnectionState
    from props import sansio

    b = Bounded()
    depth = 4 if tier == "quick" else 6
    b.rule = ("event sequences over {data from client, data from server, injected c->s, injected s->c, close client, close server} for the real "
              "TCPLayer/UDPLayer x {flow, ignore} x addon policy {keep, edit}; distinct = (proto, flow?, policy, sequence); non-trivial = contains a close")
    b.bound = f"all sequences of length <= {depth}"
    b.exhaustive = True
    syms = ["dc", "ds", "ic", "is", "cc", "cs"]
    for proto, Layer, Inj, Msg in (("tcp", LT.TCPLayer, LT.TcpMessageInjected, mtcp.TCPMessage), ("udp", LU.UDPLayer, LU.UdpMessageInjected, mudp.UDPMessage)):
        for ignore in (False, True):
            for policy in ("keep", "edit"):
                for n in range(1, depth + 1):
                    for seq in itertools.product(syms, repeat=n):
                        if ignore and any(s.startswith("i") for s in seq):
                            continue
                        ctx = sansio.context_for()
                        ctx.client.transport_protocol = proto
                        ctx.server.address = ("example.com", 80)
                        ctx.server.transport_protocol = proto
                        lay = Layer(ctx, ignore=ignore)

                        def pol(hook):
                            if policy == "edit" and hook.name.endswith("_message"):
                                m = hook.flow.messages[-1]
                                m.content = m.content + b"!"

                        d = sansio.Driver(lay, hook_policy=pol)
                        d.start()
                        expect = {ctx.client.id: b"", ctx.server.id: b""}
                        ended = False
                        k = 0
                        closed_c = closed_s = False
                        for s in seq:
                            k += 1
                            payload = bytes([64 + k])
                            before = (d.bytes_to(ctx.client), d.bytes_to(ctx.server))
                            if s in ("dc", "ds"):
                                src = ctx.client if s == "dc" else ctx.server
                                if (src is ctx.client and closed_c) or (src is ctx.server and closed_s):
                                    continue
                                d.data(src, payload)
                                fromc = s == "dc"
                            elif s in ("ic", "is"):
                                fromc = s == "ic"
                                d.feed(Inj(lay.flow, Msg(fromc, payload)))
                            else:
                                src = ctx.client if s == "cc" else ctx.server
                                if (src is ctx.client and closed_c) or (src is ctx.server and closed_s):
                                    continue
                                if src is ctx.client:
                                    closed_c = True
                                else:
                                    closed_s = True
                                d.close(src)
                                if proto == "udp" or (closed_c and closed_s):
                                    ended = True
                                continue
                            if not ended:
                                dst = ctx.server if fromc else ctx.client
                                expect[dst.id] += payload + (b"!" if (policy == "edit" and not ignore) else b"")
                        b.case((proto, ignore, policy, seq), nontrivial=any(s.startswith("c") for s in seq))
                        inp = {"proto": proto, "ignore": ignore, "policy": policy, "seq": list(seq)}
                        for conn in (ctx.client, ctx.server):
                            if d.bytes_to(conn) != expect[conn.id]:
                                b.fail(f"{proto}.relay_exact", inp, f"to {'client' if conn is ctx.client else 'server'}: got {d.bytes_to(conn)!r} expected {expect[conn.id]!r}")
                        names = d.hook_names()
                        n_end = names.count(f"{proto}_end") + names.count(f"{proto}_error")
                        if not ignore:
                            if n_end != (1 if ended else 0):
                                b.fail(f"{proto}.exactly_one_end", inp, f"hooks={names}")
                            if lay.flow.live != (not ended):
                                b.fail(f"{proto}.live_flag", inp, f"live={lay.flow.live} ended={ended}")
                            rec = [m.content for m in lay.flow.messages]
                            if b"".join(rec) != b"".join(c for _, c in d.sent_chunks):
                                b.fail(f"{proto}.recorded_equals_sent", inp, f"recorded={rec} sent={d.sent_chunks}")
                        if proto == "tcp" and (closed_c != closed_s):
                            halves = [c for c, half in d.closed if half]
                            if len(halves) != 1:
                                b.fail("tcp.half_close_propagated", inp, f"closed={d.closed}")
    _bounded_pending_hooks(b, tier)
    return b


def _bounded_pending_hooks(b, tier):
    """Schedules: tcp_message hooks stay pending (slow async addon, intercepted flow) while further data and closes arrive. As in
    the real proxy server, a close updates the connection state at once while its event queues behind the pending hook. Every
    byte a peer sent before its own close must still reach the other peer, in order, and the flow ends exactly once, after the
    last close has been processed."""
    import itertools
    from mitmproxy.proxy.layers import tcp as LT
    from props import sansio
    depth = 5 if tier == "quick" else 7
    syms = ["dc", "ds", "cc", "cs", "R"]
    b.rule += ("; schedules with pending hooks: sequences over {data from client, data from server, close client, close server, complete the oldest pending "
               "tcp_message hook} for the real TCPLayer x addon policy {keep, edit}, every tcp_message hook held until released, all released at the end")
    b.bound += f"; pending-hook schedules of length <= {depth}"
    for policy in ("keep", "edit"):
        for n in range(2, depth + 1):
            for seq in itertools.product(syms, repeat=n):
                if "R" not in seq and not ("cc" in seq or "cs" in seq):
                    continue
                ctx = sansio.context_for()
                ctx.server.address = ("example.com", 80)
                lay = LT.TCPLayer(ctx)

                def pol(hook):
                    if policy == "edit" and hook.name == "tcp_message":
                        m = hook.flow.messages[-1]
                        m.content = m.content + b"!"

                d = sansio.Driver(lay, hook_policy=pol, hold_hooks=lambda h: h.name == "tcp_message")
                d.start()
                expect = {ctx.client.id: b"", ctx.server.id: b""}
                closed = set()
                k = 0
                for s_ in seq:
                    k += 1
                    payload = bytes([64 + k])
                    if s_ in ("dc", "ds"):
                        src, dst = (ctx.client, ctx.server) if s_ == "dc" else (ctx.server, ctx.client)
                        if src.id in closed:
                            continue
                        d.data(src, payload)
                        expect[dst.id] += payload + (b"!" if policy == "edit" else b"")
                    elif s_ in ("cc", "cs"):
                        src = ctx.client if s_ == "cc" else ctx.server
                        if src.id in closed:
                            continue
                        closed.add(src.id)
                        d.close(src)
                    else:
                        d.release()
                while d.release():
                    pass
                b.case(("tcp-pending", policy, seq), nontrivial=len(closed) > 0 and "R" in seq)
                inp = {"proto": "tcp", "policy": policy, "seq": list(seq), "note": "tcp_message hooks held until R / the end"}
                for conn in (ctx.client, ctx.server):
                    if d.bytes_to(conn) != expect[conn.id]:
                        b.fail("tcp.pending_hooks.no_data_lost", inp, f"to {'client' if conn is ctx.client else 'server'}: got {d.bytes_to(conn)!r} expected {expect[conn.id]!r}")
                names = d.hook_names()
                n_end = names.count("tcp_end") + names.count("tcp_error")
                if n_end != (1 if len(closed) == 2 else 0):
                    b.fail("tcp.pending_hooks.exactly_one_end_after_both_closes", inp, f"hooks={names}")
                rec = [m.content for m in lay.flow.messages]
                if b"".join(rec) != b"".join(c for _, c in d.sent_chunks):
                    b.fail("tcp.pending_hooks.recorded_equals_sent", inp, f"recorded={rec} sent={d.sent_chunks}")
                if len(closed) == 1:
                    halves = [c for c, half in d.closed if half]
                    if len(halves) != 1:
                        b.fail("tcp.pending_hooks.half_close_propagated", inp, f"closed={d.closed}")
