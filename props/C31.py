"""C31 — Content-Encoding round-trips and the codec cache is transparent.

Codecs are uninterpreted (their byte-level behaviour is library behaviour, exercised for real in T2):
  dok(c, x) / dval(c, x)   mitmproxy's (lenient) decoder of coding family c accepts x / its result
  enc(c, y)                mitmproxy's encoder
  rok(c, x) / rval(c, x)   the reference decoder (zlib / gzip / brotli / zstd called directly)
with the trusted codec axioms   dok(c, enc(c, y)) and dval(c, enc(c, y)) == y,  rok(c, enc(c, y)) and rval(c, enc(c, y)) == y,
dok(c, x) and rok(c, x) => dval(c, x) == rval(c, x)   (the lenient decoder extends the reference one).
Module invariant CacheInv: `_cache` is (None, None, None, None) or (x: bytes, e in CACHEABLE, errors, y) with dok(fam e, x) and
dval(fam e, x) == y and x != b"" (an empty input is never remembered: the decoders answer b"" for it without calling the codec).
"""
from pyvc.api import *
from props.prelude import *

CLAIM = "proof"
ENC = "mitmproxy.net.encoding"
CACHEABLE = ("gzip", "deflate", "deflateraw", "br", "zstd")
FAM = {"gzip": "gzip", "deflate": "deflate", "deflateraw": "deflate", "br": "br", "zstd": "zstd"}
CODEC_FUNCS = {"gzip": "gzip", "deflate": "deflate", "brotli": "br", "zstd": "zstd"}   # decode_<k> / encode_<k> -> family

ASSUMPTIONS = [
    "codec round-trip axioms (trusted library behaviour): for each coding family, the decoder accepts the encoder's output and returns the input; the reference decoder (zlib/gzip/brotli/zstd called directly) does too; where both mitmproxy's lenient decoder and the reference decoder accept an input they agree",
    "codecs.decode / codecs.encode for names outside the custom table are uninterpreted functions of (data, name, errors) that may raise LookupError/ValueError",
    "Message.set_content / get_content: encoding.encode / encoding.decode are replaced by their proved contracts (scenarios encode / decode); header names are the concrete names the code uses",
    "independent decoders: what encode() produces itself must be accepted by zlib/gzip/brotli/zstd called directly; bytes taken over unchanged from a peer through the cache (which mitmproxy's lenient decoders accepted, e.g. raw deflate without zlib header) must decode to the same content whenever the independent decoder accepts them at all",
    "codec axiom: the encoders never produce an empty output",
    "inputs are bytes or None (str inputs take the same paths with codecs.* and are exercised in T2 only)",
]


# ---- the uninterpreted codecs, usable in both modes ------------------------------------------------------------------

def _uf(name, ret="s"):
    import z3
    from pyvc import lib
    S = z3.StringSort()
    return lib.uf(name, S, S, z3.BoolSort() if ret == "b" else S)


def _ref_decoder(fam):
    import gzip
    import zlib
    import brotli
    from backports import zstd
    return {"gzip": gzip.decompress, "deflate": zlib.decompress, "br": brotli.decompress, "zstd": zstd.decompress}[fam]


def _own_decoder(fam):
    import mitmproxy.net.encoding as E
    return {"gzip": E.decode_gzip, "deflate": E.decode_deflate, "br": E.decode_brotli, "zstd": E.decode_zstd}[fam]


def _own_encoder(fam):
    import mitmproxy.net.encoding as E
    return {"gzip": E.encode_gzip, "deflate": E.encode_deflate, "br": E.encode_brotli, "zstd": E.encode_zstd}[fam]


def _try(fn, x):
    try:
        return True, fn(x)
    except Exception:
        return False, b""


def _b(s):
    return s.encode("latin-1") if isinstance(s, str) else s


def _register_oracles():
    from pyvc import lib
    lib.UF_ORACLES["c31_dok"] = lambda c, x: _try(_own_decoder(c), _b(x))[0]
    lib.UF_ORACLES["c31_dval"] = lambda c, x: _try(_own_decoder(c), _b(x))[1]
    lib.UF_ORACLES["c31_rok"] = lambda c, x: _try(_ref_decoder(c), _b(x))[0]
    lib.UF_ORACLES["c31_rval"] = lambda c, x: _try(_ref_decoder(c), _b(x))[1]
    lib.UF_ORACLES["c31_enc"] = lambda c, y: _own_encoder(c)(_b(y))


_register_oracles()


def dok(vc, fam, x):
    if vc.mode == "native":
        return _try(_own_decoder(fam), x)[0]
    return SBool(_uf("c31_dok", "b")(lift(fam).t, x.t))


def dval(vc, fam, x):
    if vc.mode == "native":
        return _try(_own_decoder(fam), x)[1]
    return SBytes(_uf("c31_dval")(lift(fam).t, x.t))


def rok(vc, fam, x):
    if vc.mode == "native":
        return _try(_ref_decoder(fam), x)[0]
    return SBool(_uf("c31_rok", "b")(lift(fam).t, x.t))


def rval(vc, fam, x):
    if vc.mode == "native":
        return _try(_ref_decoder(fam), x)[1]
    return SBytes(_uf("c31_rval")(lift(fam).t, x.t))


def install_codecs(vc):
    """proof mode: the eight codec functions are the uninterpreted functions above (natively the real ones run)"""
    if vc.mode != "sym":
        return
    import z3
    from pyvc import lib

    def mk_dec(fam):
        def dec(v, content):
            if v.branch(dok(v, fam, content)):
                r = dval(v, fam, content)
                v.assume(SBool(lib.bytes_range(r.t)))
                return r
            v.raise_(ValueError if fam == "gzip" else RuntimeError, "decompression failed")
        return dec

    def mk_enc(fam):
        def enc(v, content):
            r = SBytes(_uf("c31_enc")(lift(fam).t, content.t))
            v.assume(SBool(lib.bytes_range(r.t)))
            v.assume(And(len_(r) > 0, dok(v, fam, r), dval(v, fam, r) == content, rok(v, fam, r), rval(v, fam, r) == content))    # codec axioms
            return r
        return enc

    for k, fam in CODEC_FUNCS.items():
        vc.summary(f"{ENC}:decode_{k}", mk_dec(fam))
        vc.summary(f"{ENC}:encode_{k}", mk_enc(fam))

    def codecs_call(kind):
        def f(v, data, name, errors="strict"):
            ok = SBool(lib.uf("c31_codecs_ok_" + kind, z3.StringSort(), z3.StringSort(), z3.StringSort(), z3.BoolSort())(data.t, name.t, lift(errors).t))
            if v.branch(ok):
                r = SBytes(lib.uf("c31_codecs_" + kind, z3.StringSort(), z3.StringSort(), z3.StringSort(), z3.StringSort())(data.t, name.t, lift(errors).t))
                v.assume(SBool(lib.bytes_range(r.t)))
                return r
            if v.branch(v.fresh_bool("codec_is_a_text_codec")):
                v.raise_(TypeError, "argument must be str, not bytes")     # e.g. codecs.encode(b"..", "utf-8")
            v.raise_(LookupError, "unknown encoding")
        return f

    vc.summary("_codecs:decode", codecs_call("decode"))
    vc.summary("_codecs:encode", codecs_call("encode"))


def set_cache(vc, value):
    if vc.mode == "sym":
        vc.ex.module_globals[(ENC, "_cache")] = value
    else:
        import mitmproxy.net.encoding as E
        E._cache = value


def get_cache(vc):
    if vc.mode == "sym":
        return vc.resolve(vc.ex.module_globals.get((ENC, "_cache")))
    import mitmproxy.net.encoding as E
    return E._cache


def cache_fields(vc, c):
    return [vc.getattr(c, n) for n in ("encoded", "encoding", "errors", "decoded")]


def mk_cache(vc, state):
    """pre-state of the module cache satisfying CacheInv: empty, or filled with a symbolic entry of coding `state`"""
    if state == "empty":
        c = vc.construct(ENC + ":CachedDecode", None, None, None, None)
        set_cache(vc, c)
        return c, None
    ce, cd, cerr = vc.sym_bytes("cache_encoded"), vc.sym_bytes("cache_decoded"), vc.sym_str("cache_errors")
    vc.assume(And(len_(ce) > 0, dok(vc, FAM[state], ce), dval(vc, FAM[state], ce) == cd))        # CacheInv
    c = vc.construct(ENC + ":CachedDecode", ce, state, cerr, cd)
    set_cache(vc, c)
    return c, (ce, state, cerr, cd)


def cache_inv(vc, c):
    e, enc, err, d = cache_fields(vc, c)
    if isnone(e) is True or (vc.mode == "native" and e is None):
        return And(isnone(enc), isnone(err), isnone(d))
    encs = enc if vc.mode == "native" else enc.concrete()
    if encs not in CACHEABLE:
        return False
    return And(isa(e, bytes), isa(d, bytes), len_(e) > 0, dok(vc, FAM[encs], e), dval(vc, FAM[encs], e) == d)


CALL_ENCODINGS = ["gzip", "GZip", "deflate", "deflateraw", "br", "zstd", "identity", "none", "x-unknown"]
CACHE_STATES = ["empty", "gzip", "deflateraw", "br"]


def candidates():
    """concrete inputs that agree with the real codecs (for replayable counter-models / CPython conformance samples)"""
    import mitmproxy.net.encoding as E
    out = []
    for body in (b"", b"a", b"hello hello hello"):
        for fam in ("gzip", "deflate", "br", "zstd"):
            good = _own_encoder(fam)(body)
            for x in (good, b"", b"\x00garbage"):
                for cfam in ("gzip", "deflate", "br"):
                    cx = _own_encoder(cfam)(b"cached")
                    out.append({"x": x, "y": body, "cache_encoded": cx, "cache_decoded": b"cached", "cache_errors": "strict"})
                    out.append({"x": cx, "y": cx, "cache_encoded": cx, "cache_decoded": b"cached", "cache_errors": "strict"})
                    out.append({"x": cx, "y": b"cached", "cache_encoded": cx, "cache_decoded": b"cached", "cache_errors": "strict"})
                out.append({"x": x, "y": body, "cache_encoded": x, "cache_decoded": _try(_own_decoder(fam), x)[1], "cache_errors": "strict"})
    return out


@scenario("decode", functions=[ENC + ":decode"], candidates=candidates)
def s_decode(vc):
    x = vc.sym_bytes("x")
    enc = vc.case("encoding", CALL_ENCODINGS)
    err = vc.case("errors", ["strict", "replace"])
    cache, filled = mk_cache(vc, vc.case("cache", CACHE_STATES))
    install_codecs(vc)
    out = vc.call(ENC + ":decode", x, enc, err)
    low = enc.lower()
    post = get_cache(vc)
    if low in ("identity", "none"):
        vc.ensure("identity.returns_input", out.ok and vc.eq(out.result, x))
        vc.ensure("identity.cache_untouched", post is cache)
        return
    if low not in FAM:
        vc.ensure("unknown.codecs_result_or_value_error_or_type_error", out.ok or issubclass(out.raised_type(), (ValueError, TypeError)))
        vc.ensure("unknown.cache_untouched", post is cache)
        return
    fam = FAM[low]
    if vc.branch(dok(vc, fam, x)):
        vc.ensure("transparent.result_is_the_decoders_for_every_cache_state", And(out.ok, vc.eq(out.result, dval(vc, fam, x)) if out.ok else False))
        if out.ok:
            e2, enc2, err2, d2 = cache_fields(vc, post)
            # either the entry that answered (hit) is kept, or the new result is remembered under (input, coding, errors)
            kept = post is cache
            vc.ensure("cache.entry_is_for_this_call", Or(kept, And(vc.eq(e2, x), vc.eq(enc2, low), vc.eq(err2, err), vc.eq(d2, out.result))))
    else:
        vc.ensure("invalid_data.value_error", (not out.ok) and issubclass(out.raised_type(), ValueError))
        vc.ensure("invalid_data.cache_untouched", post is cache)
    vc.ensure("cache_invariant_preserved", cache_inv(vc, post))
    if out.ok and filled is not None and post is cache:
        # the entry was kept, i.e. it answered: a hit needs all three keys -- same bytes, same coding, same errors
        # (an empty input is decoded without touching the cache, so the entry is also kept then)
        vc.ensure("hit.only_on_same_bytes_coding_and_errors", Or(len_(x) == 0, And(vc.eq(filled[0], x), filled[1] == low, vc.eq(filled[2], err))))


@scenario("decode.none", functions=[ENC + ":decode", ENC + ":encode"], candidates=candidates)
def s_none(vc):
    which = vc.case("function", ["decode", "encode"])
    cache, _ = mk_cache(vc, vc.case("cache", ["empty", "gzip"]))
    out = vc.call(ENC + ":" + which, None, vc.case("encoding", ["gzip", "identity"]), "strict")
    vc.ensure("none_in_none_out", out.ok and isnone(out.result))
    vc.ensure("cache_untouched", get_cache(vc) is cache)


@scenario("encode", functions=[ENC + ":encode"], candidates=candidates)
def s_encode(vc):
    y = vc.sym_bytes("y")
    enc = vc.case("encoding", CALL_ENCODINGS)
    err = vc.case("errors", ["strict", "replace"])
    cache, filled = mk_cache(vc, vc.case("cache", CACHE_STATES))
    install_codecs(vc)
    out = vc.call(ENC + ":encode", y, enc, err)
    low = enc.lower()
    post = get_cache(vc)
    if low in ("identity", "none"):
        vc.ensure("identity.returns_input", out.ok and vc.eq(out.result, y))
        vc.ensure("identity.cache_untouched", post is cache)
        return
    if low not in FAM:
        vc.ensure("unknown.codecs_result_or_value_error_or_type_error", out.ok or issubclass(out.raised_type(), (ValueError, TypeError)))
        vc.ensure("unknown.cache_untouched", post is cache)
        return
    fam = FAM[low]
    vc.ensure("total_on_bytes", out.ok)
    if not out.ok:
        return
    r = out.result
    vc.ensure("result_is_bytes", isa(r, bytes))
    vc.ensure("decodes_to_the_input_for_every_cache_state", And(dok(vc, fam, r), dval(vc, fam, r) == y))
    hit = post is cache and filled is not None
    if hit:
        # the cache hands back, unchanged, the bytes a peer sent and mitmproxy's (lenient) decoder accepted: an independent
        # decoder that accepts them at all yields the same content (see ASSUMPTIONS)
        if vc.mode == "sym":
            vc.assume(Implies(And(dok(vc, fam, filled[0]), rok(vc, fam, filled[0])), dval(vc, fam, filled[0]) == rval(vc, fam, filled[0])))   # agreement axiom
        vc.ensure("independent_decoder_accepts_result", And(vc.eq(r, filled[0]), Implies(rok(vc, fam, r), rval(vc, fam, r) == y)))
    else:
        vc.ensure("independent_decoder_accepts_result.fresh", And(rok(vc, fam, r), rval(vc, fam, r) == y))
    vc.ensure("result_never_empty", len_(r) > 0)
    vc.ensure("cache_invariant_preserved", cache_inv(vc, post))
    if not hit:
        e2, enc2, err2, d2 = cache_fields(vc, post)
        vc.ensure("cache.entry_is_for_this_call", And(vc.eq(e2, r), vc.eq(enc2, low), vc.eq(err2, err), vc.eq(d2, y)))
    if filled is not None and post is cache:
        vc.ensure("hit.keys_include_coding_and_errors", And(filled[1] == low, vc.eq(filled[2], err), vc.eq(filled[3], y), vc.eq(r, filled[0])))


# ---------------------------------------------------------------------------------------------
# decode_deflate relative to a zlib contract: accepts every zlib stream and every raw deflate stream

def _zlib_ok(x, wbits):
    import zlib
    try:
        return True, zlib.decompress(_b(x), wbits)
    except zlib.error:
        return False, b""


def _register_zlib_oracles():
    from pyvc import lib
    lib.UF_ORACLES["c31_is_zlib"] = lambda x: _zlib_ok(x, 15)[0]
    lib.UF_ORACLES["c31_zlib_val"] = lambda x: _zlib_ok(x, 15)[1]
    lib.UF_ORACLES["c31_is_raw"] = lambda x: _zlib_ok(x, -15)[0]
    lib.UF_ORACLES["c31_raw_val"] = lambda x: _zlib_ok(x, -15)[1]


_register_zlib_oracles()


def _z(vc, name, x):
    """zlib.decompress as a contract: (accepted?, value) for the zlib format (wbits 15) and for raw deflate (wbits -15)"""
    if vc.mode == "native":
        ok, val = _zlib_ok(x, 15 if "zlib" in name else -15)
        return ok if name.startswith("c31_is") else val
    import z3
    from pyvc import lib
    S = z3.StringSort()
    if name.startswith("c31_is"):
        return SBool(lib.uf(name, S, z3.BoolSort())(x.t))
    return SBytes(lib.uf(name, S, S)(x.t))


def deflate_candidates():
    import zlib
    out = []
    for body in (b"", b"abc", b"hello hello hello hello"):
        for level in (0, 1, 3, 6, 9):
            for wbits in (15, 12, 9, -15):
                c = zlib.compressobj(level, zlib.DEFLATED, wbits)
                out.append({"x": c.compress(body) + c.flush()})
    out += [{"x": b"\x00garbage"}, {"x": b"x"}, {"x": b"\x78\x9c"}]
    return out


@scenario("decode_deflate", functions=[ENC + ":decode_deflate"], candidates=deflate_candidates)
def s_decode_deflate(vc):
    import zlib
    x = vc.sym_bytes("x")
    if vc.mode == "sym":
        from pyvc import lib

        def decompress(v, data, wbits=15, *a, **k):
            w = wbits.concrete() if hasattr(wbits, "concrete") else wbits
            kind = "zlib" if w == 15 else "raw" if w == -15 else None
            if kind is None:
                raise Unsupported(f"zlib.decompress with wbits={w}: not part of the contract")
            if v.branch(_z(v, f"c31_is_{kind}", data)):
                r = _z(v, f"c31_{kind}_val", data)
                v.assume(SBool(lib.bytes_range(r.t)))
                return r
            v.raise_(zlib.error, "invalid stream")

        vc.summary("zlib:decompress", decompress)
    out = vc.call(ENC + ":decode_deflate", x)
    if vc.branch(len_(x) == 0):
        vc.ensure("empty.decodes_to_empty", out.ok and vc.eq(out.result, b""))
        return
    if vc.branch(_z(vc, "c31_is_zlib", x)):
        vc.ensure("accepts_every_zlib_stream", And(out.ok, vc.eq(out.result, _z(vc, "c31_zlib_val", x)) if out.ok else False))
    elif vc.branch(_z(vc, "c31_is_raw", x)):
        vc.ensure("accepts_every_raw_deflate_stream", And(out.ok, vc.eq(out.result, _z(vc, "c31_raw_val", x)) if out.ok else False))
    else:
        vc.ensure("neither.raises_the_codecs_error", (not out.ok) and issubclass(out.raised_type(), zlib.error))


# ---------------------------------------------------------------------------------------------
# Message.set_content / get_content (http.py) relative to the contracts of encode / decode

from props.httpstream import mk_response, mk_headers

MSG = "mitmproxy.http:Message"


_REAL = []      # [encode, decode] real functions, kept in a list (vc.summary patches module-level aliases)


def _real():
    if not _REAL:
        import mitmproxy.net.encoding as E
        _REAL.extend([E.encode, E.decode])
    return _REAL


_real()      # bind the real functions at import time, before any summary patches the module attributes


def _fresh_cache():
    import mitmproxy.net.encoding as E
    E._cache = E.CachedDecode(None, None, None, None)


def _o_encode(e, v):
    _fresh_cache()
    try:
        return ("ok", _real()[0](_b(v), e))
    except TypeError:
        return ("TypeError", b"")
    except ValueError:
        return ("ValueError", b"")


def _o_decode(e, raw):
    _fresh_cache()
    try:
        r = _real()[1](_b(raw), e)
        return ("ok", r) if isinstance(r, bytes) else ("str", b"")
    except ValueError:
        return ("ValueError", b"")


def _register_msg_oracles():
    from pyvc import lib
    lib.UF_ORACLES["c31_eok"] = lambda e, v: _o_encode(e, v)[0] == "ok"
    lib.UF_ORACLES["c31_etxt"] = lambda e, v: _o_encode(e, v)[0] == "TypeError"
    lib.UF_ORACLES["c31_E"] = lambda e, v: _o_encode(e, v)[1]
    lib.UF_ORACLES["c31_Dok"] = lambda e, r: _o_decode(e, r)[0] == "ok"
    lib.UF_ORACLES["c31_D"] = lambda e, r: _o_decode(e, r)[1]


_register_msg_oracles()


def _u(vc, name, ret, e, x):
    """encode/decode outcome as a function of (coding, data): uninterpreted in proof mode, the real library natively"""
    if vc.mode == "native":
        kind, val = (_o_encode if name in ("c31_eok", "c31_etxt", "c31_E") else _o_decode)(e, x)
        return {"c31_eok": kind == "ok", "c31_etxt": kind == "TypeError", "c31_E": val, "c31_Dok": kind == "ok", "c31_D": val}[name]
    t = _uf(name, ret)(lift(e).t, x.t)
    return SBool(t) if ret == "b" else SBytes(t)


def install_encoding_contracts(vc, log):
    """encoding.encode / decode replaced by their contracts (scenarios encode / decode): functions of (data, coding) for every
    cache state; encode's result decodes to its input; unknown codings raise ValueError (or TypeError for text codecs)"""

    def enc(v, value, e, errors="strict"):
        log.append(("encode", value, e))
        if v.mode == "native":
            return _real()[0](value, e, errors)
        e = v.lift(e)
        if e.concrete() is not None and e.concrete().lower() in ("identity", "none"):
            return value                               # encode contract, identity.returns_input
        if v.branch(_u(v, "c31_eok", "b", e, value)):
            from pyvc import lib
            r = _u(v, "c31_E", "s", e, value)
            v.assume(SBool(lib.bytes_range(r.t)))
            v.assume(And(_u(v, "c31_Dok", "b", e, r), _u(v, "c31_D", "s", e, r) == value))    # the result decodes to the input
            return r
        if v.branch(_u(v, "c31_etxt", "b", e, value)):
            log.append(("type_error",))
            v.raise_(TypeError, "argument must be str, not bytes")          # encode contract, unknown coding: TypeError is possible
        v.raise_(ValueError, "unknown content coding")

    def dec(v, raw, e, errors="strict"):
        log.append(("decode", raw, e))
        if v.mode == "native":
            return _real()[1](raw, e, errors)
        e = v.lift(e)
        if v.branch(_u(v, "c31_Dok", "b", e, raw)):
            return _u(v, "c31_D", "s", e, raw)
        v.raise_(ValueError, "invalid content coding or data")

    vc.summary(ENC + ":encode", enc)
    vc.summary(ENC + ":decode", dec)


def hfields(vc, msg):
    h = msg.data.headers
    if vc.mode == "sym":
        return [list(x.items) for x in h.fields["fields"].items]
    return [list(x) for x in h.fields]


def _conc(x):
    return x.concrete() if hasattr(x, "concrete") else x


def msg_candidates():
    out = []
    for ce in (b"gzip", b"deflate", b"br", b"zstd", b"identity", b"x-unknown", b"utf-8", b"GZip"):
        for value in (b"", b"a", b"hello hello hello"):
            out.append({"ce": ce, "value": value})
    return out


@scenario("message.set_content", functions=[MSG + ".set_content", MSG + ".get_content"], candidates=msg_candidates)
def s_set_content(vc):
    ce_kind = vc.case("content_encoding_header", ["token", "absent", "empty_value"])
    has_ce = ce_kind == "token"
    has_te = vc.case("transfer_encoding_header", [False, True])
    has_cl = vc.case("content_length_header", [False, True])
    ce = vc.sym_bytes("ce", maxlen=12)
    if vc.mode == "sym":
        import z3
        vc.assume(SBool(z3.InRe(ce.t, z3.Plus(z3.Range("!", "~")))))          # a non-empty visible-ASCII token
        ce_s = SStr(ce.t)
    else:
        vc.assume(len(ce) > 0 and all(33 <= c <= 126 for c in ce))
        ce_s = ce.decode("ascii")
    # an empty Content-Encoding value names no coding: same as no header for writing and for reading
    fields = ([(b"Content-Encoding", ce)] if has_ce else [(b"Content-Encoding", b"")] if ce_kind == "empty_value" else []) + ([(b"Transfer-Encoding", b"chunked")] if has_te else []) + ([(b"Content-Length", b"999")] if has_cl else [])
    fields = [(b"X-First", b"1")] + fields
    msg = mk_response(vc, headers=mk_headers(vc, fields), content=b"old")
    value = vc.sym_bytes("value")
    log = []
    install_encoding_contracts(vc, log)
    out = vc.call(MSG + ".set_content", msg, value)
    # a Content-Encoding header naming a Python text codec (utf-8, latin-1, ...) makes encode raise TypeError: handled like
    # an unknown coding (header removed, raw body = value)
    vc.ensure("no_exception", out.ok)
    if not out.ok:
        return
    raw = msg.data.content
    post = hfields(vc, msg)
    enc_calls = [c for c in log if c[0] == "encode"]
    vc.ensure("encoded_once_with_the_declared_coding_or_identity", And(len(enc_calls) == 1, vc.eq(enc_calls[0][1], value), vc.eq(enc_calls[0][2], ce_s if has_ce else "identity")) if enc_calls else False)
    names = [_conc(f[0]) for f in post]
    failed = has_ce and b"Content-Encoding" not in names
    if has_ce:
        # either the coding was usable (header kept, raw body decodes to value) or it was not (header removed, raw body = value)
        if failed:
            vc.ensure("invalid_coding.raw_is_value", vc.eq(raw, value))
        else:
            vc.ensure("valid_coding.raw_decodes_to_value", And(_u(vc, "c31_Dok", "b", ce_s, raw), _u(vc, "c31_D", "s", ce_s, raw) == value))
    else:
        vc.ensure("no_coding.raw_is_value", vc.eq(raw, value))
    others = [f for f in post if _conc(f[0]).lower() not in (b"content-length", b"content-encoding")]
    vc.ensure("other_headers_untouched", len(others) == 1 + (1 if has_te else 0) and _conc(others[0][0]) == b"X-First")
    cl = [f for f in post if _conc(f[0]).lower() == b"content-length"]
    if has_te:
        vc.ensure("transfer_encoding.content_length_not_touched", len(cl) == (1 if has_cl else 0) and all(_conc(f[1]) == b"999" for f in cl))
    else:
        if vc.mode == "sym":
            from pyvc import lib
            want = SBytes(lib.int_to_str(len_(raw).t))
        else:
            want = str(len(raw)).encode()
        vc.ensure("content_length.exactly_one_header", len(cl) == 1)
        if len(cl) == 1:
            vc.ensure("content_length.equals_raw_body_length", vc.eq(cl[0][1], want))
    # read back
    del log[:]
    out2 = vc.call(MSG + ".get_content", msg)
    if has_ce and not failed:
        dec_calls = [c for c in log if c[0] == "decode"]
        vc.ensure("read_back.decodes_raw_with_declared_coding", And(len(dec_calls) == 1, vc.eq(dec_calls[0][1], raw) if dec_calls else False, vc.eq(dec_calls[0][2], ce_s) if dec_calls else False))
        vc.ensure("read_back.same_bytes", And(out2.ok, vc.eq(out2.result, value) if out2.ok else False))
    else:
        vc.ensure("read_back.no_decoder_without_a_coding", not any(c[0] == "decode" for c in log))
        vc.ensure("read_back.same_bytes", And(out2.ok, vc.eq(out2.result, value) if out2.ok else False))


@scenario("message.set_content.none", functions=[MSG + ".set_content", MSG + ".get_content"])
def s_set_none(vc):
    msg = mk_response(vc, headers=mk_headers(vc, [(b"Content-Encoding", b"gzip"), (b"Content-Length", b"3")]), content=b"old")
    out = vc.call(MSG + ".set_content", msg, None)
    vc.ensure("none.raw_is_none", out.ok and isnone(msg.data.content))
    out2 = vc.call(MSG + ".get_content", msg)
    vc.ensure("none.reads_back_none", out2.ok and isnone(out2.result))
    bad = vc.call(MSG + ".set_content", msg, "text")
    vc.ensure("str.type_error", (not bad.ok) and issubclass(bad.raised_type(), TypeError))


# =============================================================================================
# T2 (bounded): the real codecs, every call history, fresh-cache comparison and independent decoders

def bounded(tier, seed):
    import gzip
    import itertools
    import random
    import zlib

    import brotli
    from backports import zstd

    import mitmproxy.net.encoding as E
    from mitmproxy import http
    from mitmproxy.test import tutils

    b = Bounded()
    rnd = random.Random(1234)
    bodies = [b"", b"a", (b"hello world, " * 90)[:1024], bytes(rnd.randrange(256) for _ in range(1024))]
    fams = ["gzip", "deflate", "br", "zstd"]
    ref = {f: _ref_decoder(f) for f in fams}
    foreign = {"gzip": lambda y: gzip.compress(y, 9, mtime=77), "deflate": lambda y: zlib.compress(y, 9), "br": lambda y: brotli.compress(y, quality=5), "zstd": lambda y: zstd.compress(y, level=9)}
    depth = 3 if tier == "quick" else 4
    pairs = [(0, 1), (1, 2), (2, 3), (0, 2)] if tier == "quick" else [(i, j) for i in range(4) for j in range(i, 4)]
    b.rule = ("call histories over {decode(stream of body_i in coding c), decode(foreign stream), decode(garbage, c), encode(body_i, c)} for two bodies out of "
              "{empty, 1 byte, 1 kB compressible, 1 kB random} x codings {gzip, deflate, br, zstd, mixed case} x errors {strict, replace}; every result compared with the "
              "result on a fresh cache, decode results with the body, encode results decoded by zlib/gzip/brotli/zstd directly; then Message set/get/decode/encode with "
              "Content-Length check after every history prefix; distinct = history; non-trivial = the last call hits the cache")
    b.bound = f"histories of length <= {depth} over 2 bodies"
    b.exhaustive = tier != "quick"

    def reset():
        E._cache = E.CachedDecode(None, None, None, None)

    def run_op(op, two):
        kind = op[0]
        try:
            if kind == "D":
                _, i, c, err = op
                return ("ok", E.decode(_own_encoder(c.lower())(two[i]), c, err))
            if kind == "F":
                _, i, c, err = op
                return ("ok", E.decode(foreign[c](two[i]), c, err))
            if kind == "X":
                _, c = op
                return ("ok", E.decode(b"\x00\x01garbage", c))
            if kind == "Z":   # empty input to the decoder
                _, c = op
                return ("ok", E.decode(b"", c))
            _, i, c, err = op
            return ("ok", E.encode(two[i], c, err))
        except ValueError:
            return ("ValueError", None)
        except Exception as e:
            return (type(e).__name__, None)

    ops = []
    for c in fams:
        for i in (0, 1):
            ops += [("D", i, c, "strict"), ("E", i, c, "strict"), ("F", i, c, "strict")]
        ops += [("X", c), ("Z", c)]
    ops += [("D", 0, "gzip", "replace"), ("E", 0, "gzip", "replace"), ("D", 1, "deflate", "replace")]
    if tier == "quick":
        # all histories of length <= 2, and length-3 histories whose last two calls are on the same coding
        hist = [h for n in (1, 2) for h in itertools.product(ops, repeat=n)]
        hist += [h for h in itertools.product(ops, repeat=3) if _coding(h[1]) == _coding(h[2]) and _coding(h[0]) in (_coding(h[2]), "gzip")]
    else:
        hist = [h for n in range(1, depth + 1) for h in itertools.product(ops, repeat=n) if n < 4 or len({_coding(o) for o in h}) <= 2]
    for pi, (i0, i1) in enumerate(pairs):
        two = (bodies[i0], bodies[i1])
        fresh = {}
        for op in ops:
            reset()
            fresh[op] = run_op(op, two)
        for h in hist:
            reset()
            res = None
            for op in h:
                before = E._cache
                res = run_op(op, two)
            op = h[-1]
            hit = E._cache is before and op[0] in "DEFZ" and res[0] == "ok"
            b.case((pi, h), nontrivial=hit)
            inp = {"bodies": [len(two[0]), len(two[1])], "history": [list(map(str, o)) for o in h]}
            kind = op[0]
            if kind in ("D", "F", "Z", "X"):
                if res != fresh[op]:
                    b.fail("encoding.decode.history_independent", inp, f"{_short(res)} vs fresh {_short(fresh[op])}")
                if kind in ("D", "F") and res != ("ok", two[op[1]]):
                    b.fail("encoding.decode.equals_body", inp, _short(res))
                if kind == "X" and res[0] != "ValueError":
                    b.fail("encoding.decode.invalid_data_value_error", inp, _short(res))
            else:
                _, i, c, err = op
                if res[0] != "ok":
                    b.fail("encoding.encode.total", inp, _short(res))
                    continue
                reset()
                own = run_op(("Zraw", res[1], c), two) if False else None
                try:
                    back = E.decode(res[1], c)
                except Exception as e:
                    back = repr(e)
                if back != two[i]:
                    b.fail("encoding.encode.decodes_to_input", inp, f"{_short(('ok', res[1]))} -> {back!r:.60}")
                try:
                    rb = ref[c](res[1])
                except Exception as e:
                    rb = repr(e)
                if rb != two[i]:
                    empty_hit = two[i] == b"" and res[1] == b""
                    b.fail("encoding.encode.empty_body_cache_hit" if empty_hit else "encoding.encode.independent_decoder", inp, f"{c}: {_short(('ok', res[1]))} -> {rb!r:.80}")
    # deflate / gzip bodies written by an independent encoder at every level and several window sizes (zlib format, raw deflate)
    for bi, body in enumerate(bodies):
        for level in range(0, 10):
            for wbits in (15, 14, 12, 9, -15, -12, 31, 25):
                co = zlib.compressobj(level, zlib.DEFLATED, wbits)
                stream = co.compress(body) + co.flush()
                codings = ("gzip",) if wbits > 15 else ("deflate", "deflateraw", "Deflate") + (("gzip",) if wbits > 0 else ())
                for c in codings:
                    reset()
                    b.case(("foreign", bi, level, wbits, c))
                    try:
                        got = E.decode(stream, c)
                    except Exception as e:
                        got = repr(e)
                    if got != body:
                        b.fail("encoding.decode.independent_encoder_stream", {"body": bi, "level": level, "wbits": wbits, "coding": c, "stream_head": stream[:4].hex()}, f"{got!r:.80}")
    # Message level, after each single-call prefix (incl. none)
    for prefix in [None] + ops:
        for c in ["gzip", "deflate", "br", "zstd", "identity", "GZip", "x-unknown", "utf-8", "", " ", "\t"]:
            for bi, body in enumerate(bodies):
                for te in (False, True):
                    reset()
                    if prefix is not None:
                        run_op(prefix, (bodies[0], bodies[1]))
                    m = tutils.tresp(content=b"")
                    m.headers = http.Headers([(b"content-encoding", c.encode())] + ([(b"transfer-encoding", b"chunked")] if te else []))
                    inp = {"prefix": None if prefix is None else list(map(str, prefix)), "coding": c, "body": bi, "transfer_encoding": te}
                    b.case(("msg", prefix, c, bi, te), nontrivial=prefix is not None)
                    m.raw_content = b""
                    try:
                        _ = m.content     # reading an empty raw body first (what a proxy does before an addon assigns)
                    except ValueError:
                        pass
                    try:
                        m.content = body
                    except TypeError as e:
                        b.fail("message.set_content.text_codec_name_type_error" if c.lower() == "utf-8" else "message.set_content.total", inp, repr(e))
                        continue
                    known = c.lower() in ("gzip", "deflate", "br", "zstd", "identity")
                    blank = c.strip() == ""       # an empty header value names no coding: the body is stored and read as it is
                    try:
                        back = m.content
                    except ValueError as e:
                        back = repr(e)
                    if back != body:
                        b.fail("message.content_round_trip", inp, f"{back!r:.80}")
                    if blank:
                        if m.raw_content != body:
                            b.fail("message.blank_coding_is_identity", inp, f"{m.raw_content!r:.60}")
                    elif known != ("content-encoding" in m.headers):
                        b.fail("message.invalid_coding_header_removed", inp, str(m.headers))
                    if te:
                        if "content-length" in m.headers:
                            b.fail("message.no_content_length_with_transfer_encoding", inp, str(m.headers))
                    elif m.headers.get("content-length") != str(len(m.raw_content)):
                        b.fail("message.content_length_is_raw_length", inp, f"{m.headers.get('content-length')} vs {len(m.raw_content)}")
                    fam = c.lower()
                    if fam in ref:
                        try:
                            rb = ref[fam](m.raw_content)
                        except Exception as e:
                            rb = repr(e)
                        if rb != body:
                            b.fail("message.raw_body_decodes_with_independent_decoder", inp, f"{m.raw_content!r:.40} -> {rb!r:.80}")
                    if known:
                        m.decode()
                        if m.content != body or (body and "content-encoding" in m.headers):
                            b.fail("message.decode_preserves_content", inp, f"{m.content!r:.40} {m.headers}")
                        m.encode(fam)
                        if m.content != body:
                            b.fail("message.reencode_preserves_content", inp, f"{m.content!r:.40}")
                        if fam in ref:
                            try:
                                rb = ref[fam](m.raw_content)
                            except Exception as e:
                                rb = repr(e)
                            if rb != body:
                                b.fail("message.reencoded_raw_body_decodes_with_independent_decoder", inp, f"{m.raw_content!r:.40} -> {rb!r:.80}")
                            if m.headers.get("content-length") != str(len(m.raw_content)) and not te:
                                b.fail("message.content_length_is_raw_length_after_reencode", inp, f"{m.headers.get('content-length')} vs {len(m.raw_content)}")
    return b


def _coding(op):
    return (op[2] if len(op) > 2 else op[1]).lower()


def _short(res):
    return (res[0], None if res[1] is None else (len(res[1]), bytes(res[1][:12])))
