"""C50 — content views always render safely; the DNS view re-encodes faithfully.

T1 (the wrapper, on the real source):
  contentviews.prettify_message   returns a result for every behaviour of the selected view — returning any text or raising
                                  any Exception — (auto: fall back to the raw view, explicit: show the error), and the text
                                  is Clean (no control character except \\t \\n \\r): the last statement escapes it;
  ContentviewRegistry.get_view    always yields a registered view: the named one, else the best non-failing render_priority;
  DNSContentview.prettify/reencode  cut / re-add the two-byte TCP length label exactly when the message came over TCP/HTTP.
T2 (bounded): every registered view (Python and Rust) x arbitrary and structured bodies: returns text, no raise, Clean; and
unpack(reencode(prettify(m))) == m for a pool of DNS messages.

The C1 reading of "control character" (U+0080..U+009F) is a separate obligation (`result.no_c1`), as in C49.
"""
from pyvc.api import *
from props.prelude import *
from props.C49 import clean, no_c1, within, BAD, C1

CLAIM = "other"
EXPLANATION = ("T1 proves the wrapper prettify_message (no exception escapes for any view behaviour, text escaped, fallback/ error display), the view selection "
               "and the DNS view's length-label handling; that each of the ~20 views (several in Rust) returns text for arbitrary bytes and that the YAML round trip of "
               "the DNS view preserves the message are library/third-party behaviour checked by bounded enumeration (T2).")
CV = "mitmproxy.contentviews:"
M = "props.C50:"
ASSUMPTIONS = [
    "get_data(message) and make_metadata(message, flow) do not raise and yield (bytes | None, description) / a Metadata object (summarised; T2 runs the real ones on real messages)",
    "the selected view is a model whose prettify returns an arbitrary string or raises one of ValueError / KeyError / RuntimeError / AssertionError / RecursionError / UnicodeDecodeError (any Exception subclass takes the same `except Exception` path); views raising BaseException subclasses (KeyboardInterrupt, SystemExit) are outside the statement",
    "the raw view (bytes.decode('utf-8', 'backslashreplace')) does not raise (exact library fact for the backslashreplace handler)",
    "sys.exc_info / addonmanager.cut_traceback / traceback.format_exception produce some list of strings (arbitrary text) in the explicit-view error path",
    "strutils.escape_control_characters is interpreted from its real source with the str.translate model of pyvc/libx_ui.py (see C49)",
    "DNSMessage.unpack / to_json / from_json / packed and yaml_dumps / yaml_loads are abstracted to ghost functions in the DNS-view scenarios (C25/C26 own the codec; ruamel.yaml is third-party); T2 runs the real round trip",
]


class ViewModel:
    """a content view: returns text or raises"""

    def prettify(self, data, metadata):
        if self.behaviour == "ValueError":
            raise ValueError(self.msg)
        if self.behaviour == "KeyError":
            raise KeyError(self.msg)
        if self.behaviour == "RuntimeError":
            raise RuntimeError(self.msg)
        if self.behaviour == "AssertionError":
            raise AssertionError(self.msg)
        if self.behaviour == "RecursionError":
            raise RecursionError(self.msg)
        if self.behaviour == "UnicodeDecodeError":
            raise UnicodeDecodeError("utf-8", b"", 0, 1, self.msg)
        return self.text

    def render_priority(self, data, metadata):
        if self.priority_fails:
            raise ValueError("priority")
        return self.priority


class RegistryModel:
    def get_view(self, data, metadata, view_name="auto"):
        self.asked.append(view_name)
        return self.view


class Bag:
    pass


BEHAVIOURS = ["text", "ValueError", "KeyError", "RuntimeError", "AssertionError", "RecursionError", "UnicodeDecodeError"]


@scenario("prettify_message", functions=[CV + "prettify_message", "mitmproxy.utils.strutils:escape_control_characters", "mitmproxy.contentviews._view_raw:RawContentview.prettify"])
def s_prettify(vc):
    behaviour = vc.case("view", BEHAVIOURS)
    view_name = vc.case("view_name", ["auto", "json"])
    has_data = vc.case("content", ["present", "missing"])
    data = vc.sym_bytes("data")
    enc = vc.sym_str("enc")
    text = vc.sym_str("view_text")
    msg = vc.sym_str("exception_text")
    tb_text = vc.sym_str("traceback_text")
    name = vc.sym_str("view_name_attr")
    view = vc.new(M + "ViewModel", behaviour=behaviour, text=text, msg=msg, name=name, syntax_highlight="yaml", priority=1, priority_fails=False)
    reg = vc.new(M + "RegistryModel", view=view, asked=vc.list([]))
    meta = vc.new(M + "Bag")
    vc.summary("mitmproxy.contentviews._utils:get_data", lambda v, m: v.lift((data if has_data == "present" else None, enc)))
    vc.summary("mitmproxy.contentviews._utils:make_metadata", lambda v, m, f: meta)
    vc.summary("sys:exc_info", lambda v: v.lift((None, None, None)))
    vc.summary("mitmproxy.addonmanager:cut_traceback", lambda v, tb, fn: tb)
    vc.summary("traceback:format_exception", lambda v, *a, **k: v.lift([tb_text]))
    out = vc.call(CV + "prettify_message", vc.new(M + "Bag"), vc.new(M + "Bag"), view_name, reg)
    vc.ensure("no_exception", out.ok)
    if not out.ok:
        return
    r = out.result
    vc.ensure("result.text_clean", clean(r.text))
    if has_data == "missing":
        vc.ensure("missing.text", And(r.text == "Content is missing.", vc.eq(r.syntax_highlight, "error"), isnone(r.view_name)))
        vc.ensure("missing.view_not_consulted", len(reg.asked.items if vc.mode == "sym" else reg.asked) == 0)
        return
    if behaviour == "text":
        shown, K = text, Not(no_c1(text))
        vc.ensure("ok.text_is_escaped_view_text", And(len_(r.text) == len_(text), Implies(And(clean(text), no_c1(text)), r.text == text)))
        vc.ensure("ok.attributes", And(r.view_name == name, vc.eq(r.syntax_highlight, "yaml"), r.description == enc))
    elif view_name == "auto":
        raw_text = _raw_text(vc, data)
        K = Not(no_c1(raw_text))
        vc.ensure("auto_fallback.raw_view", And(vc.eq(r.view_name, "Raw"), len_(r.text) == len_(raw_text), Implies(And(clean(raw_text), no_c1(raw_text)), r.text == raw_text)))
        vc.ensure("auto_fallback.description_says_so", startswith(r.description, enc + "[failed to parse as "))
    else:
        K = Not(And(no_c1(tb_text), no_c1(name)))
        vc.ensure("explicit_error.shown", And(vc.eq(r.syntax_highlight, "error"), r.view_name == name, r.description == enc))
        # the text is the escaped  "Couldn't parse as <name>:\n<traceback>"  (escaping keeps the length)
        vc.ensure("explicit_error.text_is_the_escaped_report", len_(r.text) == len("Couldn't parse as :\n") + len_(name) + len_(tb_text))
    # second reading of "control character": C1 controls survive escape_control_characters (same root cause as KF-C49-6)
    vc.ensure("result.no_c1", no_c1(r.text))   # was KF-C50-1, fixed in 01d24acb6


def _raw_text(vc, data):
    if vc.mode == "native":
        return data.decode("utf-8", "backslashreplace")
    from pyvc import lib
    import z3
    return SStr(lib.uf("decode_utf-8_backslashreplace", z3.StringSort(), z3.StringSort())(data.t))


# ---------------------------------------------------------------------------------------------------------------------
# metadata for the views: never raises, whatever the Content-Type header looks like

MM = "mitmproxy.contentviews._utils:make_metadata"


@scenario("make_metadata", functions=[MM])
def s_make_metadata(vc):
    import mitmproxy.ctx as mctx
    kind = vc.case("message", ["http, no content-type", "http, content-type", "tcp", "udp", "websocket"])
    parsable = vc.sym_bool("content_type_parsable")
    ctype = vc.sym_bytes("content_type")
    vc.assume(len_(ctype) > 0)
    vc.assume(_ascii_bytes(vc, ctype))
    t, st = vc.sym_str("type"), vc.sym_str("subtype")
    mctx.options = mk_options(vc, protobuf_definitions="")
    parsed = []

    def parse(v, c):
        # contract of net.http.headers.parse_content_type: (type, subtype, params) or None when the value is not type/subtype
        parsed.append(c)
        if v.mode == "native":
            return (t, st, {}) if parsable else None
        return If(parsable, v.lift((t, st, v.dict([]))), None)

    vc.summary("mitmproxy.net.http.headers:parse_content_type", parse)
    if kind.startswith("http"):
        fields = ((b"content-type", ctype),) if kind == "http, content-type" else ((b"x-other", b"1"),)
        data = vc.new("mitmproxy.http:ResponseData", http_version=b"HTTP/1.1", status_code=200, reason=b"OK", headers=vc.new("mitmproxy.http:Headers", fields=fields),
                      content=b"", trailers=None, timestamp_start=1.0, timestamp_end=None)
        message = vc.new("mitmproxy.http:Response", data=data)
    elif kind == "tcp":
        message = vc.new("mitmproxy.tcp:TCPMessage", from_client=True, content=b"x", timestamp=1.0)
    elif kind == "udp":
        message = vc.new("mitmproxy.udp:UDPMessage", from_client=True, content=b"x", timestamp=1.0)
    else:
        from wsproto.frame_protocol import Opcode
        message = vc.new("mitmproxy.websocket:WebSocketMessage", type=Opcode.TEXT, from_client=True, content=b"x", timestamp=1.0, dropped=False, injected=False)
    flow = vc.new(M + "Bag")
    out = vc.call(MM, message, flow)
    vc.ensure("no_exception", out.ok)
    if not out.ok:
        return
    m = out.result
    vc.ensure("flow_recorded", m.flow is flow)
    slot = {"tcp": "tcp_message", "udp": "udp_message", "websocket": "websocket_message"}.get(kind, "http_message")
    for name in ("http_message", "tcp_message", "udp_message", "websocket_message", "dns_message"):
        got = vc.getattr(m, name)
        vc.ensure(f"message_slot[{name}]", (got is message) if name == slot else isnone(got))
    if kind == "http, content-type":
        if vc.branch(parsable):
            vc.ensure("content_type.type_slash_subtype", m.content_type == t + "/" + st)
        else:
            vc.ensure("content_type.none_when_header_is_not_type_slash_subtype", isnone(m.content_type))
        vc.ensure("content_type.header_value_parsed_once", len(parsed) == 1)
    else:
        vc.ensure("content_type.none_without_header", isnone(m.content_type))


def _ascii_bytes(vc, b):
    if vc.mode == "native":
        return all(c < 128 for c in b)
    import z3
    return SBool(z3.InRe(b.t, z3.Star(z3.Range(chr(0), chr(127)))))


# ---------------------------------------------------------------------------------------------------------------------
# view selection

REG = "mitmproxy.contentviews._registry:ContentviewRegistry"


@scenario("get_view", functions=[REG + ".get_view", REG + ".__getitem__"])
def s_get_view(vc):
    asked = vc.case("view_name", ["auto", "A", "b", "unknown"])
    pa, pb = vc.sym_int("prio_a", lo=0, hi=10), vc.sym_int("prio_b", lo=0, hi=10)
    fa, fb = vc.sym_bool("a_fails"), vc.sym_bool("b_fails")
    vc.assume(Not(And(fa, fb)))      # the code asserts that at least one view has a working render_priority
    a = vc.new(M + "ViewModel", name="A", priority=pa, priority_fails=fa, behaviour="text", text="", msg="")
    b = vc.new(M + "ViewModel", name="B", priority=pb, priority_fails=fb, behaviour="text", text="", msg="")
    reg = vc.new(REG, _by_name=vc.dict([("a", a), ("b", b)]), on_change=None)
    out = vc.call(REG + ".get_view", reg, b"data", vc.new(M + "Bag"), asked)
    vc.ensure("no_exception", out.ok)
    if not out.ok:
        return
    r = out.result
    vc.ensure("returns_a_registered_view", r is a or r is b)
    if asked in ("A", "b"):
        vc.ensure("named_view_selected_case_insensitively", r is (a if asked == "A" else b))
        return
    if vc.branch(fa):
        vc.ensure("best_match.skips_failing_view", r is b)
    elif vc.branch(fb):
        vc.ensure("best_match.skips_failing_view", r is a)
    elif vc.branch(pa >= pb):
        vc.ensure("best_match.highest_priority_first_registered_wins_ties", r is a)
    else:
        vc.ensure("best_match.highest_priority_first_registered_wins_ties", r is b)


# ---------------------------------------------------------------------------------------------------------------------
# DNS view: length label

DV = "mitmproxy.contentviews._view_dns:DNSContentview"


class MsgModel:
    def to_json(self):
        return {"id": self.id, "status_code": 0, "timestamp": 1.0, "questions": self.questions}


def _meta(vc, kind):
    m = vc.new("mitmproxy.contentviews._api:Metadata", flow=None, content_type=None, http_message=None, tcp_message=None, udp_message=None,
               websocket_message=None, dns_message=None, protobuf_definitions=None, original_data=None)
    if kind == "tcp":
        m.tcp_message = vc.new(M + "Bag")
    elif kind == "http":
        m.http_message = vc.new(M + "Bag")
    elif kind == "udp":
        m.udp_message = vc.new(M + "Bag")
    elif kind == "dns":
        m.dns_message = vc.new(M + "Bag")
    return m


@scenario("dns.prettify", functions=[DV + ".prettify", "mitmproxy.contentviews._view_dns:_is_dns_tcp"])
def s_dns_prettify(vc):
    kind = vc.case("transport", ["udp", "dns", "tcp", "http", "none"])
    data = vc.sym_bytes("data")
    unpacked, dumped = [], []
    qs = vc.sym_str("questions")
    mid = vc.sym_int("id", lo=0, hi=65535)

    def unpack(v, *a):
        unpacked.append([x for x in a if isinstance(x, (SBytes, bytes))][0])
        return v.new(M + "MsgModel", id=mid, questions=qs)

    def dumps(v, d):
        dumped.append(d)
        return vc.sym_str("yaml") if False else ytext

    ytext = vc.sym_str("yaml_text")
    vc.summary("mitmproxy.dns:DNSMessage.unpack", unpack)
    vc.summary("mitmproxy.contentviews._utils:yaml_dumps", dumps)
    out = vc.call(DV + ".prettify", vc.new(DV), data, _meta(vc, kind))
    vc.ensure("no_exception", out.ok)
    if not out.ok:
        return
    vc.ensure("unpacks_once", len(unpacked) == 1)
    if len(unpacked) != 1:
        return
    stream = kind in ("tcp", "http")
    vc.ensure("length_label_cut_iff_stream_transport", unpacked[0] == (data[2:] if stream else data))
    vc.ensure("result_is_the_yaml_dump", And(out.result == ytext, len(dumped) == 1))
    if len(dumped) == 1:
        d = dumped[0]
        keys = [k.concrete() for k, _ in d.items] if vc.mode == "sym" else list(d.keys())
        vc.ensure("volatile_fields_removed_everything_else_kept", sorted(keys) == ["id", "questions"])


@scenario("dns.reencode", functions=[DV + ".reencode", "mitmproxy.contentviews._view_dns:_is_dns_tcp", "mitmproxy.proxy.layers.dns:pack_message"])
def s_dns_reencode(vc):
    kind = vc.case("transport", ["udp", "dns", "tcp", "http", "none"])
    text = vc.sym_str("prettified")
    packed = vc.sym_bytes("packed")
    vc.assume(len_(packed) <= 65535)
    loaded = vc.new(M + "Bag")
    seen = []

    def loads(v, t):
        seen.append(("loads", t))
        return loaded

    def from_json(v, *a):
        seen.append(("from_json", a[-1]))
        return v.new(M + "Bag", packed=packed)

    vc.summary("mitmproxy.contentviews._utils:yaml_loads", loads)
    vc.summary("mitmproxy.dns:DNSMessage.from_json", from_json)
    out = vc.call(DV + ".reencode", vc.new(DV), text, _meta(vc, kind))
    vc.ensure("no_exception", out.ok)
    if not out.ok:
        return
    vc.ensure("parses_the_given_text_once", len(seen) == 2 and seen[0][0] == "loads" and seen[0][1] is text or (len(seen) == 2 and vc.mode == "native" and seen[0][1] == text))
    vc.ensure("builds_message_from_parsed_document", len(seen) == 2 and seen[1][1] is loaded)
    r = out.result
    if kind in ("tcp", "http"):
        if vc.mode == "native" and len(r) < 2:
            vc.ensure("stream.length_label_prepended", False)
        else:
            vc.ensure("stream.length_label_prepended", And(len_(r) == len_(packed) + 2, r[2:] == packed, be16(r, 0) == len_(packed)))
    else:
        vc.ensure("datagram.packed_message_as_is", r == packed)


# =====================================================================================================================
# T2 (bounded): every registered view on arbitrary and structured bodies; DNS round trip

SAMPLES = {
    "application/json": [b'{"a": [1, 2, {"b": null}], "c": "x\\u001b"}', b'[1, 2', b'{"a": "\x1b[2J"}', b'"\\ud800"', b"123", b'{"a":1}\n{"b":2}'],
    "text/html": [b"<html><body><p>hi<br>there</p></body></html>", b"<a href='x'>\x1b[2J</a>", b"<!DOCTYPE html><x", b"<?xml version='1.0'?><a><b/></a>"],
    "text/xml": [b"<?xml version='1.0' encoding='utf-8'?><r><a x='1'>t</a><!-- c --></r>", b"<r>&amp;&#27;</r>", b"<r><![CDATA[\x07]]></r>"],
    "text/css": [b"body { color: red; } /* c */ a:hover{ x: y }", b"@media x { a { b: c } }", b"a{b:'\x1b'}"],
    "application/javascript": [b"function f(a){return a+1;} // c\nvar s='\\x1b';", b"var a = {b: [1,2,3]};", b"/* \x9b */ x=1"],
    "application/graphql": [b'{"query": "query Q { a { b } }", "variables": {}}', b'[{"query": "{ a }"}]', b'{"query": 5}'],
    "application/x-protobuf": [b"\x08\x96\x01", b"\x0a\x03abc\x10\x01", b"\x0a\x02\x1b[", b"\xff\xff\xff", b"\x12\x07\x0a\x05hello"],
    "application/grpc": [b"\x00\x00\x00\x00\x03\x08\x96\x01", b"\x01\x00\x00\x00\x01x", b"\x00\x00\x00\x00\xff"],
    "application/mqtt": [b"\x10\x10\x00\x04MQTT\x04\x02\x00\x3c\x00\x04test", b"\x30\x0a\x00\x03a/b\x1b[2Jx", b"\xe0\x00", b"\x10\xff"],
    "multipart/form-data; boundary=XX": [b'--XX\r\nContent-Disposition: form-data; name="a"\r\n\r\nv\x1b\r\n--XX--\r\n', b"--XX\r\n\r\n--XX--", b"--XX"],
    "application/x-www-form-urlencoded": [b"a=1&b=%1b%5b2J&c", b"%zz=%", b"a=\x1b"],
    "image/png": [b"\x89PNG\r\n\x1a\n" + b"\x00" * 20, b"\x89PNG\r\n\x1a\n\x00\x00\x00\rIHDR\x00\x00\x00\x01\x00\x00\x00\x01\x08\x02\x00\x00\x00", b"GIF89a\x01\x00\x01\x00\x00\x00\x00;", b"\xff\xd8\xff\xe0"],
    "application/zip": [b"PK\x05\x06" + b"\x00" * 18, b"PK\x03\x04\x1b", b"PK"],
    "application/dns-message": [b"\x00\x01\x01\x00\x00\x01\x00\x00\x00\x00\x00\x00\x03www\x07example\x03com\x00\x00\x01\x00\x01", b"\x00\x01", b"\x00\x01\x01\x00\x00\x01\x00\x00\x00\x00\x00\x00\x04\x1b[2J\x00\x00\x10\x00\x01"],
    "application/vnd.wap.wbxml": [b"\x03\x01\x6a\x00\x45\x03a\x1b\x00\x01", b"\x03", b"\x03\x01\x6a\x00\x45\x03a"],
    "application/msgpack": [b"\x82\xa1a\x01\xa1b\xa2\x1b[", b"\xc1", b"\x93\x01\x02"],
    "application/socket.io": [b'42["event",{"a":"\x1b"}]', b"3", b"40"],
    "text/plain": [b"hello\x1b[2J\x07\x00\x7f", b"\xc2\x9b2J", "héllo ✓\u0085".encode(), b"\xff\xfe"],
    "": [b"", b"\x00", b"\x1b", b"\x9b"],
    # Content-Type headers that are present but not type/subtype
    "json": [b'{"a": 1}'], "text": [b"plain"], "*": [b"x"], "unknown; charset=utf-8": [b"x\x1b"], " ": [b"x"], ";": [b"x"], "/": [b"x"], "a/b/c; q": [b"x"],
}


def _mutate(rnd, s):
    s = bytearray(s)
    for _ in range(rnd.randint(1, 3)):
        op = rnd.randint(0, 3)
        pos = rnd.randint(0, len(s)) if s else 0
        if op == 0 and s:
            s[min(pos, len(s) - 1)] = rnd.choice([0, 0x1B, 0x7F, 0x9B, 0xFF, 0x22, 0x3C, 0x7B, rnd.randrange(256)])
        elif op == 1:
            s[pos:pos] = bytes([rnd.choice([0x1B, 0x07, 0x00, 0xC2, 0x9B, 0x5C, 0x26, rnd.randrange(256)])])
        elif op == 2 and s:
            del s[min(pos, len(s) - 1)]
        else:
            s = s[:pos]
    return bytes(s)


class _Hang(BaseException):
    pass


def _with_timeout(fn, seconds):
    """('ok', result) | ('raised', exception) | ('timeout', None).  A view that never returns (blocking queue read, endless
    loop) is interrupted by an interval timer (SIGALRM; lock waits are interruptible) and reported instead of hanging the check.
    Outside the main thread a daemon thread is used instead."""
    import signal
    import threading
    if threading.current_thread() is threading.main_thread():
        def on_alarm(signum, frame):
            raise _Hang()
        old = signal.signal(signal.SIGALRM, on_alarm)
        signal.setitimer(signal.ITIMER_REAL, seconds)
        try:
            return ("ok", fn())
        except _Hang:
            return ("timeout", None)
        except Exception as e:
            return ("raised", e)
        finally:
            signal.setitimer(signal.ITIMER_REAL, 0)
            signal.signal(signal.SIGALRM, old)
    box = []

    def run():
        try:
            box.append(("ok", fn()))
        except Exception as e:
            box.append(("raised", e))

    t = threading.Thread(target=run, daemon=True)
    t.start()
    t.join(seconds)
    return box[0] if box else ("timeout", None)


def _dns_pool():
    from ipaddress import IPv4Address, IPv6Address
    from mitmproxy import dns
    RR, Q = dns.ResourceRecord, dns.Question

    def msg(**kw):
        d = dict(timestamp=1.0, id=4660, query=False, op_code=0, authoritative_answer=False, truncation=False, recursion_desired=True, recursion_available=True,
                 reserved=0, response_code=0, questions=[Q("example.com", dns.types.A, dns.classes.IN)], answers=[], authorities=[], additionals=[])
        d.update(kw)
        return dns.DNSMessage(**d)

    pool = [
        msg(query=True, recursion_available=False),
        msg(answers=[RR.A("example.com", IPv4Address("93.184.216.34"), ttl=300), RR.A("example.com", IPv4Address("10.0.0.1"))]),
        msg(questions=[Q("example.com", dns.types.AAAA, dns.classes.IN)], answers=[RR.AAAA("example.com", IPv6Address("2001:db8::1"))]),
        msg(answers=[RR.CNAME("www.example.com", "example.com"), RR.TXT("example.com", "v=spf1 -all"), RR.PTR("1.0.0.10.in-addr.arpa", "host.example")]),
        msg(id=0, response_code=3, authoritative_answer=True, truncation=True, reserved=0, op_code=2, questions=[Q("nx.example", dns.types.TXT, dns.classes.IN)]),
        msg(id=65535, questions=[Q("a.example", dns.types.A, dns.classes.IN), Q("b.example", dns.types.MX, 3)]),
        msg(answers=[RR("example.com", dns.types.MX, dns.classes.IN, 60, b"\x00\x0a\x04mail\x07example\x03com\x00"), RR("example.com", 65280, dns.classes.IN, 1, b"\x00\x01\xfe\xff")],
            authorities=[RR("example.com", dns.types.NS, dns.classes.IN, 3600, b"\x02ns\x07example\x03com\x00")],
            additionals=[RR.A("ns.example.com", IPv4Address("192.0.2.1"))]),
        msg(answers=[RR.TXT("t.example", "quote ' \" colon: # hash\ttab"), RR.TXT("t.example", "")]),
        msg(questions=[Q("xn--mnchen-3ya.de", dns.types.A, dns.classes.IN)], answers=[RR.CNAME("xn--mnchen-3ya.de", "example.com")]),
        msg(questions=[], answers=[]),
        msg(reserved=7, response_code=15, op_code=15),
    ]
    try:
        from mitmproxy.net.dns import https_records
        pool.append(msg(questions=[Q("svc.example", dns.types.HTTPS, dns.classes.IN)],
                        answers=[RR.HTTPS("svc.example", https_records.HTTPSRecord(1, "svc.example", {https_records.SVCParamKeys.ALPN.value: b"\x02h2", https_records.SVCParamKeys.PORT.value: b"\x01\xbb"}))]))
        # SvcPriority is an unsigned 16-bit field (RFC 9460 section 2.2): values >= 32768 must survive the round trip too
        base = https_records.pack(https_records.HTTPSRecord(1, "svc.example", {https_records.SVCParamKeys.ALPN.value: b"\x02h3"}))
        for prio in (32768, 40000, 65535):
            pool.append(msg(questions=[Q("svc.example", dns.types.HTTPS, dns.classes.IN)],
                            answers=[RR("svc.example", dns.types.HTTPS, dns.classes.IN, 60, prio.to_bytes(2, "big") + base[2:])]))
    except Exception:
        pass
    return pool


def bounded(tier, seed):
    import itertools
    import random
    from mitmproxy import contentviews, dns, http, tcp, udp
    from mitmproxy.contentviews import Metadata
    from mitmproxy.test import taddons, tflow
    from mitmproxy.websocket import WebSocketMessage
    from wsproto.frame_protocol import Opcode
    from mitmproxy.addons import dumper

    b = Bounded()
    views = contentviews.registry.available_views()   # "auto" + every registered view
    b.rule = (f"contentviews.prettify_message on real messages for every registered view ({len(views) - 1} views + auto): all byte strings <= 1, strings <= 3 over a 10-byte class "
              "alphabet, structured samples of every format named in the statement and seeded mutations of them, each as HTTP response body with the matching content type, "
              "and as TCP / UDP / WebSocket message; checked: the call returns (1.5 s watchdog), no exception, text is str, no C0/DEL control character except \\t\\n\\r, (separately) no C1 control character; "
              "DNS: unpack(reencode(prettify(m))) == m on header fields, questions and all record sections for a message pool over UDP and TCP framing; distinct = (view, kind, content type, body)")
    n_mut = 6 if tier == "quick" else 30
    b.bound = f"{n_mut} mutations per sample; {len(_dns_pool())} DNS messages x 2 framings"
    b.exhaustive = False
    rnd = random.Random(seed)
    bodies = []   # (content type, body)
    for ct, samples in SAMPLES.items():
        for s in samples:
            bodies.append((ct, s))
            for _ in range(n_mut):
                bodies.append((ct, _mutate(rnd, s)))
    alpha = [0x00, 0x1B, 0x7B, 0x3C, 0x22, 0x0A, 0x61, 0x9B, 0xC2, 0xFF]
    small = [bytes([c]) for c in range(256)] + [bytes(t) for n in (2, 3) for t in itertools.product(alpha, repeat=n)]
    small = small[::6] if tier == "quick" else small[::2]
    for s in small:
        bodies.append(("", s))
    hangs = {}
    d = dumper.Dumper()    # registers the options make_metadata / prettify read through ctx.options
    with taddons.context(d) as tctx:
        for view in views:
            for ct, body in bodies:
                kinds = ("http",) if ct else ("http", "tcp", "udp", "ws-text", "ws-bin")
                for kind in kinds:
                    f = tflow.tflow(resp=True)
                    if kind == "http":
                        f.response.headers = http.Headers([(b"content-type", ct.encode())] if ct else [])
                        f.response.raw_content = body
                        message, flow = f.response, f
                    elif kind == "tcp":
                        flow = tflow.ttcpflow()
                        message = tcp.TCPMessage(True, body)
                    elif kind == "udp":
                        flow = tflow.tudpflow()
                        message = udp.UDPMessage(True, body)
                    else:
                        flow = tflow.twebsocketflow()
                        message = WebSocketMessage(Opcode.TEXT if kind == "ws-text" else Opcode.BINARY, True, body)
                    inp = {"view": view, "kind": kind, "content_type": ct, "body": body.hex()}
                    b.case((view, kind, ct, body), nontrivial=bool(body))
                    wb = view == "wbxml" or (view == "auto" and "wbxml" in ct)
                    if wb and hangs.get("wbxml", 0) >= 4 and body[:1] == b"\x03":
                        continue   # the recorded hang (KF-C50-3) has been shown 4 times; do not spend a timeout on every variant
                    status, r = _with_timeout(lambda: contentviews.prettify_message(message, flow, view), 1.5)
                    if status == "timeout":
                        hangs["wbxml" if wb else view] = hangs.get("wbxml" if wb else view, 0) + 1
                        b.fail("views.terminates/wbxml" if wb else "views.terminates", inp, "no result after 1.5 s (the call never returns)")
                        continue
                    if status == "raised":
                        b.fail("views.no_raise", inp, f"{type(r).__name__}: {r}")
                        continue
                    if not isinstance(r.text, str):
                        b.fail("views.returns_text", inp, repr(type(r.text)))
                        continue
                    if not clean(r.text):
                        b.fail("views.clean", inp, repr(r.text[:200]))
                    if not no_c1(r.text):
                        b.fail("views.no_c1", inp, repr(r.text[:200]))
        # ---- DNS view round trip
        dv = contentviews.registry["dns"]
        for m in _dns_pool():
            for framing in ("udp", "tcp"):
                packed = m.packed
                m = dns.DNSMessage.unpack(packed)    # reference = the message as the codec reads it from the wire (names in U-label form)
                wire = (len(packed).to_bytes(2, "big") + packed) if framing == "tcp" else packed
                meta = Metadata(tcp_message=tcp.TCPMessage(True, wire)) if framing == "tcp" else Metadata(udp_message=udp.UDPMessage(True, wire))
                inp = {"message": packed.hex(), "framing": framing}
                b.case(("dns", packed, framing))
                try:
                    text = dv.prettify(wire, meta)
                    back_wire = dv.reencode(text, meta)
                    if framing == "tcp":
                        if int.from_bytes(back_wire[:2], "big") != len(back_wire) - 2:
                            b.fail("dns.tcp_length_label", inp, back_wire.hex())
                        back_wire = back_wire[2:]
                    back = dns.DNSMessage.unpack(back_wire)
                except Exception as e:
                    b.fail("dns.roundtrip.total", inp, f"{type(e).__name__}: {e}")
                    continue
                fields = ["id", "query", "op_code", "authoritative_answer", "truncation", "recursion_desired", "recursion_available", "reserved", "response_code",
                          "questions", "answers", "authorities", "additionals"]
                diff = [k for k in fields if getattr(back, k) != getattr(m, k)]
                if diff:
                    b.fail("dns.roundtrip.reserved_bits" if diff == ["reserved"] else "dns.roundtrip.same_message", inp, f"differs in {diff}: {[(getattr(m, k), getattr(back, k)) for k in diff][:2]!r}")
    return b
