"""C38 helper: the committed table of *inverse shape edits*.

`BACK[v]` rewrites a flow state of format version succ(v) into the state shape that mitmproxy wrote at format version v.
The edits are written from the history of the flow format (what each format bump added / renamed / removed), and were
cross-checked against the shipped historical dumps (0.11, 0.18, 7, 10, 11, 18, 20).  `expected_after(state, v)` describes,
on a *current* state, what cannot be represented at version v (the value a faithful migration has to produce instead).

States are plain dict/list/bytes/str/int/float/None trees; every function works in place on a deep copy made by the caller.
"""
from __future__ import annotations

import copy

ORDER = [(0, 11), (0, 12), (0, 13), (0, 14), (0, 15), (0, 16), (0, 17), (0, 18), (0, 19), (1, 0), (2, 0), (3, 0)] + list(range(4, 22))
CURRENT = ORDER[-1]


def rank(v):
    return ORDER.index(v)


def succ(v):
    return ORDER[rank(v) + 1]


def version_value(v):
    """what the `version` entry looked like in a file of format version v"""
    return [v[0], v[1], 0] if isinstance(v, tuple) else v


ANY_ID = "<any fresh id>"


def _conns(s):
    return [s["client_conn"], s["server_conn"]]


# ---- inverse edits: BACK[v](state in shape succ(v)) -> shape v -----------------------------------------------------

def back_20(s):  # 21 -> 20: "QUIC" was renamed to "QUICv1"
    for c in _conns(s):
        if c["tls_version"] == "QUICv1":
            c["tls_version"] = "QUIC"


def back_19(s):  # 20 -> 19: connection state was serialised
    for c in _conns(s):
        c["state"] = 0


def back_18(s, with_transport_protocol=False):  # 19 -> 18: old connection attribute names
    c, sv = s["client_conn"], s["server_conn"]
    c["address"] = c.pop("peername")
    c["tls_extensions"] = None
    sv["ip_address"] = sv.pop("peername")
    sv["source_address"] = sv.pop("sockname")
    sv["via2"] = sv.pop("via")
    sv["via"] = None
    for x in (c, sv):
        x["tls_established"] = x["tls"]
        x["cipher_name"] = x.pop("cipher")
        if x["transport_protocol"] == "tcp" and not with_transport_protocol:
            del x["transport_protocol"]


def back_17(s):  # 18 -> 17: no proxy_mode
    del s["client_conn"]["proxy_mode"]


def back_16(s):  # 17 -> 16: flows carried the (string) mode
    s["mode"] = "regular"


def back_15(s):  # 16 -> 15: no timestamp_created
    del s["timestamp_created"]


def back_14(s):  # 15 -> 14: websocket messages had no `injected`
    if s.get("websocket"):
        s["websocket"]["messages"] = [list(m[:-1]) for m in s["websocket"]["messages"]]


def back_13(s):  # 14 -> 13: no comment
    del s["comment"]


def back_12(s):  # 13 -> 12: marked was a bool
    s["marked"] = bool(s["marked"])


def back_11(s):  # 12 -> 11 (flows without websocket data; websocket flows: see split_websocket)
    s.pop("websocket", None)


def back_10(s):  # 11 -> 10
    for c in _conns(s):
        c["alpn_proto_negotiated"] = c.pop("alpn")


def back_9(s):  # 10 -> 9: old connection objects
    c, sv = s["client_conn"], s["server_conn"]
    cl = c.pop("certificate_list")
    c["clientcert"] = cl[0] if cl else None
    cl = sv.pop("certificate_list")
    sv["cert"] = cl[0] if cl else None
    del c["sockname"]
    del sv["via2"]
    del sv["cipher_name"]
    for x in (c, sv):
        for k in ("state", "error", "tls", "alpn_offers", "cipher_list"):
            del x[k]


def back_8(s):  # 9 -> 8
    rep = s.pop("is_replay")
    if "request" in s:
        s["request"]["first_line_format"] = "relative"
        del s["request"]["authority"]
        s["request"]["is_replay"] = rep == "request"
    if s.get("response") is not None:
        s["response"]["is_replay"] = rep == "response"


def back_7(s):  # 8 -> 7: no trailers
    if "request" in s:
        del s["request"]["trailers"]
    if s.get("response") is not None:
        del s["response"]["trailers"]


def back_6(s):  # 7 -> 6
    del s["client_conn"]["tls_extensions"]


def back_5(s):  # 6 -> 5: ssl_* names
    for c in _conns(s):
        c["ssl_established"] = c.pop("tls_established")
        c["timestamp_ssl_setup"] = c.pop("timestamp_tls_setup")


def back_4(s):  # 5 -> 4: connections had no id
    for c in _conns(s):
        del c["id"]


def back_300(s):  # 4 -> 3.0: only the version numbering changed
    pass


def back_200(s):  # 3.0 -> 2.0
    del s["client_conn"]["mitmcert"]
    del s["server_conn"]["tls_version"]


def _wrap(a):
    return {"address": a, "use_ipv6": False}


def back_100(s):  # 2.0 -> 1.0: addresses were objects
    c, sv = s["client_conn"], s["server_conn"]
    c["address"] = _wrap(c["address"])
    sv["address"] = _wrap(sv["address"])
    sv["source_address"] = _wrap(sv["source_address"])
    if sv["ip_address"]:
        sv["ip_address"] = _wrap(sv["ip_address"])


def back_019(s):  # 1.0 -> 0.19
    pass


def back_018(s):  # 0.19 -> 0.18
    s["request"]["stickyauth"] = False
    s["request"]["stickycookie"] = False
    c, sv = s["client_conn"], s["server_conn"]
    for k in ("sni", "alpn_proto_negotiated", "cipher_name", "tls_version"):
        del c[k]
    del sv["alpn_proto_negotiated"]
    del s["mode"]
    del s["metadata"]


def _bkeys(o):
    if isinstance(o, dict):
        return {(k.encode() if isinstance(k, str) else k): _bkeys(v) for k, v in o.items()}
    return o


def _b(x):
    return x.encode() if isinstance(x, str) else x


def py2_values(s):
    """(0.18 shape) host names, addresses and SNI were byte strings in files written under Python 2 (<= 0.17); the
    migration converts them later in the chain (sni: 10 -> 11, addresses: 18 -> 19, request.host: Request())"""
    sv = s["server_conn"]
    s["request"]["host"] = _b(s["request"]["host"])
    sv["sni"] = _b(sv["sni"])
    for a in (s["client_conn"]["address"], sv["address"], sv["source_address"], sv["ip_address"]):
        if a:
            a["address"] = [_b(a["address"][0])] + list(a["address"][1:])


def back_017(s):  # 0.18 -> 0.17: written by Python 2 (byte-string keys; type, id, first_line_format, error message as bytes)
    sv = s["server_conn"]
    sv["peer_address"] = sv.pop("ip_address")
    del s["marked"]
    s["type"] = _b(s["type"])
    s["id"] = _b(s["id"])
    s["request"]["first_line_format"] = _b(s["request"]["first_line_format"])
    if s["error"]:
        s["error"]["msg"] = _b(s["error"]["msg"])
    new = _bkeys(s)
    s.clear()
    s.update(new)


def back_016(s):  # 0.17 -> 0.16
    del s[b"server_conn"][b"peer_address"]


def back_015(s, request_body=False):  # 0.16 -> 0.15: response content was called body (request: `content` in the shipped 0.11 dump)
    for m in (b"request", b"response") if request_body else (b"response",):
        if s.get(m) is not None:
            s[m][b"body"] = s[m].pop(b"content")
    if s.get(b"response") is not None:
        s[b"response"][b"msg"] = s[b"response"].pop(b"reason")
    s[b"request"][b"form_out"] = b"relative"


def back_014(s):  # 0.15 -> 0.14
    pass


def _hv(b):
    return [int(x) for x in b.split(b"/")[1].split(b".")]


def back_013(s):  # 0.14 -> 0.13
    rq, rs = s[b"request"], s[b"response"]
    rq[b"form_in"] = rq.pop(b"first_line_format")
    rq[b"httpversion"] = _hv(rq.pop(b"http_version"))
    if rs is not None:
        rs[b"httpversion"] = _hv(rs.pop(b"http_version"))
        rs[b"code"] = rs.pop(b"status_code")
        rs[b"content"] = rs.pop(b"body")
    s[b"server_conn"][b"state"] = []
    del s[b"server_conn"][b"via"]


def back_012(s):
    pass


def back_011(s):
    pass


BACK = {
    20: back_20, 19: back_19, 18: back_18, 17: back_17, 16: back_16, 15: back_15, 14: back_14, 13: back_13, 12: back_12,
    11: back_11, 10: back_10, 9: back_9, 8: back_8, 7: back_7, 6: back_6, 5: back_5, 4: back_4, (3, 0): back_300,
    (2, 0): back_200, (1, 0): back_100, (0, 19): back_019, (0, 18): back_018, (0, 17): back_017, (0, 16): back_016,
    (0, 15): back_015, (0, 14): back_014, (0, 13): back_013, (0, 12): back_012, (0, 11): back_011,
}
assert sorted(BACK, key=repr) == sorted(ORDER[:-1], key=repr)


def to_version(state, v, **opts):
    """deep copy of the current-format `state` rewritten into the shape of format version v"""
    s = copy.deepcopy(state)
    for w in reversed(ORDER[rank(v):-1]):
        if w == (0, 17):
            py2_values(s)
        if w == 18 and opts.get("with_transport_protocol"):
            back_18(s, True)
        elif w == (0, 15) and opts.get("request_body"):
            back_015(s, True)
        else:
            BACK[w](s)
        vk = b"version" if (isinstance(w, tuple) and w <= (0, 17)) else "version"
        s[vk] = version_value(w)
    return s


def split_websocket(state, v, text_as_str=True):
    """An HTTP flow with WebSocket data, as written by format versions <= 11: the handshake HTTP flow followed by a
    separate flow of type "websocket" that refers to it.  TEXT messages (opcode 1) carried their payload as `str` in those
    files (see the shipped dumpfile-7-websocket.mitm), BINARY messages as bytes."""
    assert rank(v) <= rank(11) and state["websocket"] is not None
    hs = copy.deepcopy(state)
    ws = hs["websocket"]
    hs["websocket"] = None
    hs["metadata"] = dict(hs["metadata"], websocket=True)
    handshake = to_version(hs, v)
    wsflow = {
        "type": "websocket", "id": "ws-" + state["id"], "version": version_value(v), "error": None, "intercepted": False, "marked": False,
        "client_conn": copy.deepcopy(handshake["client_conn"]), "server_conn": copy.deepcopy(handshake["server_conn"]),
        "metadata": {"websocket_handshake": state["id"]},
        "messages": [[m[0], m[1], (m[2].decode() if (m[0] == 1 and text_as_str) else m[2]), m[3], m[4]] for m in ws["messages"]],
        "close_sender": "client" if ws["closed_by_client"] else "server", "close_code": ws["close_code"],
        "close_message": "(message missing)", "close_reason": ws["close_reason"],
        "client_key": "", "client_protocol": None, "client_extensions": None, "server_accept": "", "server_protocol": None, "server_extensions": None,
    }
    return handshake, wsflow


# ---- what a faithful migration from version v must produce for a current state --------------------------------------

def expected_after(state, v, **opts):
    """the current-format state a faithful migration of to_version(state, v) produces: `state` with every item that
    format version v could not represent replaced by the value the format history prescribes."""
    e = copy.deepcopy(state)
    r = rank(v)
    c, sv = e["client_conn"], e["server_conn"]

    def before(w):
        return r < rank(w)

    if before(5):
        c["id"] = sv["id"] = ANY_ID
    if before(10):
        for x in (c, sv):
            x["error"] = None
            x["certificate_list"] = list(x["certificate_list"][:1])
        c["sockname"] = ["", 0]
        c["alpn_offers"] = [c["alpn"]] if c["alpn"] else []
        sv["alpn_offers"] = [sv["alpn"]] if sv["alpn"] else []
        c["cipher_list"] = [c["cipher"]] if c["cipher"] else []
        sv["cipher"] = None
        sv["cipher_list"] = []
    if before(9) and "request" in e:
        e["request"]["authority"] = b""
    if before(8):
        for m in ("request", "response"):
            if e.get(m):
                e[m]["trailers"] = None
    if before(14):
        e["comment"] = ""
    if before(16):
        e["timestamp_created"] = e["request"]["timestamp_start"] if "request" in e else c["timestamp_start"]
    if before(18):
        c["proxy_mode"] = "regular"
    if before(19):
        # (connections without a transport_protocol entry are TCP: back_18 only drops the entry when it says "tcp")
        if c["timestamp_start"] is None:
            c["timestamp_start"] = 0.0
    if before((3, 0)):
        c["mitmcert"] = None
        sv["tls_version"] = None
    if before((0, 19)):
        c["sni"] = c["alpn"] = c["cipher"] = c["tls_version"] = None
        c["alpn_offers"] = []
        c["cipher_list"] = []
        sv["alpn"] = None
        sv["alpn_offers"] = []
        e["metadata"] = {}
    if before((0, 18)):
        e["marked"] = ""
    if before((0, 17)):
        sv["peername"] = None
    if before((0, 14)):
        sv["via"] = None
    return e
