"""C22 — client connections from blocked address classes are refused.

Spec (from the statement; RFC 4007 §11 for the `<address>%<zone>` notation, RFC 4291 §2.5.5.2 for IPv4-mapped IPv6):

    norm(peer)  = unmap_v4(parse(strip_zone(peer)))
    refused     = not loopback(norm) and mode is not local-redirect and
                  ((block_private and private(norm)) or (block_global and global(norm)))
    post        : client.error is set (truthy)  <=>  refused ;  not refused => client.error is unchanged

`parse`, `loopback`, `private`, `global` are the ipaddress library's (uninterpreted in T1, real in native replay/T2).
"""
from pyvc.api import *
from props.prelude import *

CLAIM = "proof"
B = "mitmproxy.addons.block:Block"
MS = "mitmproxy.proxy.mode_specs:"
MODES = ["RegularMode", "LocalMode", "TransparentMode", "UpstreamMode", "ReverseMode", "Socks5Mode", "DnsMode", "WireGuardMode", "TunMode"]
MODE_SPECS = {"RegularMode": "regular", "LocalMode": "local", "TransparentMode": "transparent", "UpstreamMode": "upstream:http://up:3128",
              "ReverseMode": "reverse:http://target:80", "Socks5Mode": "socks5", "DnsMode": "dns", "WireGuardMode": "wireguard", "TunMode": "tun"}
TWO32 = 2 ** 32
ASSUMPTIONS = [
    "ipaddress.ip_address(text) is an uninterpreted parser (version, numeric value) of the text, and is_loopback/is_private/is_global are uninterpreted predicates of (version, value): the T1 result is relative to the ipaddress library; T2 compares against the IANA special-purpose registries",
    "the peer name handed to the hook is `<address>[%<zone>]` where <address> parses as an IP address and neither part contains '%' (it comes from getpeername())",
    "ConnectionHandler.handle_client (T1): the addon hook is a suspension point whose effect is `client.error := any value`; asyncio task creation/wait, the watchdog, logging, server_event and handle_connection are summaries (ghost records); T2 runs the real coroutine on a real event loop with the real Block addon",
    "mitmproxy.ctx.options is the options object built by the scenario (the addon reads the global ctx)",
]


def set_ctx_options(vc, opts):
    """The addons read the global `mitmproxy.ctx.options`; point it at the scenario's options object (both modes)."""
    import mitmproxy.ctx as mctx
    mctx.options = opts


def mk_mode(vc, name, full_spec=None, data=None):
    """a proxy-mode object of the given class (fields of the frozen dataclass only); the spec text and the mode data may be
    any strings: what a mode *is* is its class (ProxyMode.parse accepts e.g. `local`, `Local`, `local:curl`, `local:!curl,wget`, `local@8081`)"""
    return vc.new(MS + name, full_spec=MODE_SPECS[name] if full_spec is None else full_spec, data=MODE_SPECS[name].partition(":")[2] if data is None else data,
                  custom_listen_host=None, custom_listen_port=None)


# ---- the ipaddress library, symbolic (uninterpreted) or native ---------------------------------------------------

def ip_parse(vc, s):
    """(version, value) of the text s; version 0 = not an address"""
    if vc.mode == "native":
        import ipaddress
        try:
            a = ipaddress.ip_address(s)
        except ValueError:
            return 0, 0
        return a.version, int(a)
    from pyvc import libx_addons as X
    return SInt(X.ip_version_t(s.t)), SInt(X.ip_value_t(s.t))


def ip_pred(vc, name, version, value):
    """classification predicate of the library on an address of known version (4 or 6)"""
    if vc.mode == "native":
        import ipaddress
        a = ipaddress.IPv4Address(value) if version == 4 else ipaddress.IPv6Address(value)
        return getattr(a, name)
    from pyvc import libx_addons as X
    return SBool(X.ip_pred_t(name, version, value.t))


def unchanged(vc, post, pre):
    if vc.mode == "sym":
        return post is pre
    return post is pre or post == pre


# concrete addresses of every class (loopback / private / global / neither; plain, IPv6, IPv4-mapped): used only to obtain
# counter-models and CPython conformance samples that agree with the real ipaddress library
CANDS = [{"addr": a} for a in ("127.0.0.1", "10.0.0.1", "8.8.8.8", "100.64.0.1", "::1", "fe80::1", "2606:4700:4700::1111",
                                "::ffff:127.0.0.1", "::ffff:10.0.0.1", "::ffff:8.8.8.8", "::ffff:100.64.0.1")]


@scenario("block.client_connected", functions=[B + ".client_connected"], candidates=CANDS)
def s_block(vc):
    if vc.mode == "native":
        import logging
        logging.disable(logging.CRITICAL)      # the addon logs a warning per refused connection (native replays)
    addr = vc.sym_str("addr")
    zone = vc.sym_str("zone")
    has_zone = vc.case("has_zone", [False, True])
    vc.assume(Not(contains(addr, "%")))
    vc.assume(Not(contains(zone, "%")))
    peer = addr + "%" + zone if has_zone else addr
    port = vc.sym_int("port", lo=0, hi=65535)
    mode = vc.case("mode", MODES)
    bp, bg = vc.sym_bool("block_private"), vc.sym_bool("block_global")
    pre_error = vc.opt("pre_error", vc.sym_str("pre_error_v"))
    # the mode object: its class is `mode`; its spec text and data are arbitrary (the local-redirect exemption is about the
    # mode being a LocalMode, whatever its spec text — and a non-local mode is not exempt whatever its text says)
    mode_obj = mk_mode(vc, mode, full_spec=vc.sym_str("mode_full_spec"), data=vc.sym_str("mode_data"))
    client = mk_client(vc, peername=(peer, port), proxy_mode=mode_obj, error=pre_error)
    set_ctx_options(vc, mk_options(vc, block_private=bp, block_global=bg))
    ver, val = ip_parse(vc, addr)
    vc.assume(Or(ver == 4, ver == 6))                     # requires: <address> is an IP literal
    if vc.mode == "sym":
        vc.assume(And(val >= 0, If(ver == 4, val < TWO32, val < 2 ** 128)))
    self_ = vc.new(B)
    out = vc.call(B + ".client_connected", self_, client)
    vc.ensure("no_exception", out.ok)
    if not out.ok:
        return
    # normalisation: an IPv4-mapped IPv6 address is classified as its IPv4 address
    is6 = vc.branch(ver == 6)
    mapped = is6 and vc.branch(val // TWO32 == 0xFFFF)
    nver, nval = (4, val % TWO32) if mapped else ((6, val) if is6 else (4, val))
    loop = ip_pred(vc, "is_loopback", nver, nval)
    priv = ip_pred(vc, "is_private", nver, nval)
    glob = ip_pred(vc, "is_global", nver, nval)
    refused = And(Not(loop), mode != "LocalMode", Or(And(bp, priv), And(bg, glob)))
    post = client.error
    if vc.branch(refused):
        vc.ensure("refused.error_set", _truthy_str(vc, post))
    else:
        vc.ensure("allowed.error_unchanged", unchanged(vc, post, pre_error))
    # frame: nothing else on the client is touched
    vc.ensure("frame.peername", vc.eq(client.peername, (peer, port)))
    vc.ensure("frame.proxy_mode", client.proxy_mode is mode_obj)
    vc.ensure("frame.state", vc.eq(client.state, _open()))


def _open():
    from mitmproxy.connection import ConnectionState
    return ConnectionState.OPEN


def _truthy_str(vc, v):
    if vc.mode == "native":
        return isinstance(v, str) and len(v) > 0
    v = vc.resolve(v)
    return isinstance(v, SStr) and len_(v) > 0


# ---------------------------------------------------------------------------------------------
# ConnectionHandler.handle_client: a client.error left by the client_connected hook refuses the connection before any
# protocol processing (no Start event reaches the layer, no connection handler task), the socket is closed and
# client_disconnected still fires.

CH = "mitmproxy.proxy.server:ConnectionHandler"


from mitmproxy.proxy import server as _server  # noqa: E402


class Handler22(_server.ConnectionHandler):
    """Concrete ConnectionHandler: handle_hook is abstract in the class under contract."""

    async def handle_hook(self, hook):
        return await hook_point(self, hook)


def hook_point(handler, hook):  # summarised: suspension point at which the addons run
    raise NotImplementedError


class TaskStub22:
    """asyncio.Task stand-in"""

    def cancel(self, msg=None):
        self.cancels = self.cancels + 1
        return True

    def cancelled(self):
        return False

    def exception(self):
        return None


class WriterStub22:
    def close(self):
        self.closed = self.closed + 1


@scenario("handle_client.refused_before_protocol_processing", functions=[CH + ".handle_client"])
def s_handle_client(vc):
    hook_error = vc.opt("hook_error", vc.sym_str("hook_error_v"))   # what the client_connected hook (Block) leaves in client.error
    client = mk_client(vc, error=None)
    writer = vc.new("props.C22:WriterStub22", closed=0)
    io = vc.new("mitmproxy.proxy.server:ConnectionIO", handler=None, reader=None, writer=writer)
    h = vc.new("props.C22:Handler22", client=client, transports=vc.dict([(client, io)]), wakeup_timer=vc.lift(set()),
               timeout_watchdog=vc.new("mitmproxy.proxy.server:TimeoutWatchdog"))
    tasks = []

    def mk_task(v, coro, **kw):
        t = v.new("props.C22:TaskStub22", cancels=0, what=kw.get("name"))
        tasks.append(t)
        return t

    vc.summary(CH + ".log", lambda v, self_, *a, **k: v.lift(None))
    vc.summary("mitmproxy.utils.asyncio_utils:set_current_task_debug_info", lambda v, **k: v.lift(None))
    vc.summary("mitmproxy.utils.asyncio_utils:create_task", mk_task)
    vc.summary("mitmproxy.proxy.server:TimeoutWatchdog.watch", lambda v, self_: v.lift(None))
    vc.summary(CH + ".handle_connection", lambda v, self_, conn: v.lift(None))
    vc.summary(CH + ".server_event", lambda v, self_, ev: v.awaitable("server_event", ev))
    vc.summary("props.C22:hook_point", lambda v, h_, hook: v.awaitable("hook", hook))
    vc.summary("asyncio.tasks:wait", lambda v, ts, **k: v.awaitable("wait"))
    log = []

    def on_yield(item):
        kind = item[1]
        if kind in ("hook", "server_event"):
            name = item[2].cls.__name__ if isinstance(item[2], SObj) else type(item[2]).__name__
            log.append(kind + ":" + name)
            if name == "ClientConnectedHook":
                vc.ensure("connected_hook.about_this_client", item[2].client is client)
                client.error = hook_error          # the addon's effect
        else:
            log.append(kind)
        return None

    out = vc.call(CH + ".handle_client", h, on_yield=on_yield)
    vc.ensure("no_exception", out.ok)
    if not out.ok:
        return
    hooks = [x for x in log if x.startswith("hook:")]
    vc.ensure("hooks.connected_then_disconnected", hooks == ["hook:ClientConnectedHook", "hook:ClientDisconnectedHook"])
    vc.ensure("hooks.connected_first", log[:1] == ["hook:ClientConnectedHook"])
    refused = vc.branch(And(Not(isnone(hook_error)), len_(_val_of(vc, hook_error)) > 0))
    task_names = [_name_of(vc, t.what) for t in tasks]
    if refused:
        vc.ensure("refused.no_event_reaches_the_layer", not any(x.startswith("server_event:") for x in log))
        vc.ensure("refused.no_connection_handler_task", task_names == ["timeout watchdog"])
        vc.ensure("refused.socket_closed", writer.closed == 1)
        vc.ensure("refused.transport_removed", len_(h.transports) == 0)
    else:
        vc.ensure("allowed.start_is_first_event", [x for x in log if x.startswith("server_event:")][:1] == ["server_event:Start"])
        vc.ensure("allowed.connection_handler_started", task_names == ["timeout watchdog", "client connection handler"])
        vc.ensure("allowed.socket_not_closed_here", writer.closed == 0)
    vc.ensure("watchdog_cancelled", tasks[0].cancels == 1)


def _val_of(vc, u):
    """string alternative of an optional value ('' for None)"""
    if vc.mode == "native":
        return u or ""
    if isinstance(u, SUnion):
        return [v for c, v in u.alts if isinstance(v, SStr)][0]
    return u if isinstance(u, SStr) else SStr("")


def _name_of(vc, v):
    if vc.mode == "native":
        return v
    return v.concrete() if hasattr(v, "concrete") else None


# =============================================================================================
# T2 (bounded): IANA special-purpose registries (snapshot below), boundary addresses of every block, in plain,
# IPv4-mapped and zone-scoped notation x both options x every mode class; plus the real ConnectionHandler.handle_client.

# (prefix, globally reachable; None = "N/A" in the registry: not compared)  — IANA IPv4 Special-Purpose Address Registry (snapshot 2024-06)
IANA_V4 = [
    ("0.0.0.0/8", False), ("0.0.0.0/32", False), ("10.0.0.0/8", False), ("100.64.0.0/10", False), ("127.0.0.0/8", False),
    ("169.254.0.0/16", False), ("172.16.0.0/12", False), ("192.0.0.0/24", False), ("192.0.0.0/29", False), ("192.0.0.8/32", False),
    ("192.0.0.9/32", True), ("192.0.0.10/32", True), ("192.0.0.170/32", False), ("192.0.0.171/32", False), ("192.0.2.0/24", False),
    ("192.31.196.0/24", True), ("192.52.193.0/24", True), ("192.88.99.0/24", None), ("192.168.0.0/16", False), ("192.175.48.0/24", True),
    ("198.18.0.0/15", False), ("198.51.100.0/24", False), ("203.0.113.0/24", False), ("240.0.0.0/4", False), ("255.255.255.255/32", False),
]
# IANA IPv6 Special-Purpose Address Registry (snapshot 2024-06)
IANA_V6 = [
    ("::1/128", False), ("::/128", False), ("::ffff:0:0/96", False), ("64:ff9b::/96", True), ("64:ff9b:1::/48", False), ("100::/64", False),
    ("2001::/23", False), ("2001::/32", False), ("2001:1::1/128", True), ("2001:1::2/128", True), ("2001:2::/48", False), ("2001:3::/32", True),
    ("2001:4:112::/48", True), ("2001:10::/28", False), ("2001:20::/28", True), ("2001:30::/28", True), ("2001:db8::/32", False), ("2002::/16", None),
    ("2620:4f:8000::/48", True), ("fc00::/7", False), ("fe80::/10", False),
]


def iana_global(a):
    """Globally reachable according to the registry: the most specific registry block containing `a` decides; an
    address in no block is ordinary unicast (global) unless it is multicast (not a unicast source)."""
    import ipaddress
    table = IANA_V4 if a.version == 4 else IANA_V6
    best = None
    for pfx, g in table:
        n = ipaddress.ip_network(pfx)
        if a in n and (best is None or n.prefixlen > best[0].prefixlen):
            best = (n, g)
    if best is not None:
        return best[1], True
    return True, False


# Registry blocks that CPython's ipaddress tables did not know before 3.12.4 / 3.13 (cpython gh-113171): on older interpreters
# is_private/is_global disagree with the registry there.  Failures inside these blocks are reported under a separate check name
# (recorded finding KF-C22-1, an interpreter defect the addon inherits); anywhere else a disagreement is a fresh violation.
CPYTHON_GH113171 = ["192.0.0.0/24", "64:ff9b:1::/48", "2001:1::1/128", "2001:1::2/128", "2001:3::/32", "2001:4:112::/48", "2001:20::/28", "2001:30::/28"]


def _in_lagging_block(a):
    import ipaddress
    if a.version == 6 and (int(a) >> 32) == 0xFFFF:
        a = ipaddress.IPv4Address(int(a) & 0xFFFFFFFF)
    return any(a.version == ipaddress.ip_network(n).version and a in ipaddress.ip_network(n) for n in CPYTHON_GH113171)


def _boundary_addresses():
    import ipaddress
    out = []
    for table in (IANA_V4, IANA_V6):
        for pfx, _ in table:
            n = ipaddress.ip_network(pfx)
            lo, hi = int(n.network_address), int(n.broadcast_address)
            cls = ipaddress.IPv4Address if n.version == 4 else ipaddress.IPv6Address
            for v in (lo - 1, lo, lo + 1, hi - 1, hi, hi + 1):
                if 0 <= v < 2 ** n.max_prefixlen:
                    out.append(cls(v))
    extra = ["8.8.8.8", "1.1.1.1", "216.58.207.174", "2a00:1450:4001:81a::200e", "2606:4700:4700::1111", "::ffff:8.8.8.8", "::ffff:10.0.0.1", "::ffff:127.0.0.1"]
    out += [ipaddress.ip_address(x) for x in extra]
    seen, res = set(), []
    for a in out:
        if a not in seen:
            seen.add(a)
            res.append(a)
    return res


def _spec_refused(a, mode, bp, bg, use_iana):
    """the statement, on a parsed address"""
    import ipaddress
    if a.version == 6 and (int(a) >> 32) == 0xFFFF:
        a = ipaddress.IPv4Address(int(a) & 0xFFFFFFFF)
    if a.is_loopback if not use_iana else (a in ipaddress.ip_network("127.0.0.0/8" if a.version == 4 else "::1/128")):
        return False
    if mode == "LocalMode":
        return False
    if use_iana:
        g, listed = iana_global(a)
        if g is None or a.is_multicast:
            return None            # registry says N/A (6to4), or not a possible unicast source: not compared
        is_global = g
        # "private" = registered as not globally reachable, except the RFC 6598 shared address space (100.64.0.0/10), which
        # is neither private nor global (the "other addresses" of the statement; also the documented ipaddress meaning)
        is_private = listed and not g and not (a.version == 4 and a in ipaddress.ip_network("100.64.0.0/10"))
    else:
        is_global, is_private = a.is_global, a.is_private
    return bool((bp and is_private) or (bg and is_global))


MODE_SPEC_TEXTS = ["local", "Local", "LOCAL", "local:curl", "local:!curl", "local:curl,wget", "local:!curl,!wget", "LOCAL:curl", "local@8081", "local:curl@8081",
                   "regular", "Regular", "regular@8081", "transparent", "socks5", "socks5@1080", "upstream:http://local:3128", "upstream:https://local",
                   "reverse:http://local", "reverse:https://local:8443", "reverse:tcp://local:25", "reverse:dns://local", "dns", "dns@5353", "wireguard", "tun", "tun:local"]


def _run_block(peer, mode, bp, bg, mode_obj=None):
    from mitmproxy.addons import block
    from mitmproxy.proxy import mode_specs
    from mitmproxy import options
    import mitmproxy.ctx as mctx
    from props import sansio
    o = options.Options()
    blk = block.Block()

    class L:
        def add_option(self, name, typespec, default, help, choices=None):
            o.add_option(name, typespec, default, help, choices)
    blk.load(L())
    o.update(block_private=bp, block_global=bg)
    mctx.options = o
    c = sansio.make_client(peername=(peer, 40000))
    c.proxy_mode = mode_obj if mode_obj is not None else (mode_specs.ProxyMode.parse(MODE_SPECS[mode]) if mode not in ("TunMode",) else _tun())
    blk.client_connected(c)
    return c.error


def _tun():
    from mitmproxy.proxy import mode_specs
    m = object.__new__(mode_specs.TunMode)
    for k, v in dict(full_spec="tun", data="", custom_listen_host=None, custom_listen_port=None).items():
        object.__setattr__(m, k, v)
    return m


def _handle_client_run(peer, bp, bg):
    """Real ConnectionHandler.handle_client with the real Block addon as the client_connected hook."""
    import asyncio
    from mitmproxy.proxy import server, server_hooks, events, mode_specs
    from mitmproxy.addons import block
    from props import sansio
    import mitmproxy.ctx as mctx
    opts = sansio.make_options()
    if "block_global" not in opts:
        blk0 = block.Block()

        class L:
            def add_option(self, name, typespec, default, help, choices=None):
                opts.add_option(name, typespec, default, help, choices)
        blk0.load(L())
    opts.update(block_private=bp, block_global=bg)
    mctx.options = opts
    blk = block.Block()
    seen = dict(hooks=[], events=[], closed=0)

    class W:
        def close(self):
            seen["closed"] += 1

        def is_closing(self):
            return seen["closed"] > 0

        async def wait_closed(self):
            pass

        def get_extra_info(self, *a, **k):
            return None

    class R:
        async def read(self, n):
            return b""

    class H(server.ConnectionHandler):
        async def handle_hook(self, hook):
            seen["hooks"].append(hook.name)
            if isinstance(hook, server_hooks.ClientConnectedHook):
                blk.client_connected(hook.client)

        async def server_event(self, event):
            seen["events"].append(type(event).__name__)
            await super().server_event(event)

    async def main():
        from mitmproxy.proxy import context
        client = sansio.make_client(peername=(peer, 40000))
        client.proxy_mode = mode_specs.ProxyMode.parse("regular")
        ctx = context.Context(client, opts)
        h = H(ctx)
        h.transports[client] = server.ConnectionIO(handler=None, reader=R(), writer=W())
        await asyncio.wait_for(h.handle_client(), 5)
        return client

    client = asyncio.run(main())
    return client.error, seen


def bounded(tier, seed):
    import logging
    logging.disable(logging.CRITICAL)          # the addon logs one warning per refused connection
    try:
        return _bounded(tier, seed)
    finally:
        logging.disable(logging.NOTSET)


def _bounded(tier, seed):
    import itertools
    import ipaddress
    b = Bounded()
    b.rule = ("boundary addresses (first-1, first, first+1, last-1, last, last+1) of every block of the IANA IPv4/IPv6 special-purpose registries "
              "+ ordinary unicast/multicast samples, each in plain, ::ffff:-mapped (IPv4) and %zone notation x block_private x block_global x mode class; "
              "distinct = (address text, options, mode); non-trivial = at least one option enabled")
    b.bound = "registry snapshot embedded in props/C22.py (25 IPv4 + 21 IPv6 blocks); 9 mode classes (quick: 3)"
    b.exhaustive = False
    addrs = _boundary_addresses()
    modes = MODES if tier == "thorough" else ["RegularMode", "LocalMode", "TransparentMode"]
    texts = []
    for a in addrs:
        texts.append((str(a), a))
        texts.append((str(a) + "%eth0", a))
        if a.version == 4:
            texts.append(("::ffff:" + str(a), a))
            texts.append(("::ffff:" + str(a) + "%3", a))
            texts.append((a.__class__.__name__ and _hexmapped(a), a))
    for (txt, a), mode, bp, bg in itertools.product(texts, modes, [False, True], [False, True]):
        b.case((txt, mode, bp, bg), nontrivial=bp or bg)
        inp = {"peer": txt, "mode": mode, "block_private": bp, "block_global": bg}
        try:
            err = _run_block(txt, mode, bp, bg)
        except Exception as e:
            b.fail("block.total", inp, f"raised {type(e).__name__}: {e}")
            continue
        exp_lib = _spec_refused(a, mode, bp, bg, use_iana=False)
        if bool(err) != exp_lib:
            b.fail("block.matches_spec_with_ipaddress_classification", inp, f"expected refused={exp_lib}, client.error={err!r}")
        exp_iana = _spec_refused(a, mode, bp, bg, use_iana=True)
        if exp_iana is not None and bool(err) != exp_iana:
            lag = "[cpython-gh-113171]" if _in_lagging_block(a) else ""
            b.fail("block.matches_iana_registry" + lag, inp, f"expected refused={exp_iana} by the registry, client.error={err!r}")
    # real ProxyMode objects from spec texts of every mode class: the exemption follows the class, not the spec text
    from mitmproxy.proxy import mode_specs
    for spec in MODE_SPEC_TEXTS:
        try:
            m = mode_specs.ProxyMode.parse(spec)
        except Exception:
            continue            # not available on this platform / invalid here: nothing to check
        cls_name = type(m).__name__
        for peer in ("8.8.8.8", "10.0.0.1", "127.0.0.1", "::ffff:8.8.8.8", "2606:4700:4700::1111", "fe80::1%eth0", "100.64.0.1"):
            for bp, bg in itertools.product([False, True], repeat=2):
                b.case(("mode-spec", spec, peer, bp, bg), nontrivial=bp or bg)
                inp = {"mode_spec": spec, "mode_class": cls_name, "peer": peer, "block_private": bp, "block_global": bg}
                try:
                    err = _run_block(peer, None, bp, bg, mode_obj=m)
                except Exception as e:
                    b.fail("block.total", inp, f"raised {type(e).__name__}: {e}")
                    continue
                if cls_name == "LocalMode" and err:
                    b.fail("block.local_redirect_mode_is_never_refused", inp, f"client.error={err!r}")
                exp = _spec_refused(ipaddress.ip_address(peer.split("%")[0]), cls_name, bp, bg, use_iana=False)
                if bool(err) != exp:
                    b.fail("block.matches_spec_with_ipaddress_classification", inp, f"expected refused={exp}, client.error={err!r}")
    # refused before any protocol processing: the real handle_client
    sample = ["8.8.8.8", "10.0.0.1", "127.0.0.1", "::1", "::ffff:8.8.8.8", "fe80::1%eth0", "2a00:1450:4001:81a::200e", "::ffff:127.0.0.1", "192.168.1.1%x"]
    import ipaddress
    for peer in sample:
        for bp, bg in itertools.product([False, True], repeat=2):
            b.case(("handle_client", peer, bp, bg), nontrivial=True)
            inp = {"handle_client": peer, "block_private": bp, "block_global": bg}
            try:
                err, seen = _handle_client_run(peer, bp, bg)
            except Exception as e:
                b.fail("handle_client.total", inp, f"raised {type(e).__name__}: {e}")
                continue
            exp = _spec_refused(ipaddress.ip_address(peer.split("%")[0]), "RegularMode", bp, bg, use_iana=False)
            if bool(err) != exp:
                b.fail("handle_client.refusal_matches_spec", inp, f"expected {exp}, error={err!r}")
            if exp:
                if "Start" in seen["events"]:
                    b.fail("handle_client.refused_before_protocol_processing", inp, f"events {seen['events']}")
                if seen["closed"] < 1:
                    b.fail("handle_client.refused_closes_writer", inp, str(seen))
            else:
                if seen["events"][:1] != ["Start"]:
                    b.fail("handle_client.allowed_is_started", inp, f"events {seen['events']}")
            if seen["hooks"][:1] != ["client_connected"] or seen["hooks"][-1:] != ["client_disconnected"]:
                b.fail("handle_client.hooks_pair_up", inp, str(seen["hooks"]))
    return b


def _hexmapped(a):
    """::ffff:hhhh:hhhh spelling of an IPv4-mapped address"""
    v = int(a)
    return f"::ffff:{v >> 16:x}:{v & 0xFFFF:x}"
