"""C54 — sticky cookies are only sent to hosts and paths they belong to.

Specification written from RFC 6265:
  §5.2.3  cookie-domain = Domain attribute value without ONE leading ".", lower-cased
  §5.1.3  string s domain-matches domain d  <=>  s == d  or  (s ends with "." ++ d  and  s is a host name, not an IP address)
  §5.1.4  request-path r path-matches cookie-path c  <=>  r == c  or  (c is a prefix of r  and  (c ends with "/"  or  r[len(c)] == "/"))
"""
from pyvc.api import *
from props.prelude import *

CLAIM = "proof"
M = "mitmproxy.addons.stickycookie"
HTTP_ROOT = ["/root/.pyenv/versions/3.12.1/lib/python3.12/http"]


# ---------------------------------------------------------------------------------------------
# regular languages used by the specification, usable in both modes: (python regex, z3 regex builder)

def _z3():
    import z3
    return z3


def rx(vc, s, name):
    """s in LANG[name]"""
    pat, build = LANG[name]
    if vc.mode == "native" or not is_sym(s):
        import re
        return re.fullmatch(pat, s, re.S) is not None
    z3 = _z3()
    return SBool(z3.InRe(s.t, build(z3)))


def _d(z3):
    return z3.Range("0", "9")


def _lit(z3, c):
    return z3.Re(z3.StringVal(c))


def _ip4(z3):
    return z3.Concat(z3.Plus(_d(z3)), _lit(z3, "."), z3.Plus(_d(z3)), _lit(z3, "."), z3.Plus(_d(z3)), _lit(z3, "."), z3.Plus(_d(z3)))


def _ip6(z3):
    h = z3.Union(_d(z3), z3.Range("a", "f"), _lit(z3, ":"))
    return z3.Concat(z3.Star(h), _lit(z3, ":"), z3.Star(h), z3.Option(_ip4(z3)))


def _ldh(z3):
    return z3.Union(_d(z3), z3.Range("a", "z"), _lit(z3, "-"))


def _hostname(z3):
    # letters/digits/hyphens/dots, not starting with a dot, ending in a letter (the top-level label is not a number)
    body = z3.Union(_ldh(z3), _lit(z3, "."))
    return z3.Concat(z3.Option(z3.Concat(_ldh(z3), z3.Star(body))), z3.Range("a", "z"))


def _canon(z3):
    return z3.Star(z3.Union(z3.Range(chr(0), "@"), z3.Range("[", chr(127))))


LANG = {
    # canonical host / domain text: ASCII without upper-case letters (lower() is the identity)
    "canonical": (r"[\x00-@\[-\x7f]*", _canon),
    # textual IPv4 address (over-approximation: any four dot-separated digit groups)
    "ip4": (r"\d+\.\d+\.\d+\.\d+", _ip4),
    # textual IPv6 address (over-approximation: hex digits and colons with at least one colon, optional dotted-quad tail)
    "ip6": (r"[0-9a-f:]*:[0-9a-f:]*(\d+\.\d+\.\d+\.\d+)?", _ip6),
    "hostname": (r"([0-9a-z-][0-9a-z.-]*)?[a-z]", _hostname),
}
# re.ASCII for \d in the python patterns
LANG = {k: (p.replace(r"\d", "[0-9]"), b) for k, (p, b) in LANG.items()}


def lower_(vc, s):
    """str.lower(): in proof mode the uninterpreted function the engine uses for it"""
    if vc.mode == "native" or not is_sym(s):
        return s.lower()
    from pyvc import lib
    z3 = _z3()
    return SStr(lib.uf("lower", z3.StringSort(), z3.StringSort())(s.t))


def cookie_domain(b):
    """RFC 6265 §5.2.3: drop one leading dot"""
    return If(startswith(b, "."), b[1:], b)


def is_ip(vc, a):
    return Or(rx(vc, a, "ip4"), rx(vc, a, "ip6"))


def spec_domain_match(vc, a, d):
    """RFC 6265 §5.1.3 on canonicalised (lower-case) strings: host string a, cookie-domain d"""
    return Or(a == d, And(endswith(a, "." + d), Not(is_ip(vc, a))))


DM_OPTS = dict(extra_inline_roots=HTTP_ROOT, exact_search=True, strip_facts=True, rfind_uf=True, lower_identity=True)
CJ = "http.cookiejar:domain_match"
from http import cookiejar as _cookiejar
_REAL = [_cookiejar.domain_match]     # kept in a list: vc.summary patches every module-level alias of the function


def K_inner(a, d):
    """KF-C54-1: the cookie domain occurs inside the host name but not at its end (rfind instead of a suffix test)"""
    return And(contains(a, "." + d), Not(endswith(a, "." + d)), a != d)


def ends_with_dot_digits(vc, a):
    """the text ends in "." digits (optionally followed by a newline): what the library takes for an IPv4 address"""
    if vc.mode == "native" or not is_sym(a):
        import re
        return re.search(r"\.[0-9]+$", a) is not None
    z3 = _z3()
    return SBool(z3.InRe(a.t, z3.Concat(z3.Full(z3.ReSort(z3.StringSort())), _lit(z3, "."), z3.Plus(_d(z3)), z3.Option(_lit(z3, "\n")))))


def library_hdn(vc, a):
    """intermediate lemma vocabulary: non-empty, no leading/trailing dot, does not end in .digits"""
    return And(len_(a) > 0, Not(startswith(a, ".")), Not(endswith(a, ".")), Not(ends_with_dot_digits(vc, a)))


def library_post(vc, A, B, r):
    """Proved post-condition of http.cookiejar.domain_match(A, B) on canonical input (scenario cookiejar.domain_match) =
    assumed contract of the call inside stickycookie.domain_match (scenario domain_match.*).  An intermediate lemma: the
    obligations taken from RFC 6265 are stated on stickycookie.domain_match."""
    return [
        ("lib.true_only_if_equal_or_dotted_inner_match", Implies(And(r, A != B), And(startswith(B, "."), contains(A, B), library_hdn(vc, A)))),
        ("lib.equal_matches", Implies(A == B, r)),
        ("lib.dotted_suffix_of_hostname_matches", Implies(And(startswith(B, "."), library_hdn(vc, A), library_hdn(vc, B[1:]), contains(A, B)), r)),
    ]


def _bool_result(vc, out):
    vc.ensure("no_exception", out.ok)
    if not out.ok:
        return None
    r = out.result
    vc.ensure("result_is_bool", isinstance(r, (bool, SBool)))
    if not isinstance(r, (bool, SBool)):
        return None
    return r


@scenario("cookiejar.domain_match", functions=[CJ, "http.cookiejar:is_HDN"], z3_timeout_ms=2000, **DM_OPTS)
def s_cj(vc):
    """The standard library function that actually runs (pure Python, interpreted from its source, not trusted)."""
    A = vc.sym_str("A")
    B = vc.sym_str("B")
    vc.assume(And(rx(vc, A, "canonical"), rx(vc, B, "canonical")))
    r = _bool_result(vc, vc.call(CJ, A, B))
    if r is None:
        return
    for name, cond in library_post(vc, A, B, r):
        vc.ensure(name, cond)


def install_library_contract(vc):
    """http.cookiejar.domain_match(A, B) replaced by its proved contract (library_post), case-split so that every path
    carries unconditional facts"""

    def summ(v, A, B):
        if v.mode == "native":
            return _REAL[0](A, B)
        if v.branch(A == B):
            return True                                   # lib.equal_matches
        r = v.fresh_bool("cj_dm")
        if v.branch(r):
            v.assume(And(startswith(B, "."), contains(A, B), library_hdn(v, A)))     # lib.true_only_if_...
            return True
        v.assume(Not(And(startswith(B, "."), library_hdn(v, A), library_hdn(v, B[1:]), contains(A, B))))   # lib.dotted_suffix_...
        return False

    vc.summary(CJ, summ)


def lemma(vc, name, cond):
    """cut: prove cond on this path, then use it"""
    vc.ensure("lemma." + name, cond)
    vc.assume(cond)


@scenario("domain_match.wellformed", functions=[M + ":domain_match"], **DM_OPTS)
def s_dm(vc):
    """Domain attribute = optional leading dot ++ d, d non-empty without leading/trailing dot; canonical (lower-case) inputs."""
    a = vc.sym_str("a")
    d = vc.sym_str("d")
    lead = vc.case("leading_dot", ["", "."])
    b = lead + d
    vc.assume(And(rx(vc, a, "canonical"), rx(vc, d, "canonical")))
    vc.assume(len_(d) > 0)     # RFC 6265 §5.2.3: empty Domain attribute value => behaviour undefined / attribute ignored
    vc.assume(And(Not(startswith(d, ".")), Not(endswith(d, "."))))
    install_library_contract(vc)
    r = _bool_result(vc, vc.call(M + ":domain_match", a, b))
    if r is None:
        return
    vc.ensure_kf("sound.suffix_or_equal", Implies(r, Or(a == d, endswith(a, "." + d))), "KF-C54-1", K_inner(a, d))
    if vc.branch(And(r, a != d)):
        if vc.branch(a == b):
            # only with a leading dot: the "host" is the dotted Domain attribute itself -- no address starts with a dot
            lemma(vc, "host_starts_with_dot", startswith(a, "."))
        else:
            lemma(vc, "host_contains_dot", contains(a, "."))
            lemma(vc, "host_does_not_end_in_dot_digits", Not(ends_with_dot_digits(vc, a)))
        vc.ensure("sound.not_an_ipv4_address", Not(rx(vc, a, "ip4")))
        vc.ensure("sound.not_an_ipv6_address", Not(rx(vc, a, "ip6")))
    # non-vacuity (not demanded by the statement): ordinary host names match themselves and their dotted parent domains
    if vc.branch(a == d):
        vc.ensure("complete.equal_host", r)
    elif lead == ".":
        host_like = And(rx(vc, a, "hostname"), rx(vc, d, "hostname"))
        vc.ensure("complete.dotted_parent_domain", Implies(And(host_like, endswith(a, "." + d)), r))


@scenario("domain_match.malformed_domain", functions=[M + ":domain_match"], **DM_OPTS)
def s_dm_mal(vc):
    """Domain attribute values with further leading dots or trailing dots (not a valid domain-value, RFC 6265 §4.1.1)."""
    a = vc.sym_str("a")
    b = vc.sym_str("b")
    d = cookie_domain(b)
    vc.assume(And(rx(vc, a, "canonical"), rx(vc, b, "canonical")))
    vc.assume(len_(d) > 0)
    vc.assume(Or(startswith(d, "."), endswith(d, ".")))
    install_library_contract(vc)
    r = _bool_result(vc, vc.call(M + ":domain_match", a, b))
    if r is None:
        return
    # KF-C54-3: b.strip(".") removes more than the one leading dot (further leading dots, trailing dots)
    K3 = And(a == strip_dots(vc, b), a != d)
    vc.ensure_kf("sound.rfc_domain_match", Implies(And(r, Not(K_inner(a, d))), spec_domain_match(vc, a, d)), "KF-C54-3", K3)


def strip_dots(vc, b):
    if vc.mode == "native" or not is_sym(b):
        return b.strip(".")
    from pyvc import lib
    z3 = _z3()
    return SStr(lib.uf("strip_'.'", z3.StringSort(), z3.StringSort())(b.t))


# ---------------------------------------------------------------------------------------------
# ckey / response / request

from props.httpstream import mk_request, mk_response, mk_flow, mk_headers

ATTR_SHAPES = {
    "none": [],
    "domain": [("Domain", "dom0")],
    "path": [("path", "path0")],
    "both": [("domain", "dom0"), ("Path", "path0")],
    "twice": [("domain", "dom0"), ("DOMAIN", "dom1"), ("PATH", "path0"), ("path", "path1"), ("secure", None)],
}


def mk_attrs(vc, shape):
    syms = {}
    pairs = []
    for k, v in ATTR_SHAPES[shape]:
        if v is not None and v not in syms:
            syms[v] = vc.sym_str(v)
        pairs.append((k, syms[v] if v is not None else None))
    attrs = vc.new("mitmproxy.net.http.cookies:CookieAttrs", fields=tuple(pairs))
    return attrs, syms


def mk_req_flow(vc, host, port, path=b"/"):
    req = mk_request(vc, host=host, port=port, path=path)
    return mk_flow(vc, mk_client(vc), mk_server(vc), req)


@scenario("ckey", functions=[M + ":ckey"])
def s_ckey(vc):
    shape = vc.case("attrs", list(ATTR_SHAPES))
    attrs, syms = mk_attrs(vc, shape)
    host = vc.sym_str("host")
    port = vc.sym_int("port", lo=0, hi=65535)
    flow = mk_req_flow(vc, host, port)
    out = vc.call(M + ":ckey", attrs, flow)
    vc.ensure("no_exception", out.ok)
    if not out.ok:
        return
    r = out.result
    vc.ensure("triple", isa(r, tuple) and len(r) == 3)
    if not (isa(r, tuple) and len(r) == 3):
        return
    # RFC 6265 §5.2: the LAST Domain / Path attribute counts, attribute names are case-insensitive
    want_dom = {"none": host, "path": host, "domain": syms.get("dom0"), "both": syms.get("dom0"), "twice": syms.get("dom1")}[shape]
    want_path = {"none": "/", "domain": "/", "path": syms.get("path0"), "both": syms.get("path0"), "twice": syms.get("path1")}[shape]
    vc.ensure("domain_is_last_domain_attribute_or_host", r[0] == want_dom)
    vc.ensure("port_is_request_port", r[1] == port)
    vc.ensure("path_is_last_path_attribute_or_root", r[2] == want_path)


SC = M + ":StickyCookie"


def deep_eq(vc, a, b):
    """structural equality of nested python lists/tuples with symbolic leaves (shapes are concrete)"""
    if isinstance(a, (list, tuple)) and isinstance(b, (list, tuple)):
        if len(a) != len(b):
            return False
        conj = [deep_eq(vc, x, y) for x, y in zip(a, b)]
        if any(c is False for c in conj):
            return False
        conj = [c for c in conj if c is not True]
        return And(*conj) if conj else True
    if isinstance(a, (list, tuple)) or isinstance(b, (list, tuple)):
        return False
    return vc.eq(a, b)


def key_items(k):
    return list(k.items) if isinstance(k, STuple) else list(k)


def jar_snapshot(vc, jar):
    """jar as [(key triple as list, [(name, value), ...]), ...] in insertion order"""
    if vc.mode == "sym":
        return [(key_items(k), [(n, v) for n, v in d.items]) for k, d in jar.items]
    return [(list(k), list(d.items())) for k, d in jar.items()]


def mk_jar(vc, entries):
    import collections
    if vc.mode == "sym":
        from pyvc.libx_http2 import SDefaultDict
        return SDefaultDict(SConst(dict), [(lift(k), vc.dict(list(d))) for k, d in entries])
    return collections.defaultdict(dict, [(k, dict(d)) for k, d in entries])


def install_dm_stub(vc, calls, results):
    """stickycookie.domain_match has its own contract (scenarios domain_match.*): here it is an arbitrary predicate whose
    arguments are recorded"""

    def dm(v, a, b):
        calls.append((a, b))
        return results[len(calls) - 1]

    vc.summary(M + ":domain_match", dm)


@scenario("response", functions=[SC + ".response", M + ":ckey"])
def s_response(vc):
    has_flt = vc.case("filter_set", [True, False])
    shape = vc.case("attrs", ["none", "domain", "both"])
    has_entry = vc.case("jar", ["empty", "one_entry"]) == "one_entry"
    attrs, syms = mk_attrs(vc, shape)
    host, port = vc.sym_str("host"), vc.sym_int("port", lo=0, hi=65535)
    name, value = vc.sym_str("name"), vc.sym_str("value")
    old_key = (vc.sym_str("kdom"), vc.sym_int("kport", lo=0, hi=65535), vc.sym_str("kpath"))
    n0, v0 = vc.sym_str("n0"), vc.sym_str("v0")
    pre = [(old_key, [(n0, v0)])] if has_entry else []
    jar = mk_jar(vc, pre)
    flow = mk_req_flow(vc, host, port)
    flow.response = mk_response(vc)
    addon = vc.new(SC, jar=jar, flt=vc.new("mitmproxy.flowfilter:FAll") if has_flt else None)
    # Set-Cookie parsing (Response.cookies -> cookies.parse_set_cookie_headers) is covered by T2; here: one parsed cookie
    vc.summary("mitmproxy.http:Response._get_cookies", lambda v, self_: v.lift(((name, (value, attrs)),)))
    expired = vc.sym_bool("expired")
    exp_calls = []

    def is_expired(v, at):
        exp_calls.append(at)
        return expired

    vc.summary("mitmproxy.net.http.cookies:is_expired", is_expired)
    dm_calls, matches = [], vc.sym_bool("domain_matches")
    install_dm_stub(vc, dm_calls, [matches])
    out = vc.call(SC + ".response", addon, flow)
    vc.ensure("no_exception", out.ok)
    if not out.ok:
        return
    snap = jar_snapshot(vc, addon.jar)
    pre_snap = [(list(k), list(d)) for k, d in pre]
    if not has_flt:
        vc.ensure("inactive.jar_unchanged", deep_eq(vc, snap, pre_snap))
        vc.ensure("inactive.no_match_attempted", len(dm_calls) == 0)
        return
    dom = {"none": host, "domain": syms.get("dom0"), "both": syms.get("dom0")}[shape]
    path = {"none": "/", "domain": "/", "both": syms.get("path0")}[shape]
    new_key = [dom, port, path]
    vc.ensure("domain_checked_against_responding_host", And(len(dm_calls) == 1, deep_eq(vc, list(dm_calls[0]), [host, dom]) if dm_calls else False))
    if not vc.branch(matches):
        vc.ensure("foreign_domain.not_stored", deep_eq(vc, snap, pre_snap))
        return
    vc.ensure("expiry_decided_on_this_cookies_attributes", len(exp_calls) == 1 and exp_calls[0] is attrs)
    same_key = has_entry and vc.branch(deep_eq(vc, list(old_key), new_key))
    if vc.branch(expired):
        if same_key and vc.branch(name == n0):
            vc.ensure("expired.removed_and_empty_entry_dropped", deep_eq(vc, snap, []))
        else:
            vc.ensure("expired.nothing_else_changes", deep_eq(vc, snap, pre_snap))
        return
    if same_key:
        if vc.branch(name == n0):
            vc.ensure("stored.replaces_same_name", deep_eq(vc, snap, [(list(old_key), [(n0, value)])]))
        else:
            vc.ensure("stored.added_to_entry", deep_eq(vc, snap, [(list(old_key), [(n0, v0), (name, value)])]))
    else:
        vc.ensure("stored.under_domain_port_path", deep_eq(vc, snap, pre_snap + [(new_key, [(name, value)])]))


def uri_path(vc, target):
    """path portion of the request target (RFC 6265 §5.1.4: the uri-path excludes the query)"""
    if vc.mode == "native" or not is_sym(target):
        return target.split("?", 1)[0]
    z3 = _z3()
    i = z3.IndexOf(target.t, z3.StringVal("?"), 0)
    return SStr(z3.If(i >= 0, z3.SubString(target.t, 0, i), target.t))


def spec_path_match(vc, target, c):
    """RFC 6265 §5.1.4: request-path r = uri-path of the target; r == c, or c is a prefix of r and (c ends in "/" or the
    first character of r after c is "/")"""
    r = uri_path(vc, target)
    n = len_(c)
    return Or(r == c, And(startswith(r, c), Or(endswith(c, "/"), r[n:n + 1] == "/")))


MARK = "name=value; formatted"
HEADERS_PRE = {
    "none": ([], [(b"cookie", MARK.encode())]),
    "cookie": ([(b"Cookie", b"old=1")], [(b"Cookie", MARK.encode())]),
    "other": ([(b"X-Other", b"1")], [(b"X-Other", b"1"), (b"cookie", MARK.encode())]),
}


def header_fields(vc, req):
    h = req.data.headers
    f = h.fields["fields"] if isinstance(h, SObj) else h.fields
    return [list(x.items) if isinstance(x, STuple) else list(x) for x in (f.items if isinstance(f, (STuple, SList)) else f)]


@scenario("request", functions=[SC + ".request"])
def s_request(vc):
    has_flt = vc.case("filter_set", [True, False])
    hshape = vc.case("headers", list(HEADERS_PRE))
    host, port = vc.sym_str("host"), vc.sym_int("port", lo=0, hi=65535)
    pathb = vc.sym_bytes("path")
    import z3 as _z
    if vc.mode == "sym":
        vc.assume(SBool(_z.InRe(pathb.t, _z.Star(_z.Range(chr(0), chr(127))))))     # ASCII request target (others: T2)
        path = SStr(pathb.t)
    else:
        vc.assume(all(c < 128 for c in pathb))
        path = pathb.decode("ascii")
    keys = [(vc.sym_str(f"dom{j}"), vc.sym_int(f"port{j}", lo=0, hi=65535), vc.sym_str(f"path{j}")) for j in range(2)]
    items = [[(vc.sym_str("n00"), vc.sym_str("v00")), (vc.sym_str("n01"), vc.sym_str("v01"))], [(vc.sym_str("n10"), vc.sym_str("v10"))]]
    vc.assume(items[0][0][0] != items[0][1][0])                       # dict keys of one entry are distinct
    vc.assume(Not(deep_eq(vc, list(keys[0]), list(keys[1]))))         # jar keys are distinct
    jar = mk_jar(vc, list(zip(keys, items)))
    pre_fields, post_fields = HEADERS_PRE[hshape]
    req = mk_request(vc, host=host, port=port, path=pathb, headers=mk_headers(vc, pre_fields))
    flow = mk_flow(vc, mk_client(vc), mk_server(vc), req)
    addon = vc.new(SC, jar=jar, flt=vc.new("mitmproxy.flowfilter:FAll") if has_flt else None)
    filter_matches = vc.sym_bool("filter_matches")
    vc.summary("mitmproxy.flowfilter:match", lambda v, flt, f: filter_matches)
    dm_calls = []
    dms = [vc.sym_bool("dm0"), vc.sym_bool("dm1")]
    install_dm_stub(vc, dm_calls, dms)
    formatted = []

    def fmt(v, lst):
        formatted.append(lst)
        return v.lift(MARK)

    vc.summary("mitmproxy.net.http.cookies:format_cookie_header", fmt)
    out = vc.call(SC + ".request", addon, flow)
    vc.ensure("no_exception", out.ok)
    if not out.ok:
        return
    vc.ensure("jar_unchanged", deep_eq(vc, jar_snapshot(vc, addon.jar), [(list(k), list(d)) for k, d in zip(keys, items)]))
    fields = header_fields(vc, flow.request)
    meta = flow.metadata
    has_meta = (len(meta.items) if vc.mode == "sym" else len(meta)) > 0
    observed = []
    if formatted:
        lst = formatted[0]
        observed = [key_items(x) for x in (lst.items if vc.mode == "sym" else lst)]
    vc.ensure("formatted_at_most_once", len(formatted) <= 1)
    active = has_flt and vc.branch(filter_matches)
    if not active:
        vc.ensure("inactive.no_cookie_attached", And(len(formatted) == 0, deep_eq(vc, fields, [list(x) for x in pre_fields]), not has_meta))
        return
    took = {0: (False, False), 1: (False, True), 2: (True, False), 3: (True, True)}.get(len(observed))
    vc.ensure("list.length", took is not None)
    if took is None:
        return
    for j in range(2):
        d_j, p_j, c_j = keys[j]
        vc.ensure(f"entry{j}.domain_matched_against_request_host", True if j >= len(dm_calls) else deep_eq(vc, list(dm_calls[j]), [host, d_j]))
        spec_j = And(dms[j], port == p_j, spec_path_match(vc, path, c_j))
        # KF-C54-2: bare prefix test on the whole request target: "/foo" is taken to match "/foobar"
        K2 = And(dms[j], port == p_j, startswith(path, c_j), Not(spec_path_match(vc, path, c_j)))
        vc.ensure_kf(f"entry{j}.attached_only_if_domain_port_and_path_match", Implies(took[j], spec_j), "KF-C54-2", K2)
        vc.ensure(f"entry{j}.attached_if_domain_port_and_path_match", Implies(spec_j, took[j]))
    exp = [list(kv) for j in range(2) if took[j] for kv in items[j]]
    vc.ensure("list.exactly_the_cookies_of_attached_entries_in_jar_order", deep_eq(vc, observed, exp))
    if observed:
        vc.ensure("header.set_once_to_formatted_list", deep_eq(vc, fields, [list(x) for x in post_fields]))
        vc.ensure("metadata.marked", has_meta)
    else:
        vc.ensure("nothing_attached.request_untouched", And(deep_eq(vc, fields, [list(x) for x in pre_fields]), not has_meta))
