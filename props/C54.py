"""C54 — sticky cookies are only sent to hosts and paths they belong to.

Specification written from RFC 6265:
  §5.2.3  cookie-domain = Domain attribute value without ONE leading ".", lower-cased
  §5.1.3  string s domain-matches domain d  <=>  s == d  or  (s ends with "." ++ d  and  s is a host name, not an IP address)
  §5.1.4  request-path r path-matches cookie-path c  <=>  r == c  or  (c is a prefix of r  and  (c ends with "/"  or  r[len(c)] == "/"))
"""
from pyvc.api import *
from props.prelude import *

CLAIM = "proof"
M = "mitmproxy.addons.stickycookie"
HTTP_ROOT = ["/root/.pyenv/versions/3.12.1/lib/python3.12/http"]


# ---------------------------------------------------------------------------------------------
# regular languages used by the specification, usable in both modes: (python regex, z3 regex builder)

def _z3():
    import z3
    return z3


def rx(vc, s, name):
    """s in LANG[name]"""
    pat, build = LANG[name]
    if vc.mode == "native" or not is_sym(s):
        import re
        return re.fullmatch(pat, s, re.S) is not None
    z3 = _z3()
    return SBool(z3.InRe(s.t, build(z3)))


def _d(z3):
    return z3.Range("0", "9")


def _lit(z3, c):
    return z3.Re(z3.StringVal(c))


def _ip4(z3):
    return z3.Concat(z3.Plus(_d(z3)), _lit(z3, "."), z3.Plus(_d(z3)), _lit(z3, "."), z3.Plus(_d(z3)), _lit(z3, "."), z3.Plus(_d(z3)))


def _ip6(z3):
    h = z3.Union(_d(z3), z3.Range("a", "f"), _lit(z3, ":"))
    return z3.Concat(z3.Star(h), _lit(z3, ":"), z3.Star(h), z3.Option(_ip4(z3)))


def _ldh(z3):
    return z3.Union(_d(z3), z3.Range("a", "z"), _lit(z3, "-"))


def _hostchars(z3):
    return z3.Star(z3.Union(_ldh(z3), _lit(z3, ".")))


def _ends_in_letter(z3):
    return z3.Concat(z3.Full(z3.ReSort(z3.StringSort())), z3.Range("a", "z"))


def _canon(z3):
    return z3.Star(z3.Union(z3.Range(chr(0), "@"), z3.Range("[", chr(127))))


LANG = {
    # canonical host / domain text: ASCII without upper-case letters (lower() is the identity)
    "canonical": (r"[\x00-@\[-\x7f]*", _canon),
    # textual IPv4 address (over-approximation: any four dot-separated digit groups)
    "ip4": (r"\d+\.\d+\.\d+\.\d+", _ip4),
    # textual IPv6 address (over-approximation: hex digits and colons with at least one colon, optional dotted-quad tail)
    "ip6": (r"[0-9a-f:]*:[0-9a-f:]*(\d+\.\d+\.\d+\.\d+)?", _ip6),
    "hostchars": (r"[0-9a-z.-]*", _hostchars),
    "ends_in_letter": (r".*[a-z]", _ends_in_letter),
}
# re.ASCII for \d in the python patterns
LANG = {k: (p.replace(r"\d", "[0-9]"), b) for k, (p, b) in LANG.items()}


def lower_(vc, s):
    """str.lower(): in proof mode the uninterpreted function the engine uses for it"""
    if vc.mode == "native" or not is_sym(s):
        return s.lower()
    from pyvc import lib
    z3 = _z3()
    return SStr(lib.uf("lower", z3.StringSort(), z3.StringSort())(s.t))


def cookie_domain(b):
    """RFC 6265 §5.2.3: drop one leading dot"""
    return If(startswith(b, "."), b[1:], b)


def is_ip(vc, a):
    return Or(rx(vc, a, "ip4"), rx(vc, a, "ip6"))


def spec_domain_match(vc, a, d):
    """RFC 6265 §5.1.3 on canonicalised (lower-case) strings: host string a, cookie-domain d"""
    return Or(a == d, And(endswith(a, "." + d), Not(is_ip(vc, a))))


DM_OPTS = dict(extra_inline_roots=HTTP_ROOT, exact_search=True, lower_identity=True)


def plain_host_name(vc, x):
    """letters/digits/hyphens/dots, non-empty, no leading or trailing dot, ending in a letter (the top-level label is not a number)"""
    return And(rx(vc, x, "hostchars"), len_(x) > 0, Not(startswith(x, ".")), Not(endswith(x, ".")), rx(vc, x, "ends_in_letter"))


def ends_with_dot_digits(vc, a):
    """the text ends in "." digits (optionally followed by a newline): what http.cookiejar.is_HDN takes for an IPv4 address"""
    if vc.mode == "native" or not is_sym(a):
        import re
        return re.search(r"\.[0-9]+$", a) is not None
    z3 = _z3()
    return SBool(z3.InRe(a.t, z3.Concat(z3.Full(z3.ReSort(z3.StringSort())), _lit(z3, "."), z3.Plus(_d(z3)), z3.Option(_lit(z3, "\n")))))


def lemma(vc, name, cond):
    """cut: prove cond on this path, then use it"""
    vc.ensure("lemma." + name, cond)
    vc.assume(cond)


def _bool_result(vc, out):
    vc.ensure("no_exception", out.ok)
    if not out.ok:
        return None
    r = out.result
    vc.ensure("result_is_bool", isinstance(r, (bool, SBool)))
    if not isinstance(r, (bool, SBool)):
        return None
    return r


@scenario("domain_match", functions=[M + ":domain_match", "http.cookiejar:is_HDN"], **DM_OPTS)
def s_dm(vc):
    """Domain attribute b = optional leading dot ++ d with d (the RFC 6265 5.2.3 cookie-domain) non-empty; canonical (ASCII
    lower-case) inputs.  Every b with a non-empty cookie-domain has exactly one such decomposition."""
    a = vc.sym_str("a")
    d = vc.sym_str("d")
    lead = vc.case("leading_dot", ["", "."])
    b = lead + d
    vc.assume(And(rx(vc, a, "canonical"), rx(vc, d, "canonical")))
    vc.assume(len_(d) > 0)     # RFC 6265 5.2.3: empty Domain attribute value => behaviour undefined / attribute ignored
    if lead == "":
        vc.assume(Not(startswith(d, ".")))
    r = _bool_result(vc, vc.call(M + ":domain_match", a, b))
    if r is None:
        return
    vc.ensure("sound.suffix_or_equal", Implies(r, Or(a == d, endswith(a, "." + d))))
    if vc.branch(And(r, a != d)):
        if vc.branch(a == b):
            # only with a leading dot: the "host" is the dotted Domain attribute itself -- no address starts with a dot
            lemma(vc, "host_starts_with_dot", startswith(a, "."))
        else:
            lemma(vc, "host_contains_dot", contains(a, "."))
            lemma(vc, "host_does_not_end_in_dot_digits", Not(ends_with_dot_digits(vc, a)))
        vc.ensure("sound.not_an_ipv4_address", Not(rx(vc, a, "ip4")))
        vc.ensure("sound.not_an_ipv6_address", Not(rx(vc, a, "ip6")))
    # converse (non-vacuity; the statement only demands the direction above)
    if vc.branch(a == d):
        vc.ensure("complete.equal_host", r)
    else:
        host_like = And(plain_host_name(vc, a), plain_host_name(vc, d))
        if lead == ".":
            lemma(vc, "host_name_does_not_end_in_dot_digits", Implies(rx(vc, a, "ends_in_letter"), Not(ends_with_dot_digits(vc, a))))
            vc.ensure("complete.dotted_parent_domain", Implies(And(host_like, endswith(a, "." + d)), r))
        else:
            # KF-C54-4: Domain=example.com (RFC 6265 form, no leading dot) never matches a sub-domain host: the jar key cannot
            # tell a host-only cookie from a Domain cookie, so only the dotted form matches sub-domains.  Consequence for the
            # statement: an expiring Set-Cookie from a.example.com does not remove the example.com cookie from the jar.
            K4 = And(host_like, endswith(a, "." + d))
            vc.ensure_kf("complete.undotted_parent_domain", Implies(K4, r), "KF-C54-4", K4)


PM = M + ":path_match"


@scenario("path_match", functions=[PM])
def s_pm(vc):
    """RFC 6265 5.1.4 on request target = uri-path [ "?" query ]"""
    rp, q, c = vc.sym_str("uri_path"), vc.sym_str("query"), vc.sym_str("cookie_path")
    has_query = vc.case("has_query", [False, True])
    if vc.mode == "sym":
        z3 = _z3()
        vc.assume(SBool(z3.Not(z3.Contains(rp.t, z3.StringVal("?")))))
    else:
        vc.assume("?" not in rp)
    target = rp + "?" + q if has_query else rp
    r = _bool_result(vc, vc.call(PM, target, c))
    if r is None:
        return
    spec = spec_path_match_rp(rp, c)
    vc.ensure("true_only_if_rfc_path_match", Implies(r, spec))
    vc.ensure("true_if_rfc_path_match", Implies(spec, r))


# ---------------------------------------------------------------------------------------------
# ckey / response / request

from props.httpstream import mk_request, mk_response, mk_flow, mk_headers

ATTR_SHAPES = {
    "none": [],
    "domain": [("Domain", "dom0")],
    "path": [("path", "path0")],
    "both": [("domain", "dom0"), ("Path", "path0")],
    "twice": [("domain", "dom0"), ("DOMAIN", "dom1"), ("PATH", "path0"), ("path", "path1"), ("secure", None)],
}


def mk_attrs(vc, shape):
    syms = {}
    pairs = []
    for k, v in ATTR_SHAPES[shape]:
        if v is not None and v not in syms:
            syms[v] = vc.sym_str(v)
        pairs.append((k, syms[v] if v is not None else None))
    attrs = vc.new("mitmproxy.net.http.cookies:CookieAttrs", fields=tuple(pairs))
    return attrs, syms


def mk_req_flow(vc, host, port, path=b"/"):
    req = mk_request(vc, host=host, port=port, path=path)
    return mk_flow(vc, mk_client(vc), mk_server(vc), req)


@scenario("ckey", functions=[M + ":ckey"])
def s_ckey(vc):
    shape = vc.case("attrs", list(ATTR_SHAPES))
    attrs, syms = mk_attrs(vc, shape)
    host = vc.sym_str("host")
    port = vc.sym_int("port", lo=0, hi=65535)
    flow = mk_req_flow(vc, host, port)
    out = vc.call(M + ":ckey", attrs, flow)
    vc.ensure("no_exception", out.ok)
    if not out.ok:
        return
    r = out.result
    vc.ensure("triple", isa(r, tuple) and len(r) == 3)
    if not (isa(r, tuple) and len(r) == 3):
        return
    # RFC 6265 §5.2: the LAST Domain / Path attribute counts, attribute names are case-insensitive
    want_dom = {"none": host, "path": host, "domain": syms.get("dom0"), "both": syms.get("dom0"), "twice": syms.get("dom1")}[shape]
    want_path = {"none": "/", "domain": "/", "path": syms.get("path0"), "both": syms.get("path0"), "twice": syms.get("path1")}[shape]
    vc.ensure("domain_is_last_domain_attribute_or_host", r[0] == want_dom)
    vc.ensure("port_is_request_port", r[1] == port)
    vc.ensure("path_is_last_path_attribute_or_root", r[2] == want_path)


SC = M + ":StickyCookie"


def deep_eq(vc, a, b):
    """structural equality of nested python lists/tuples with symbolic leaves (shapes are concrete)"""
    if isinstance(a, (list, tuple)) and isinstance(b, (list, tuple)):
        if len(a) != len(b):
            return False
        conj = [deep_eq(vc, x, y) for x, y in zip(a, b)]
        if any(c is False for c in conj):
            return False
        conj = [c for c in conj if c is not True]
        return And(*conj) if conj else True
    if isinstance(a, (list, tuple)) or isinstance(b, (list, tuple)):
        return False
    return vc.eq(a, b)


def key_items(k):
    return list(k.items) if isinstance(k, STuple) else list(k)


def jar_snapshot(vc, jar):
    """jar as [(key triple as list, [(name, value), ...]), ...] in insertion order"""
    if vc.mode == "sym":
        return [(key_items(k), [(n, v) for n, v in d.items]) for k, d in jar.items]
    return [(list(k), list(d.items())) for k, d in jar.items()]


def mk_jar(vc, entries):
    import collections
    if vc.mode == "sym":
        from pyvc.libx_http2 import SDefaultDict
        return SDefaultDict(SConst(dict), [(lift(k), vc.dict(list(d))) for k, d in entries])
    return collections.defaultdict(dict, [(k, dict(d)) for k, d in entries])


def install_dm_stub(vc, calls, results):
    """stickycookie.domain_match has its own contract (scenarios domain_match.*): here it is an arbitrary predicate whose
    arguments are recorded"""

    def dm(v, a, b):
        calls.append((a, b))
        return results[len(calls) - 1]

    vc.summary(M + ":domain_match", dm)


@scenario("response", functions=[SC + ".response", M + ":ckey"])
def s_response(vc):
    has_flt = vc.case("filter_set", [True, False])
    shape = vc.case("attrs", ["none", "domain", "both"])
    has_entry = vc.case("jar", ["empty", "one_entry"]) == "one_entry"
    attrs, syms = mk_attrs(vc, shape)
    host, port = vc.sym_str("host"), vc.sym_int("port", lo=0, hi=65535)
    name, value = vc.sym_str("name"), vc.sym_str("value")
    old_key = (vc.sym_str("kdom"), vc.sym_int("kport", lo=0, hi=65535), vc.sym_str("kpath"))
    n0, v0 = vc.sym_str("n0"), vc.sym_str("v0")
    pre = [(old_key, [(n0, v0)])] if has_entry else []
    jar = mk_jar(vc, pre)
    flow = mk_req_flow(vc, host, port)
    flow.response = mk_response(vc)
    addon = vc.new(SC, jar=jar, flt=vc.new("mitmproxy.flowfilter:FAll") if has_flt else None)
    # Set-Cookie parsing (Response.cookies -> cookies.parse_set_cookie_headers) is covered by T2; here: one parsed cookie
    vc.summary("mitmproxy.http:Response._get_cookies", lambda v, self_: v.lift(((name, (value, attrs)),)))
    expired = vc.sym_bool("expired")
    exp_calls = []

    def is_expired(v, at):
        exp_calls.append(at)
        return expired

    vc.summary("mitmproxy.net.http.cookies:is_expired", is_expired)
    dm_calls, matches = [], vc.sym_bool("domain_matches")
    install_dm_stub(vc, dm_calls, [matches])
    out = vc.call(SC + ".response", addon, flow)
    vc.ensure("no_exception", out.ok)
    if not out.ok:
        return
    snap = jar_snapshot(vc, addon.jar)
    pre_snap = [(list(k), list(d)) for k, d in pre]
    if not has_flt:
        vc.ensure("inactive.jar_unchanged", deep_eq(vc, snap, pre_snap))
        vc.ensure("inactive.no_match_attempted", len(dm_calls) == 0)
        return
    dom = {"none": host, "domain": syms.get("dom0"), "both": syms.get("dom0")}[shape]
    path = {"none": "/", "domain": "/", "both": syms.get("path0")}[shape]
    new_key = [dom, port, path]
    vc.ensure("domain_checked_against_responding_host", And(len(dm_calls) == 1, deep_eq(vc, list(dm_calls[0]), [host, dom]) if dm_calls else False))
    if not vc.branch(matches):
        vc.ensure("foreign_domain.not_stored", deep_eq(vc, snap, pre_snap))
        return
    vc.ensure("expiry_decided_on_this_cookies_attributes", len(exp_calls) == 1 and exp_calls[0] is attrs)
    same_key = has_entry and vc.branch(deep_eq(vc, list(old_key), new_key))
    if vc.branch(expired):
        if same_key and vc.branch(name == n0):
            vc.ensure("expired.removed_and_empty_entry_dropped", deep_eq(vc, snap, []))
        else:
            vc.ensure("expired.nothing_else_changes", deep_eq(vc, snap, pre_snap))
        return
    if same_key:
        if vc.branch(name == n0):
            vc.ensure("stored.replaces_same_name", deep_eq(vc, snap, [(list(old_key), [(n0, value)])]))
        else:
            vc.ensure("stored.added_to_entry", deep_eq(vc, snap, [(list(old_key), [(n0, v0), (name, value)])]))
    else:
        vc.ensure("stored.under_domain_port_path", deep_eq(vc, snap, pre_snap + [(new_key, [(name, value)])]))


def uri_path(vc, target):
    """path portion of the request target (RFC 6265 §5.1.4: the uri-path excludes the query)"""
    if vc.mode == "native" or not is_sym(target):
        return target.split("?", 1)[0]
    z3 = _z3()
    i = z3.IndexOf(target.t, z3.StringVal("?"), 0)
    return SStr(z3.If(i >= 0, z3.SubString(target.t, 0, i), target.t))


def spec_path_match(vc, target, c):
    """RFC 6265 §5.1.4: request-path r = uri-path of the target; r == c, or c is a prefix of r and (c ends in "/" or the
    first character of r after c is "/")"""
    return spec_path_match_rp(uri_path(vc, target), c)


def spec_path_match_rp(r, c):
    n = len_(c)
    return Or(r == c, And(startswith(r, c), Or(endswith(c, "/"), r[n:n + 1] == "/")))


MARK = "name=value; formatted"
HEADERS_PRE = {
    "none": ([], [(b"cookie", MARK.encode())]),
    "cookie": ([(b"Cookie", b"old=1")], [(b"Cookie", MARK.encode())]),
    "other": ([(b"X-Other", b"1")], [(b"X-Other", b"1"), (b"cookie", MARK.encode())]),
}


def header_fields(vc, req):
    h = req.data.headers
    f = h.fields["fields"] if isinstance(h, SObj) else h.fields
    return [list(x.items) if isinstance(x, STuple) else list(x) for x in (f.items if isinstance(f, (STuple, SList)) else f)]


@scenario("response.same_name_twice", functions=[SC + ".response", M + ":ckey"])
def s_response_two(vc):
    """one response with two Set-Cookie fields of the SAME name and different paths (a server re-scoping a cookie): every field is
    processed, in order (RFC 6265 5.3: per set-cookie-string)"""
    e1, e2 = vc.case("expired", [(False, True), (True, False), (False, False), (True, True)])
    p1, p2 = vc.case("paths", [("/app", "/"), ("/", "/app"), ("/", "/")])
    host, port = vc.sym_str("host"), vc.sym_int("port", lo=0, hi=65535)
    name, old, v1, v2 = vc.sym_str("name"), vc.sym_str("old"), vc.sym_str("value1"), vc.sym_str("value2")
    pre = [((host, port, "/"), [(name, old)])]
    jar = mk_jar(vc, pre)
    a1 = vc.new("mitmproxy.net.http.cookies:CookieAttrs", fields=(("Path", p1),))
    a2 = vc.new("mitmproxy.net.http.cookies:CookieAttrs", fields=(("Path", p2),))
    flow = mk_req_flow(vc, host, port)
    flow.response = mk_response(vc)
    addon = vc.new(SC, jar=jar, flt=vc.new("mitmproxy.flowfilter:FAll"))
    vc.summary("mitmproxy.http:Response._get_cookies", lambda v, self_: v.lift(((name, (v1, a1)), (name, (v2, a2)))))
    exp_calls = []

    def is_expired(v, at):
        exp_calls.append(at)
        return e1 if at is a1 else e2

    vc.summary("mitmproxy.net.http.cookies:is_expired", is_expired)
    dm_calls = []
    install_dm_stub(vc, dm_calls, [True, True])
    out = vc.call(SC + ".response", addon, flow)
    vc.ensure("no_exception", out.ok)
    if not out.ok:
        return
    vc.ensure("both_fields_processed_in_order", len(exp_calls) == 2 and exp_calls[0] is a1 and exp_calls[1] is a2 and len(dm_calls) == 2)
    # reference: the jar after processing the two set-cookie-strings one after the other (paths concrete, one cookie name)
    ref = [["/", old]]
    for path, val, expired in ((p1, v1, e1), (p2, v2, e2)):
        ref = [e for e in ref if e[0] != path] if expired else ([[q, (val if q == path else w)] for q, w in ref] if any(q == path for q, _ in ref) else ref + [[path, val]])
    want = [([host, port, q], [(name, w)]) for q, w in ref]
    vc.ensure("jar_is_the_result_of_both_fields", deep_eq(vc, jar_snapshot(vc, addon.jar), want))


# Set-Cookie parsing: several cookies folded into one field line (comma separated, RFC 2109 style, still produced by proxies and
# joined header lists): every cookie keeps exactly its own attributes
FOLDED = [
    ("sid=secret; HttpOnly, track=1; Domain=.example.com; Path=/", [("sid", "secret", [("HttpOnly", None)]), ("track", "1", [("Domain", ".example.com"), ("Path", "/")])]),
    ("a=1; Secure; HttpOnly, b=2; Path=/x, c=3", [("a", "1", [("Secure", None), ("HttpOnly", None)]), ("b", "2", [("Path", "/x")]), ("c", "3", [])]),
    ("a=1; Path=/p, b=2", [("a", "1", [("Path", "/p")]), ("b", "2", [])]),
    ("a=1; Expires=Thu, 01 Jan 2030 00:00:00 GMT; Secure, b=2; Domain=d.example", [("a", "1", [("Expires", "Thu, 01 Jan 2030 00:00:00 GMT"), ("Secure", None)]), ("b", "2", [("Domain", "d.example")])]),
    ("a=1; HttpOnly", [("a", "1", [("HttpOnly", None)])]),
    ("a=1;Secure,b=2", [("a", "1", [("Secure", None)]), ("b", "2", [])]),
    ("a=1; Domain=one.example; Secure, b=2; Secure, c=3; Domain=three.example", [("a", "1", [("Domain", "one.example"), ("Secure", None)]), ("b", "2", [("Secure", None)]), ("c", "3", [("Domain", "three.example")])]),
]


@scenario("parse_set_cookie_header.folded", functions=["mitmproxy.net.http.cookies:parse_set_cookie_header", "mitmproxy.net.http.cookies:_read_set_cookie_pairs",
                                                       "mitmproxy.net.http.cookies:_read_key", "mitmproxy.net.http.cookies:_read_value"], max_unroll=64)
def s_parse_folded(vc):
    i = vc.case("line", list(range(len(FOLDED))))
    line, want = FOLDED[i]
    out = vc.call("mitmproxy.net.http.cookies:parse_set_cookie_header", line)
    vc.ensure("no_exception", out.ok)
    if not out.ok:
        return

    def conc(x):
        x = vc.resolve(x) if vc.mode == "sym" else x
        if x is None or isnone(x) is True:
            return None
        return x.concrete() if hasattr(x, "concrete") else x

    got = []
    for c in items_of_any(out.result):
        n, v, attrs = items_of_any(c)
        fields = attrs.fields["fields"] if isinstance(attrs, SObj) else attrs.fields
        got.append((conc(n), conc(v), [(conc(items_of_any(f)[0]), conc(items_of_any(f)[1])) for f in items_of_any(fields)]))
    vc.ensure("one_cookie_per_comma_separated_cookie", len(got) == len(want))
    vc.ensure("every_cookie_keeps_exactly_its_own_attributes", got == want)


def items_of_any(x):
    return list(x.items) if isinstance(x, (SList, STuple)) else list(x)


@scenario("request", functions=[SC + ".request"])
def s_request(vc):
    has_flt = vc.case("filter_set", [True, False])
    hshape = vc.case("headers", list(HEADERS_PRE))
    host, port = vc.sym_str("host"), vc.sym_int("port", lo=0, hi=65535)
    # request target = uri-path [ "?" query ]  (ASCII; non-ASCII targets: T2)
    rpb, qb = vc.sym_bytes("uri_path"), vc.sym_bytes("query")
    has_query = vc.case("has_query", [False, True])
    pathb = rpb + b"?" + qb if has_query else rpb
    if vc.mode == "sym":
        import z3 as _z
        vc.assume(SBool(_z.InRe(rpb.t, _z.Star(_z.Union(_z.Range(chr(0), ">"), _z.Range("@", chr(127)))))))     # ASCII without "?"
        vc.assume(SBool(_z.InRe(qb.t, _z.Star(_z.Range(chr(0), chr(127))))))
        path, rpath = SStr(pathb.t), SStr(rpb.t)
    else:
        vc.assume(all(c < 128 and c != 63 for c in rpb) and all(c < 128 for c in qb))
        path, rpath = pathb.decode("ascii"), rpb.decode("ascii")
    keys = [(vc.sym_str(f"dom{j}"), vc.sym_int(f"port{j}", lo=0, hi=65535), vc.sym_str(f"path{j}")) for j in range(2)]
    items = [[(vc.sym_str("n00"), vc.sym_str("v00")), (vc.sym_str("n01"), vc.sym_str("v01"))], [(vc.sym_str("n10"), vc.sym_str("v10"))]]
    vc.assume(items[0][0][0] != items[0][1][0])                       # dict keys of one entry are distinct
    vc.assume(Not(deep_eq(vc, list(keys[0]), list(keys[1]))))         # jar keys are distinct
    jar = mk_jar(vc, list(zip(keys, items)))
    pre_fields, post_fields = HEADERS_PRE[hshape]
    req = mk_request(vc, host=host, port=port, path=pathb, headers=mk_headers(vc, pre_fields))
    flow = mk_flow(vc, mk_client(vc), mk_server(vc), req)
    addon = vc.new(SC, jar=jar, flt=vc.new("mitmproxy.flowfilter:FAll") if has_flt else None)
    filter_matches = vc.sym_bool("filter_matches")
    vc.summary("mitmproxy.flowfilter:match", lambda v, flt, f: filter_matches)
    dm_calls = []
    dms = [vc.sym_bool("dm0"), vc.sym_bool("dm1")]
    install_dm_stub(vc, dm_calls, dms)
    # path_match has its own contract (scenario path_match): here an arbitrary predicate with recorded arguments
    pm_calls = []
    pms = [vc.sym_bool("pm0"), vc.sym_bool("pm1")]

    def pm_stub(v, rpath_, cpath_):
        pm_calls.append((rpath_, cpath_))
        return pms[len(pm_calls) - 1]

    vc.summary(PM, pm_stub)
    formatted = []

    def fmt(v, lst):
        formatted.append(lst)
        return v.lift(MARK)

    vc.summary("mitmproxy.net.http.cookies:format_cookie_header", fmt)
    out = vc.call(SC + ".request", addon, flow)
    vc.ensure("no_exception", out.ok)
    if not out.ok:
        return
    vc.ensure("jar_unchanged", deep_eq(vc, jar_snapshot(vc, addon.jar), [(list(k), list(d)) for k, d in zip(keys, items)]))
    fields = header_fields(vc, flow.request)
    meta = flow.metadata
    has_meta = (len(meta.items) if vc.mode == "sym" else len(meta)) > 0
    observed = []
    if formatted:
        lst = formatted[0]
        observed = [key_items(x) for x in (lst.items if vc.mode == "sym" else lst)]
    vc.ensure("formatted_at_most_once", len(formatted) <= 1)
    active = has_flt and vc.branch(filter_matches)
    if not active:
        vc.ensure("inactive.no_cookie_attached", And(len(formatted) == 0, deep_eq(vc, fields, [list(x) for x in pre_fields]), not has_meta))
        return
    took = {0: (False, False), 1: (False, True), 2: (True, False), 3: (True, True)}.get(len(observed))
    vc.ensure("list.length", took is not None)
    if took is None:
        return
    for j in range(2):
        d_j, p_j, c_j = keys[j]
        vc.ensure(f"entry{j}.domain_matched_against_request_host", True if j >= len(dm_calls) else deep_eq(vc, list(dm_calls[j]), [host, d_j]))
        vc.ensure(f"entry{j}.path_matched_against_request_target", True if j >= len(pm_calls) else deep_eq(vc, list(pm_calls[j]), [path, c_j]))
        spec_j = And(dms[j], port == p_j, pms[j])
        vc.ensure(f"entry{j}.attached_only_if_domain_port_and_path_match", Implies(took[j], spec_j))
        vc.ensure(f"entry{j}.attached_if_domain_port_and_path_match", Implies(spec_j, took[j]))
    exp = [list(kv) for j in range(2) if took[j] for kv in items[j]]
    vc.ensure("list.exactly_the_cookies_of_attached_entries_in_jar_order", deep_eq(vc, observed, exp))
    if observed:
        vc.ensure("header.set_once_to_formatted_list", deep_eq(vc, fields, [list(x) for x in post_fields]))
        vc.ensure("metadata.marked", has_meta)
    else:
        vc.ensure("nothing_attached.request_untouched", And(deep_eq(vc, fields, [list(x) for x in pre_fields]), not has_meta))


# ---------------------------------------------------------------------------------------------
# expiry: cookies.get_expiration_ts / is_expired (RFC 6265 5.2.1 / 5.2.2 / 5.3 step 3)

CK = "mitmproxy.net.http.cookies"


def _re_sym(vc, s, pat, build):
    if vc.mode == "native" or not is_sym(s):
        import re
        return re.fullmatch(pat, s) is not None
    z3 = _z3()
    return SBool(z3.InRe(s.t, build(z3)))


def is_decimal(vc, s):
    return _re_sym(vc, s, r"[0-9]+", lambda z3: z3.Plus(_d(z3)))


def is_negative_decimal(vc, s):
    return _re_sym(vc, s, r"-[0-9]+", lambda z3: z3.Concat(_lit(z3, "-"), z3.Plus(_d(z3))))


def all_zeros(vc, s):
    return _re_sym(vc, s, r"0+", lambda z3: z3.Plus(_lit(z3, "0")))


def is_lenient_number(vc, s):
    """texts Python's int() accepts beyond RFC 6265's  ["-"] 1*DIGIT  (sign '+', blanks, underscores): left open"""
    return _re_sym(vc, s, r"[ \t\n\r\x0b\x0c+_0-9-]*", lambda z3: z3.Star(z3.Union(_d(z3), *[_lit(z3, c) for c in " \t\n\r\x0b\x0c+_-"])))


@scenario("is_expired", functions=[CK + ":is_expired", CK + ":get_expiration_ts"], int_signed=True)
def s_expired(vc):
    """now = the clock at the two reads inside is_expired (less than a second apart)"""
    shape = vc.case("attributes", ["none", "max_age", "expires", "expires_unparsable", "expires_and_max_age"])
    text = vc.sym_str("max_age_text")
    vc.assume(_re_sym(vc, text, r"[\x00-\x7f]*", lambda z3: z3.Star(z3.Range(chr(0), chr(127)))))     # ASCII attribute value
    exp_ts = vc.sym_int("expires_ts", lo=0)
    pairs = []
    if shape in ("expires", "expires_unparsable", "expires_and_max_age"):
        pairs.append(("Expires", "some date"))
    if shape in ("max_age", "expires_and_max_age"):
        pairs.append(("Max-Age", text))
    attrs = vc.new(CK + ":CookieAttrs", fields=tuple(pairs))
    # date parsing is library behaviour: parsedate_tz gives None (unparsable) or a time tuple whose timestamp is expires_ts
    vc.summary("email._parseaddr:parsedate_tz", lambda v, data: v.lift(None if shape == "expires_unparsable" else (1, 2, 3)))
    vc.summary("email._parseaddr:mktime_tz", lambda v, t: v.lift(exp_ts))
    out = vc.call(CK + ":is_expired", attrs)
    vc.ensure("no_exception", out.ok)
    if not out.ok:
        return
    r = out.result
    if vc.mode == "sym":
        import z3
        names = [n for n in vc.ex.symbols if n == "now" or n.startswith("now#")]
        if len(names) >= 2:
            n1, n2 = z3.Real(names[0]), z3.Real(names[-1])
            vc.assume(SBool(z3.And(n2 >= n1, n2 < n1 + 1)))
        from pyvc.core import SFloat
        now = SFloat(z3.Real(names[-1])) if names else None
    else:
        import time
        now = time.time()
    if shape == "none" or shape == "expires_unparsable":
        vc.ensure("no_usable_expiry.not_expired", vc.eq(r, False))
        return
    if shape == "expires":
        vc.ensure("expires.expired_iff_date_not_in_the_future", Iff(r, _le(vc, exp_ts, now)))
        return
    if shape == "max_age":
        # RFC 6265 5.2.2: ["-"] 1*DIGIT; delta <= 0 => earliest time (expired now); anything else => attribute ignored
        vc.ensure("max_age.negative_expires_now", Implies(is_negative_decimal(vc, text), r))
        vc.ensure("max_age.zero_expires_now", Implies(all_zeros(vc, text), r))
        vc.ensure("max_age.positive_keeps", Implies(And(is_decimal(vc, text), Not(all_zeros(vc, text))), Not(r)))
        vc.ensure("max_age.not_a_number_ignored", Implies(Not(is_lenient_number(vc, text)), Not(r)))
        return
    # both: RFC 6265 5.3 step 3: Max-Age has precedence over Expires.  KF-C54-5: get_expiration_ts looks at Max-Age only
    # when there is no Expires attribute (the whole class is the finding)
    K5 = Or(is_decimal(vc, text), is_negative_decimal(vc, text))
    want = Or(is_negative_decimal(vc, text), all_zeros(vc, text))
    vc.ensure("both.max_age_has_precedence", Implies(K5, Iff(r, want)))   # was KF-C54-5 (fixed in /repo: Max-Age is read first)
    vc.ensure("both.decided_by_expires_when_max_age_is_unusable", Implies(Not(is_lenient_number(vc, text)), Iff(r, _le(vc, exp_ts, now))))


def _le(vc, ts, now):
    if vc.mode == "native":
        return ts <= now
    import z3
    return SBool(z3.ToReal(ts.t) <= now.t)


# =============================================================================================
# T2 (bounded): the real StickyCookie addon on response/request histories against an executable RFC 6265 reference

ASSUMPTIONS = [
    "T1 domain_match: host and Domain attribute are canonical ASCII lower-case text (RFC 6265 canonicalises both before matching), so str.lower() is the identity; case-insensitivity is exercised in T2 only",
    "T1 domain_match: Domain attribute non-empty after removing one leading dot (RFC 6265 5.2.3: empty value => attribute ignored / undefined)",
    "http.cookiejar.is_HDN is interpreted from the standard library's source (not trusted); re.Pattern.search for its IPV4_RE (r'\\.\\d+$', re.ASCII) is the SMT regular-language membership translated from CPython's own parse tree",
    "T1 is_expired: Max-Age attribute value is ASCII; email.utils.parsedate_tz / mktime_tz are scripted (unparsable, or a date with symbolic timestamp); the two clock reads inside is_expired are less than a second apart; Python's int() leniency (sign '+', blanks, underscores) is left open",
    "T1 response/request: stickycookie.domain_match and path_match are arbitrary predicates with recorded arguments (their contracts are the scenarios domain_match / path_match); Set-Cookie parsing (Response.cookies), cookies.is_expired, flowfilter.match and cookies.format_cookie_header are abstracted (exercised for real in T2)",
    "all histories: the jar invariant 'an entry (domain, port, path) -> {name: value} was stored by a response whose ckey is that triple and whose host passed domain_match' is established by scenario response (one parsed cookie per call; the loop body treats each cookie independently) and used entry-wise by scenario request (the loop body treats each jar entry independently, so two entries with symbolic keys stand for any number)",
    "T1 parse_set_cookie_header.folded: the real parser (parse_set_cookie_header, _read_set_cookie_pairs, _read_key, _read_value) is interpreted on a table of 7 concrete comma-folded Set-Cookie lines (flag attributes before the comma, a comma inside an Expires date, three cookies, one cookie) - a table, not a for-all-strings proof: the character loops over a symbolic line are out of the engine's reach; more shapes (288 folded lines x 4 requests) are enumerated in T2",
    "T1 request: jar with two entries (2 + 1 cookies) and symbolic keys; request target ASCII; the cookie path of a cookie without Path attribute is '/' (mitmproxy's choice; RFC 6265 5.1.4 default-path would be the directory of the setting request's path)",
]


def _ref_is_ip(h):
    import ipaddress
    try:
        ipaddress.ip_address(h)
        return True
    except ValueError:
        return False


def ref_domain_match(host, domain_attr):
    """RFC 6265 §5.1.3 / §5.2.3. domain_attr None: host-only cookie (identical host)."""
    h = host.lower()
    if domain_attr is None:
        return None
    d = domain_attr.lower()
    if d.startswith("."):
        d = d[1:]
    if not d:
        return None        # undefined: not judged
    return h == d or (h.endswith("." + d) and not _ref_is_ip(h))


def ref_path_match(target, cookie_path):
    r = target.split("?", 1)[0]
    c = cookie_path
    return r == c or (r.startswith(c) and (c.endswith("/") or r[len(c):len(c) + 1] == "/"))


def _domain_defect(host, dattr):
    """which recorded defect class explains a domain match that RFC 6265 does not grant"""
    h, d = host.lower(), dattr.lower()
    d1 = d[1:] if d.startswith(".") else d
    if h == d.strip(".") and h != d1:
        return "sticky.domain_match.overstripped_dots"
    if ("." + d1) in h and not h.endswith("." + d1):
        return "sticky.domain_match.inner_substring"
    return None


def bounded(tier, seed):
    import asyncio
    import itertools
    import random

    from mitmproxy import http
    from mitmproxy.addons import stickycookie
    from mitmproxy.test import taddons, tflow, tutils

    b = Bounded()
    hosts = ["example.com", "a.example.com", "x.example.com.evil.org", "xexample.com", "www.example.community", "10.0.0.1", "EXAMPLE.com", "evil.org"]
    ports = [80, 8080]
    targets = ["/", "/foo", "/foo/bar", "/foobar", "/foo?x=1", "/fo"]
    dattrs = [None, "example.com", ".example.com", "a.example.com", ".evil.org", ".example.com.", "..example.com", ".0.1", ".Example.COM", "10.0.0.1"]
    pattrs = [None, "/", "/foo", "/foo/"]
    expiries = [None, "Expires=Thu, 01 Jan 1970 00:00:00 GMT", "Max-Age=0", "Max-Age=3600", "Max-Age=-1", "Max-Age=soon", "Max-Age=-0",
                "Expires=Fri, 01 Jan 2100 00:00:00 GMT; Max-Age=0"]      # RFC 6265 5.3 step 3: Max-Age wins => expired
    LIVE = (None, "Max-Age=3600", "Max-Age=soon")      # RFC 6265 5.2.2: a non-numeric Max-Age is ignored; <= 0 expires now
    b.rule = ("histories [response(host, port, target, Set-Cookie(name, value, Domain?, Path?, Expires/Max-Age?)) x 1..2, request(host, port, target)] on the real "
              "StickyCookie addon (filter '.*'), judged by an executable RFC 6265 reference: stored only if Domain matches the responding host, expired removed, "
              "attached only to requests that domain-, port- and path-match a live origin; host-only cookies only to the identical host; converse for plain host names; "
              "distinct = history; non-trivial = some cookie is attached or refused for a related host")
    b.bound = f"hosts {len(hosts)} x ports {len(ports)} x targets {len(targets)} x Domain {len(dattrs)} x Path {len(pattrs)} x expiry {len(expiries)}; <= 2 responses + 1 request"
    rnd = random.Random(seed)

    def set_cookie(name, value, dattr, pattr, exp):
        s = f"{name}={value}"
        if dattr is not None:
            s += f"; Domain={dattr}"
        if pattr is not None:
            s += f"; Path={pattr}"
        if exp is not None:
            s += f"; {exp}"
        return s

    resp_specs = list(itertools.product(hosts, ports, dattrs, pattrs, expiries))
    req_specs = list(itertools.product(hosts, ports, targets))
    histories = []
    # (1) one response, one request
    one = [([r], q) for r in resp_specs for q in req_specs]
    rnd.shuffle(one)
    histories += one[: (6000 if tier == "quick" else 120000)]
    # (2) set, then a second response (expire / overwrite / unrelated) from a related host, then request
    second = [r for r in resp_specs if r[0] in ("example.com", "a.example.com", "x.example.com.evil.org") and r[2] in (None, ".example.com", "example.com")]
    first = [r for r in resp_specs if r[4] in LIVE and r[0] in ("example.com", "a.example.com") and r[2] in (None, ".example.com", "example.com")]
    two = [([r1, r2], q) for r1 in first for r2 in second for q in req_specs if q[0] in ("example.com", "a.example.com", "xexample.com")]
    rnd.shuffle(two)
    histories += two[: (3000 if tier == "quick" else 60000)]
    b.exhaustive = False

    async def run():
        sc = stickycookie.StickyCookie()
        with taddons.context(sc) as tctx:
            tctx.configure(sc, stickycookie=".*")
            for resps, (qhost, qport, qtarget) in histories:
                sc.jar.clear()
                live = []      # origins: dict(name, value, host, port, dattr, path, key)
                inp = {"responses": [], "request": [qhost, qport, qtarget]}
                nontrivial = False
                for i, (host, port, dattr, pattr, exp) in enumerate(resps):
                    name, value = "c", f"v{i}"
                    hdr = set_cookie(name, value, dattr, pattr, exp)
                    inp["responses"].append([host, port, hdr])
                    f = tflow.tflow(req=tutils.treq(host=host, port=port, path=b"/set"), resp=tutils.tresp(headers=http.Headers([(b"set-cookie", hdr.encode())])))
                    before = {k: dict(v) for k, v in sc.jar.items()}
                    sc.response(f)
                    key = (dattr if dattr is not None else host, port, pattr if pattr is not None else "/")
                    after = {k: dict(v) for k, v in sc.jar.items()}
                    stored = after.get(key, {}).get(name) == value
                    expired = exp not in LIVE
                    ok = True if dattr is None else ref_domain_match(host, dattr)      # True / False / None (undefined)
                    if ok is False:
                        # RFC 6265 5.3 step 6: the cookie is ignored entirely (neither stored nor used to delete)
                        if after != before:
                            nontrivial = True
                            b.fail(_domain_defect(host, dattr) or "sticky.foreign_domain_cookie_ignored", inp, f"jar {before} -> {after}")
                    elif expired:
                        if name in after.get(key, {}):
                            undotted = dattr is not None and not dattr.startswith(".") and host.lower() != dattr.lower()
                            both = exp.startswith("Expires=") and "Max-Age" in exp
                            b.fail("sticky.expired_cookie_removed.undotted_domain_from_subdomain[KF-C54-4]" if undotted else
                                   "sticky.expired_cookie_removed.max_age_overridden_by_expires" if both else "sticky.expired_cookie_removed", inp, f"jar[{key}] = {after[key]}")
                        if key in after and not after[key]:
                            b.fail("sticky.empty_entry_dropped", inp, f"jar keeps empty entry {key}")
                    elif ok is True and not stored and (dattr is None or (dattr.startswith(".") and not _ref_is_ip(host.lower()) and host.lower() != dattr.lower().strip("."))):
                        b.fail("sticky.stored_when_domain_matches", inp, f"not stored under {key}")
                    if {k: v for k, v in after.items() if k != key} != {k: v for k, v in before.items() if k != key}:
                        b.fail("sticky.other_entries_untouched", inp, f"jar {before} -> {after}")
                    # follow the code's jar for the origin bookkeeping (deviations were reported above)
                    live = [o for o in live if not (o["key"] == key and o["name"] == name and after.get(key, {}).get(name) != o["value"])]
                    if stored:
                        live.append(dict(name=name, value=value, host=host, port=port, dattr=dattr, path=key[2], key=key))
                q = tflow.tflow(req=tutils.treq(host=qhost, port=qport, path=qtarget.encode()))
                sc.request(q)
                got = q.request.headers.get("cookie", "")
                pairs = [tuple(p.split("=", 1)) for p in got.split("; ")] if got else []
                for name, value in pairs:
                    origins = [o for o in live if o["name"] == name and o["value"] == value]
                    if not origins:
                        b.fail("sticky.attached_cookie_has_live_origin", inp, f"Cookie: {got}")
                        continue

                    def judge(o):
                        dm = (qhost.lower() == o["host"].lower()) if o["dattr"] is None else ref_domain_match(qhost, o["dattr"])
                        return dm is not False, qport == o["port"], ref_path_match(qtarget, o["path"])

                    if any(all(judge(o)) for o in origins):
                        nontrivial = True
                        continue
                    nontrivial = True
                    o = origins[0]
                    dm, pm_port, pm = judge(o)
                    if not pm_port:
                        b.fail("sticky.attached_only_to_same_port", inp, f"Cookie: {got}")
                    elif not dm:
                        cls = _domain_defect(qhost, o["dattr"]) if o["dattr"] is not None else None
                        b.fail(cls or ("sticky.host_only_cookie_only_to_identical_host" if o["dattr"] is None else "sticky.attached_only_if_domain_matches"), inp, f"Cookie: {got}")
                    else:
                        bare = qtarget.startswith(o["path"])
                        b.fail("sticky.path_match.bare_prefix" if bare else "sticky.attached_only_if_path_matches", inp, f"Cookie: {got} (cookie path {o['path']})")
                # converse (sanity): a live origin that matches by RFC 6265 (host-only identical host, or dotted Domain) is attached
                for o in live:
                    hostlike = not _ref_is_ip(qhost.lower())
                    dm = (qhost.lower() == o["host"].lower()) if o["dattr"] is None else (o["dattr"].startswith(".") and hostlike and ref_domain_match(qhost, o["dattr"]) is True and qhost.lower() != o["dattr"].lower().strip("."))
                    if dm and qport == o["port"] and ref_path_match(qtarget, o["path"]) and (o["name"], o["value"]) not in pairs:
                        b.fail("sticky.attached_when_matching", inp, f"Cookie: {got!r}, live {o}")
                if bool(pairs) != bool(q.metadata.get("stickycookie")):
                    b.fail("sticky.metadata_flag", inp, f"metadata={q.metadata}")
                b.case((tuple(resps), qhost, qport, qtarget), nontrivial=nontrivial)

    asyncio.run(run())
    asyncio.run(_bounded_multi_set_cookie(b))
    return b


async def _bounded_multi_set_cookie(b):
    """responses carrying several Set-Cookie fields, also of the same name (re-scoping / deleting a cookie in one response)"""
    import itertools

    from mitmproxy import http
    from mitmproxy.addons import stickycookie
    from mitmproxy.test import taddons, tflow, tutils

    expire_forms = ["Max-Age=0", "Max-Age=-1", "Expires=Thu, 01 Jan 1970 00:00:00 GMT"]
    sc = stickycookie.StickyCookie()
    with taddons.context(sc) as tctx:
        tctx.configure(sc, stickycookie=".*")
        fields = [("new", "/app", None), ("new", "/", None), ("new", None, None)] + [("gone", pth, ex) for pth in ("/", "/app", None) for ex in expire_forms]
        for first_path in (None, "/", "/app"):
            for f1, f2 in itertools.permutations(fields, 2):
                for other_first in (False, True):
                    sc.jar.clear()
                    ref = {}       # (name, path) -> value, per RFC 6265 5.3 processed field by field (host example.com:80 throughout)

                    def apply(name, value, path, exp):
                        k = (name, path if path is not None else "/")
                        if exp is not None:
                            ref.pop(k, None)
                        else:
                            ref[k] = value

                    def resp(cookies):
                        hdrs = [(b"set-cookie", (f"{n}={v}" + (f"; Path={p_}" if p_ is not None else "") + (f"; {e}" if e else "")).encode()) for n, v, p_, e in cookies]
                        f = tflow.tflow(req=tutils.treq(host="example.com", port=80, path=b"/set"), resp=tutils.tresp(headers=http.Headers(hdrs)))
                        sc.response(f)
                        for n, v, p_, e in cookies:
                            apply(n, v, p_, e)

                    resp([("sid", "old", first_path, None)])
                    second = [("sid", f1[0], f1[1], f1[2]), ("sid", f2[0], f2[1], f2[2])]
                    if other_first:
                        second.insert(0, ("other", "x", None, None))
                    resp(second)
                    inp = {"first": ["sid=old", first_path], "second": [list(map(str, c)) for c in second]}
                    b.case(("multi", first_path, f1, f2, other_first))
                    for target in ("/", "/app/x"):
                        q = tflow.tflow(req=tutils.treq(host="example.com", port=80, path=target.encode()))
                        sc.request(q)
                        got = q.request.headers.get("cookie", "")
                        pairs = sorted(tuple(x.split("=", 1)) for x in got.split("; ")) if got else []
                        want = sorted((n, v) for (n, pth), v in ref.items() if ref_path_match(target, pth))
                        if pairs != want:
                            b.fail("sticky.every_set_cookie_field_of_a_response_processed", dict(inp, request=target), f"Cookie: {got!r}, expected {want}")
        # several cookies folded into ONE Set-Cookie line, value-less attributes (Secure, HttpOnly) in any position: each stored
        # cookie's domain and path come from its own attributes only
        import itertools as _it
        flagsets = [[], ["HttpOnly"], ["Secure", "HttpOnly"]]
        scopes = [(None, None), (".example.com", "/app"), (".example.com", None), (None, "/app")]
        for (d1, p1), (d2, p2) in _it.product(scopes, repeat=2):
            for fl1, fl2 in _it.product(flagsets, repeat=2):
                for flags_last in (True, False):
                    def one(n, v, dom, pth, flags):
                        attrs = ([f"Domain={dom}"] if dom else []) + ([f"Path={pth}"] if pth else [])
                        attrs = attrs + flags if flags_last else flags + attrs
                        return "; ".join([f"{n}={v}"] + attrs)
                    line = one("sid", "secret", d1, p1, fl1) + ", " + one("track", "1", d2, p2, fl2)
                    sc.jar.clear()
                    f = tflow.tflow(req=tutils.treq(host="example.com", port=80, path=b"/set"), resp=tutils.tresp(headers=http.Headers([(b"set-cookie", line.encode())])))
                    sc.response(f)
                    b.case(("folded", line))
                    ck = [("sid", "secret", d1, p1 or "/"), ("track", "1", d2, p2 or "/")]
                    for qhost, target in (("example.com", "/"), ("example.com", "/app/x"), ("a.example.com", "/"), ("a.example.com", "/app/x")):
                        q = tflow.tflow(req=tutils.treq(host=qhost, port=80, path=target.encode()))
                        sc.request(q)
                        got = q.request.headers.get("cookie", "")
                        pairs = sorted(tuple(x.split("=", 1)) for x in got.split("; ")) if got else []
                        want = sorted((n, v) for n, v, dom, pth in ck
                                      if (qhost == "example.com" if dom is None else ref_domain_match(qhost, dom)) and ref_path_match(target, pth))
                        if pairs != want:
                            b.fail("sticky.folded_set_cookie_line_each_cookie_keeps_its_own_scope", {"set_cookie": line, "request": [qhost, target]}, f"Cookie: {got!r}, expected {want}")
