"""C54 — sticky cookies are only sent to hosts and paths they belong to.

Specification written from RFC 6265:
  §5.2.3  cookie-domain = Domain attribute value without ONE leading ".", lower-cased
  §5.1.3  string s domain-matches domain d  <=>  s == d  or  (s ends with "." ++ d  and  s is a host name, not an IP address)
  §5.1.4  request-path r path-matches cookie-path c  <=>  r == c  or  (c is a prefix of r  and  (c ends with "/"  or  r[len(c)] == "/"))
"""
from pyvc.api import *
from props.prelude import *

CLAIM = "proof"
M = "mitmproxy.addons.stickycookie"
HTTP_ROOT = ["/root/.pyenv/versions/3.12.1/lib/python3.12/http"]


# ---------------------------------------------------------------------------------------------
# regular languages used by the specification, usable in both modes: (python regex, z3 regex builder)

def _z3():
    import z3
    return z3


def rx(vc, s, name):
    """s in LANG[name]"""
    pat, build = LANG[name]
    if vc.mode == "native" or not is_sym(s):
        import re
        return re.fullmatch(pat, s, re.S) is not None
    z3 = _z3()
    return SBool(z3.InRe(s.t, build(z3)))


def _d(z3):
    return z3.Range("0", "9")


def _lit(z3, c):
    return z3.Re(z3.StringVal(c))


def _ip4(z3):
    return z3.Concat(z3.Plus(_d(z3)), _lit(z3, "."), z3.Plus(_d(z3)), _lit(z3, "."), z3.Plus(_d(z3)), _lit(z3, "."), z3.Plus(_d(z3)))


def _ip6(z3):
    h = z3.Union(_d(z3), z3.Range("a", "f"), _lit(z3, ":"))
    return z3.Concat(z3.Star(h), _lit(z3, ":"), z3.Star(h), z3.Option(_ip4(z3)))


def _ldh(z3):
    return z3.Union(_d(z3), z3.Range("a", "z"), _lit(z3, "-"))


def _hostname(z3):
    # dot-separated non-empty LDH labels whose last label is not all-numeric (a DNS host name, not an address)
    label = z3.Plus(_ldh(z3))
    last = z3.Concat(z3.Star(_ldh(z3)), z3.Union(z3.Range("a", "z"), _lit(z3, "-")), z3.Star(_ldh(z3)))
    return z3.Concat(z3.Star(z3.Concat(label, _lit(z3, "."))), last)


LANG = {
    # textual IPv4 address (over-approximation: any four dot-separated digit groups)
    "ip4": (r"\d+\.\d+\.\d+\.\d+", _ip4),
    # textual IPv6 address (over-approximation: hex digits and colons with at least one colon, optional dotted-quad tail)
    "ip6": (r"[0-9a-f:]*:[0-9a-f:]*(\d+\.\d+\.\d+\.\d+)?", _ip6),
    "hostname": (r"([0-9a-z-]+\.)*[0-9a-z-]*[a-z-][0-9a-z-]*", _hostname),
}
# re.ASCII for \d in the python patterns
LANG = {k: (p.replace(r"\d", "[0-9]"), b) for k, (p, b) in LANG.items()}


def lower_(vc, s):
    """str.lower(): in proof mode the uninterpreted function the engine uses for it"""
    if vc.mode == "native" or not is_sym(s):
        return s.lower()
    from pyvc import lib
    z3 = _z3()
    return SStr(lib.uf("lower", z3.StringSort(), z3.StringSort())(s.t))


def cookie_domain(b):
    """RFC 6265 §5.2.3: drop one leading dot"""
    return If(startswith(b, "."), b[1:], b)


def is_ip(vc, a):
    return Or(rx(vc, a, "ip4"), rx(vc, a, "ip6"))


def spec_domain_match(vc, a, d):
    """RFC 6265 §5.1.3 on canonicalised (lower-case) strings: host string a, cookie-domain d"""
    return Or(a == d, And(endswith(a, "." + d), Not(is_ip(vc, a))))


DM_OPTS = dict(extra_inline_roots=HTTP_ROOT, exact_search=True, strip_facts=True, rfind_uf=True)
DM_FUNCS = [M + ":domain_match", "http.cookiejar:domain_match", "http.cookiejar:is_HDN"]


def K_inner(a, d):
    """KF-C54-1: the cookie domain occurs inside the host name but not at its end (rfind instead of a suffix test)"""
    return And(contains(a, "." + d), Not(endswith(a, "." + d)), a != d)


def _call_dm(vc, a, b):
    out = vc.call(M + ":domain_match", a, b)
    vc.ensure("no_exception", out.ok)
    if not out.ok:
        return None
    r = out.result
    vc.ensure("result_is_bool", isinstance(r, (bool, SBool)))
    if not isinstance(r, (bool, SBool)):
        return None
    return r


@scenario("domain_match.wellformed", functions=DM_FUNCS, **DM_OPTS)
def s_dm(vc):
    """Domain attribute = optional leading dot ++ d, d non-empty without leading/trailing dot; canonical (lower-case) inputs
    (the general case is reduced to this one by scenario domain_match.case_insensitive)."""
    a = vc.sym_str("a")
    d = vc.sym_str("d")
    lead = vc.case("leading_dot", ["", "."])
    b = lead + d
    vc.assume(lower_(vc, a) == a)
    vc.assume(lower_(vc, b) == b)
    vc.assume(len_(d) > 0)     # RFC 6265 §5.2.3: empty Domain attribute value => behaviour undefined / attribute ignored
    vc.assume(And(Not(startswith(d, ".")), Not(endswith(d, "."))))
    r = _call_dm(vc, a, b)
    if r is None:
        return
    vc.ensure_kf("sound.suffix_or_equal", Implies(r, Or(a == d, endswith(a, "." + d))), "KF-C54-1", K_inner(a, d))
    vc.ensure("sound.not_an_ipv4_address", Implies(And(r, a != d), Not(rx(vc, a, "ip4"))))
    vc.ensure("sound.not_an_ipv6_address", Implies(And(r, a != d), Not(rx(vc, a, "ip6"))))
    # non-vacuity (not demanded by the statement): ordinary host names match themselves and their dotted parent domains
    host_like = And(rx(vc, a, "hostname"), rx(vc, d, "hostname"))
    if lead == ".":
        vc.ensure("complete.dotted_domain", Implies(And(host_like, Or(a == d, endswith(a, "." + d))), r))
    else:
        vc.ensure("complete.equal_host", Implies(a == d, r))


@scenario("domain_match.malformed_domain", functions=DM_FUNCS, **DM_OPTS)
def s_dm_mal(vc):
    """Domain attribute values with further leading dots or trailing dots (not a valid domain-value, RFC 6265 §4.1.1)."""
    a = vc.sym_str("a")
    b = vc.sym_str("b")
    vc.assume(lower_(vc, a) == a)
    vc.assume(lower_(vc, b) == b)
    d = cookie_domain(b)
    vc.assume(len_(d) > 0)
    vc.assume(Or(startswith(d, "."), endswith(d, ".")))
    r = _call_dm(vc, a, b)
    if r is None:
        return
    # KF-C54-3: b.strip(".") removes more than the one leading dot (further leading dots, trailing dots)
    K3 = And(a == strip_dots(vc, b), a != d)
    vc.ensure_kf("sound.rfc_domain_match", Implies(And(r, Not(K_inner(a, d))), spec_domain_match(vc, a, d)), "KF-C54-3", K3)


def strip_dots(vc, b):
    if vc.mode == "native" or not is_sym(b):
        return b.strip(".")
    from pyvc import lib
    z3 = _z3()
    return SStr(lib.uf("strip_'.'", z3.StringSort(), z3.StringSort())(b.t))
