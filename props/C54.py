"""C54 — sticky cookies are only sent to hosts and paths they belong to (exploration draft)."""
from pyvc.api import *
from props.prelude import *

CLAIM = "proof"
M = "mitmproxy.addons.stickycookie"
HTTP_ROOT = ["/root/.pyenv/versions/3.12.1/lib/python3.12/http"]


@scenario("domain_match", functions=[M + ":domain_match"], extra_inline_roots=HTTP_ROOT)
def s_dm(vc):
    a = vc.sym_str("a")
    b = vc.sym_str("b")
    out = vc.call(M + ":domain_match", a, b)
    vc.ensure("no_exception", out.ok)
