"""C07 — Body size limits are enforced and streamed bodies are relayed exactly.

T1 contracts (per event; the whole-message clauses are sums of these per-event postconditions):
  parse_size                      size grammar of the two options
  HttpStream.check_body_size      full functional contract: abort / switch to streaming / no-op, for request and response,
                                  early (size from the head) and late (size = bytes buffered so far)
  state_consume_{request,response}_body (Data)   buffer grows by exactly the chunk, then the check: memory invariant
  state_stream_{request,response}_body (Data, EndOfMessage)   exact in-order relay after the stream transformation,
                                  bytes kept iff store_streamed_bodies
  state_errored                   after an abort nothing more is emitted for the flow
"""
from pyvc.api import *
from props.prelude import *
from props.httpstream import *

CLAIM = "other"
EXPLANATION = ("T1 proves, for every input of each event handler, the complete functional contract of HttpStream.check_body_size (abort before "
               "stream; early/late; request/response), the buffering invariant len(buf) <= limit after every *Data event (hence limit + one chunk "
               "at any time), exact in-order emission of SendHttp(*Data) for streamed bodies incl. addon transformations, and store_streamed_bodies; "
               "parse_size is proved against the size grammar. What the peer finally receives on the wire is the composition with the HTTP/1 "
               "writers (C01) and h11, which is only checked bounded here (T2: sizes around the thresholds x all chunkings x CL/chunked x both "
               "directions x option combinations x addon stream callables) - a defect found there (KF-C07-1, empty chunk framed as the chunked terminator) was repaired in /repo by fix 62e806aee.")
ASSUMPTIONS = [
    "body_size_limit / stream_large_bodies are None or strings accepted by parse_size with a non-negative value (Proxyserver.configure rejects "
    "anything parse_size rejects; negative sizes such as '-1' are accepted there but are outside this contract); inside the HttpStream "
    "contracts parse_size is replaced by its summary (string -> int), parse_size itself has its own contract",
    "int(s) for a non-digit string (sign, underscores, surrounding whitespace, non-ASCII digits) is an uninterpreted partial function (CPython's "
    "grammar); parse_size is proved exact for plain ASCII-digit strings with/without unit and total (raises only ValueError)",
    "CPython fact: over the alphabet of ASCII letters, digits and '.,:/' int(x) succeeds iff x is a non-empty digit string (the exact "
    "grammar contract parse_size.grammar is stated over that alphabet; parse_size.total covers all strings)",
    "functools.lru_cache on parse_size is transparent",
    "expected_http_body_size (C01's contract) is summarised: it returns None, an arbitrary int, or raises ValueError",
    "buffering states are entered only after the early check_body_size on the head passed; addons do not change the framing headers between "
    "the headers hook and the first body chunk (otherwise an empty first chunk re-runs the early check on the edited head)",
    "Layer.handle_event on a non-paused layer runs _handle_event(event) and passes its commands upward (C04's contract); used for the "
    "re-entrant self.handle_event(...) in check_body_size",
    "an addon's stream callable is an arbitrary function returning bytes or a list of at most 3 chunks with arbitrary contents (lists of any "
    "length are exercised by T2 only); it has no access to the layer",
    "whole-message claims (memory bound over a body, exact relay of a body) are the sum over the event sequence of the per-event postconditions "
    "proved here: induction on the number of *Data events with invariant len(buf) <= L (buffering) resp. relayed == concat(f(d_i)) (streaming)",
]

PS = "mitmproxy.utils.human:parse_size"
EBS = "mitmproxy.net.http.http1.read:expected_http_body_size"
EBS_AT_USE = "mitmproxy.proxy.layers.http:expected_http_body_size"
UNITS = {"b": 1024 ** 0, "k": 1024 ** 1, "m": 1024 ** 2, "g": 1024 ** 3, "t": 1024 ** 4}


# ---------------------------------------------------------------------------------------------
# parse_size

def _digits(vc, s):
    """s is a non-empty string of ASCII digits"""
    if vc.mode == "native":
        return len(s) > 0 and all(c in "0123456789" for c in s)
    import z3
    return SBool(z3.InRe(s.t, z3.Plus(z3.Range("0", "9"))))


def _to_int(vc, s):
    if vc.mode == "native":
        return int(s)
    import z3
    return SInt(z3.StrToInt(s.t))


def _int_ok(vc, s):
    """int(s) succeeds (CPython's grammar; uninterpreted for non-digit strings in proof mode)"""
    if vc.mode == "native":
        try:
            int(s)
            return True
        except ValueError:
            return False
    import z3
    from pyvc import lib
    return Or(_digits(vc, s), SBool(lib.uf("int_parsable_nondigit", z3.StringSort(), z3.BoolSort())(s.t)))


ALNUM = "0123456789abcdefghijklmnopqrstuvwxyzABCDEFGHIJKLMNOPQRSTUVWXYZ.,:/"


@scenario("parse_size.total", functions=[PS])
def s_parse_size_total(vc):
    """every str (any alphabet) either yields an int or raises ValueError; None yields None"""
    is_none = vc.case("arg", ["none", "str"]) == "none"
    s = None if is_none else vc.sym_str("s")
    out = vc.call(PS, s)
    if is_none:
        vc.ensure("none.returns_none", out.ok and isnone(out.result))
        return
    vc.ensure("total.only_value_error", out.ok or issubclass(out.raised_type(), ValueError))
    vc.ensure("total.result_is_int", (not out.ok) or isa(out.result, int))


@scenario("parse_size.grammar", functions=[PS])
def s_parse_size(vc):
    """exact grammar over the alphabet ALNUM (ASCII letters, digits, '.', ',', ':', '/'): there int(x) succeeds iff x is a
    non-empty digit string (CPython fact, trusted: signs, '_', whitespace and non-ASCII digits are outside the alphabet)"""
    s = vc.sym_str("s")
    if vc.mode == "sym":
        import z3
        from pyvc import lib
        vc.assume(SBool(z3.InRe(s.t, z3.Star(z3.Union(z3.Range("0", "9"), z3.Range("a", "z"), z3.Range("A", "Z"), z3.Re(","), z3.Re("."), z3.Re("/"), z3.Re(":"))))))
        np = lib.uf("int_parsable_nondigit", z3.StringSort(), z3.BoolSort())
        vc.assume(SBool(z3.Not(np(s.t))))
        vc.assume(SBool(z3.Not(np(s[0:len_(s) - 1].t))))
        vc.assume(SBool(z3.Not(np(s[:-1].t))))
    else:
        vc.assume(all(c in ALNUM for c in s))
    n = len_(s)
    head, last = s[:-1], s[n - 1:n]
    shape = vc.case("shape", ["digits"] + ["unit:" + u for u in UNITS] + ["other"])
    unit_shape = {u: And(n >= 2, last == u, _digits(vc, head)) for u in UNITS}
    if shape == "digits":
        vc.assume(_digits(vc, s))
    elif shape.startswith("unit:"):
        vc.assume(unit_shape[shape[5:]])
        vc.assume(Not(_digits(vc, s)))          # (implied: the last character is a letter; stated to keep path exploration cheap)
    else:
        vc.assume(And(Not(_digits(vc, s)), *[Not(c) for c in unit_shape.values()]))
    out = vc.call(PS, s)
    vc.ensure("total.only_value_error", out.ok or issubclass(out.raised_type(), ValueError))
    if shape == "digits":
        vc.ensure("decimal.accepted", out.ok)
        if out.ok:
            vc.ensure("decimal.value", out.result == _to_int(vc, s))
        return
    if shape.startswith("unit:"):
        u = shape[5:]
        vc.ensure(f"unit.{u}.accepted", out.ok)
        if out.ok:
            vc.ensure(f"unit.{u}.value", out.result == _to_int(vc, head) * UNITS[u])
        return
    # everything else is rejected (over this alphabet int() accepts digit strings only)
    vc.ensure("reject.otherwise", Not(out.ok))


# ---------------------------------------------------------------------------------------------
# check_body_size

def setup_limits(vc, limit_set, thresh_set):
    """options body_size_limit / stream_large_bodies: None or a non-empty string accepted by parse_size; parse_size itself is
    under its own contract (scenario parse_size) and summarised here as string -> int (L for the limit, S for the threshold)."""
    limit = vc.sym_str("limit_opt") if limit_set else None
    thresh = vc.sym_str("thresh_opt") if thresh_set else None
    L = vc.sym_int("L", lo=0)
    S = vc.sym_int("S", lo=0)
    if limit_set:
        vc.assume(len_(limit) > 0)
    if thresh_set:
        vc.assume(len_(thresh) > 0)

    def parse_size(v, s):
        s = v.resolve(s)
        if isnone(s):
            return v.lift(None)
        if s is limit:
            return v.lift(L)
        if s is thresh:
            return v.lift(S)
        raise AssertionError("parse_size called with something that is not one of the two options")

    vc.summary(PS, parse_size)
    return limit, thresh, L, S


def setup_expected(vc, split=True):
    """expected_http_body_size summarised: None | int | raises ValueError, an arbitrary function of the heads
    (split=False: the head is not consulted on these paths - obligation late.head_not_consulted - so one case suffices)"""
    kind = vc.case("expected", ["int", "none", "invalid"]) if split else "int"
    E = vc.sym_int("E")
    calls = []

    def ebs(v, request, response=None):
        calls.append((request, response))
        if kind == "invalid":
            v.raise_(ValueError, "invalid content-length")
        return v.lift(None if kind == "none" else E)

    vc.summary(EBS, ebs)
    vc.summary(EBS_AT_USE, ebs)     # natively the name is looked up in HttpStream's module
    return kind, E, calls


def conn_reply(vc, server2, fails, errmsg):
    """environment answer to GetHttpConnection: (connection, None) or (None, error)"""
    return (None, errmsg) if vc.branch(fails) else (server2, None)


def check_abort(vc, tag, out, st, flow, client, server, request, early, error_seen_at_hook, pre_cs, pre_ss):
    """obligations for 'the body is known to exceed body_size_limit' (statement clause 1)"""
    from mitmproxy.proxy.layers.http._events import ErrorCode
    tr = out.trace
    k = kinds(tr)
    exp = ([("HttpRequestHeadersHook" if request else "HttpResponseHeadersHook")] if early else []) + ["HttpErrorHook", "Send(ResponseProtocolError)"] + ([] if request else ["Send(RequestProtocolError)"])
    vc.ensure(tag + ".trace", k == exp)
    if k != exp:
        return
    i = 1 if early else 0
    vc.ensure(tag + ".hooks_carry_flow", all(c.flow is flow for c in tr[:i + 1]))
    vc.ensure(tag + ".error_set_before_error_hook", error_seen_at_hook == [True])
    vc.ensure(tag + ".flow_error", not isnone(flow.error) and isa(flow.error, _cls("mitmproxy.flow:Error")))
    vc.ensure(tag + ".client_gets_error", And(tr[i + 1].connection is client, vc.eq(tr[i + 1].event.code, ErrorCode.REQUEST_TOO_LARGE if request else ErrorCode.RESPONSE_TOO_LARGE)))
    vc.ensure(tag + ".error_status", tr[i + 1].event.code.http_status_code() == (413 if request else 502) if vc.mode == "native" else True)
    if not request:
        vc.ensure(tag + ".server_stream_cancelled", And(tr[i + 2].connection is server, vc.eq(tr[i + 2].event.code, ErrorCode.RESPONSE_TOO_LARGE)))
    vc.ensure(tag + ".not_live", vc.eq(flow.live, False))
    vc.ensure(tag + ".client_state_errored", state_name(vc, st.client_state) == "state_errored")
    vc.ensure(tag + ".server_state", state_name(vc, st.server_state) == (pre_ss if request else "state_errored"))
    vc.ensure(tag + ".returns_true", vc.eq(out.result, True))
    vc.ensure(tag + ".stream_flag_untouched", And(vc.eq(flow.request.stream, False), request or vc.eq(flow.response.stream, False)))


def _cls(ref):
    from pyvc.vc import resolve_ref
    return resolve_ref(ref)[2]


@scenario("check_body_size", functions=[HS + ".check_body_size", HS + ".start_request_stream", HS + ".start_response_stream",
                                       HS + ".make_server_connection", HS + "._handle_event"])
def s_check_body_size(vc):
    request = vc.case("request", [True, False])
    late = vc.case("late", [False, True])
    limit_set = vc.case("limit_set", [True, False])
    thresh_set = vc.case("thresh_set", [True, False])
    limit, thresh, L, S = setup_limits(vc, limit_set, thresh_set)
    kind, E, calls = setup_expected(vc, split=not late)
    store = vc.sym_bool("store_streamed_bodies")
    buf = vc.sym_bytes("buf") if late else None
    if late:
        vc.assume(len_(buf) > 0)
    pre_cs = "state_consume_request_body" if (request and late) else ("state_wait_for_request_headers" if request else "state_done")
    pre_ss = "state_wait_for_response_headers" if (request and late) else ("state_uninitialized" if request else ("state_consume_response_body" if late else "state_wait_for_response_headers"))
    st, flow, client, server = mk_stream(vc, pre_cs, pre_ss, response=None if request else mk_response(vc),
                                         reqbuf=buf if request else None, respbuf=None if request else buf,
                                         stream_large_bodies=thresh, body_size_limit=limit, store_streamed_bodies=store)
    layer_handle_event_unpaused(vc)
    server2 = mk_server(vc, name="server2")
    fails = vc.sym_bool("connect_fails")
    errmsg = vc.sym_str("errmsg")
    vc.assume(len_(errmsg) > 0)
    error_seen = []

    def on_yield(cmd):
        if is_cmd(cmd, "GetHttpConnection"):
            return conn_reply(vc, server2, fails, errmsg)
        if is_cmd(cmd, "HttpErrorHook"):
            error_seen.append(not isnone(cmd.flow.error))
        return None

    out = vc.call(HS + ".check_body_size", st, request, on_yield=on_yield)
    vc.ensure("no_exception", out.ok)
    if not out.ok:
        return
    tr = out.trace
    k = kinds(tr)
    msg = flow.request if request else flow.response
    mybuf = st.request_body_buf if request else st.response_body_buf
    otherbuf = st.response_body_buf if request else st.request_body_buf
    vc.ensure("frame.other_buffer_untouched", len_(buf_bytes(vc, otherbuf)) == 0)
    # size known so far (statement: "from Content-Length or from the bytes buffered so far")
    if late:
        size_known, size = True, len_(buf)
        vc.ensure("late.head_not_consulted", calls == [])
    else:
        size_known, size = kind == "int", E
        if not limit_set and not thresh_set:
            pass
        else:
            vc.ensure("early.head_consulted_for_right_message", len(calls) == 1 and calls[0][0] is flow.request and (isnone(calls[0][1]) if request else calls[0][1] is flow.response))

    def unchanged(tag):
        vc.ensure(tag + ".no_output", k == [])
        vc.ensure(tag + ".returns_false", vc.eq(out.result, False))
        vc.ensure(tag + ".buffer_unchanged", buf_bytes(vc, mybuf) == (buf if late else b""))
        vc.ensure(tag + ".states_unchanged", state_name(vc, st.client_state) == pre_cs and state_name(vc, st.server_state) == pre_ss)
        vc.ensure(tag + ".flow_unchanged", And(isnone(flow.error), vc.eq(flow.live, True)))

    if not size_known:
        unchanged("unknown_size")
        vc.ensure("unknown_size.not_streamed", vc.eq(msg.stream, False))
        return
    if vc.branch(size <= 0):
        unchanged("no_body")
        vc.ensure("no_body.not_streamed", vc.eq(msg.stream, False))
        return
    if limit_set and vc.branch(size > L):
        check_abort(vc, "abort", out, st, flow, client, server, request, not late, error_seen, pre_cs, pre_ss)
        vc.ensure("abort.buffer_not_grown", buf_bytes(vc, mybuf) == (buf if late else b""))
        vc.ensure("abort.nothing_forwarded", not any(is_cmd(c, "GetHttpConnection") or is_send(c, "RequestHeaders") or is_send(c, "RequestData") or is_send(c, "ResponseHeaders") or is_send(c, "ResponseData") for c in tr))
        return
    if thresh_set and vc.branch(size > S):
        vc.ensure("stream.flag_set", vc.eq(msg.stream, True))
        vc.ensure("stream.returns_false", vc.eq(out.result, False))
        if not late:
            vc.ensure("stream.early.no_output", k == [])
            vc.ensure("stream.early.states_unchanged", state_name(vc, st.client_state) == pre_cs and state_name(vc, st.server_state) == pre_ss)
            vc.ensure("stream.early.flow_unchanged", And(isnone(flow.error), vc.eq(flow.live, True)))
            return
        kept = buf_bytes(vc, mybuf)
        if request:
            if vc.branch(fails):
                vc.ensure("stream.late.connfail.nothing_to_server", not any(is_send(c, None, server) or is_send(c, None, server2) for c in tr))
                vc.ensure("stream.late.connfail.error", And(not isnone(flow.error), vc.eq(flow.live, False)))
                vc.ensure("stream.late.connfail.error_hook_once", k.count("HttpErrorHook") == 1)
                vc.ensure("stream.late.connfail.client_state", state_name(vc, st.client_state) == "state_errored")
                vc.ensure("stream.late.connfail.buffer_released", len_(kept) == 0)
                return
            exp = ["GetHttpConnection", "Send(RequestHeaders)", "Log", "Send(RequestData)"]
            vc.ensure("stream.late.trace", k == exp)
            if k != exp:
                return
            vc.ensure("stream.late.headers", And(tr[1].connection is server2, tr[1].event.request is flow.request, vc.eq(tr[1].event.end_stream, False)))
            vc.ensure("stream.late.buffered_bytes_reemitted_once", And(tr[3].event.data == buf, tr[3].connection is server2))
            vc.ensure("stream.late.state", state_name(vc, st.client_state) == "state_stream_request_body" and state_name(vc, st.server_state) == pre_ss)
            vc.ensure("stream.late.server_conn_recorded", st.context.server is server2 and flow.server_conn is server2)
        else:
            exp = ["Send(ResponseHeaders)", "Log", "Send(ResponseData)"]
            vc.ensure("stream.late.trace", k == exp)
            if k != exp:
                return
            vc.ensure("stream.late.headers", And(tr[0].connection is client, tr[0].event.response is flow.response, vc.eq(tr[0].event.end_stream, False)))
            vc.ensure("stream.late.buffered_bytes_reemitted_once", And(tr[2].event.data == buf, tr[2].connection is client))
            vc.ensure("stream.late.state", state_name(vc, st.server_state) == "state_stream_response_body" and state_name(vc, st.client_state) == pre_cs)
        vc.ensure("stream.late.kept_iff_store", kept == If(store, buf, b""))
        vc.ensure("stream.late.flow_ok", And(isnone(flow.error), vc.eq(flow.live, True)))
        return
    unchanged("within_limits")
    vc.ensure("within_limits.not_streamed", vc.eq(msg.stream, False))


# ---------------------------------------------------------------------------------------------
# buffering: one *Data event

@scenario("consume_body.data", functions=[HS + ".state_consume_request_body", HS + ".state_consume_response_body", HS + ".check_body_size"])
def s_consume_data(vc):
    request = vc.case("request", [True, False])
    limit_set = vc.case("limit_set", [True, False])
    thresh_set = vc.case("thresh_set", [True, False])
    limit, thresh, L, S = setup_limits(vc, limit_set, thresh_set)
    empty = vc.case("buffer_empty", [False, True])
    kind, E, calls = setup_expected(vc, split=empty)
    buf = None if empty else vc.sym_bytes("buf")
    data = vc.sym_bytes("data")
    old = b"" if empty else buf
    if limit_set:
        vc.assume(len_(old) <= L)          # invariant of the buffering state (established by the previous event's postcondition)
    if thresh_set:
        vc.assume(len_(old) <= S)
    # the buffering state is only entered after the early check on the head passed, and the framing headers are unchanged since
    if kind == "int" and limit_set:
        vc.assume(Or(E <= 0, E <= L))
    if kind == "int" and thresh_set:
        vc.assume(Or(E <= 0, E <= S))
    pre_cs, pre_ss = ("state_consume_request_body", "state_wait_for_response_headers") if request else ("state_done", "state_consume_response_body")
    # the size check is due on EVERY chunk whatever the head says: the message may carry a Content-Length that does not frame it
    # (Transfer-Encoding: chunked + Content-Length with validation off, or a header added by an addon in the headers hook)
    hk = vc.case("message_headers", ["none", "content-length", "chunked+content-length", "chunked"])
    clv = vc.sym_bytes("declared_length")
    hf = {"none": [], "content-length": [(b"Content-Length", clv)], "chunked": [(b"transfer-encoding", b"chunked")],
          "chunked+content-length": [(b"Transfer-Encoding", b"chunked"), (b"content-length", clv)]}[hk]
    st, flow, client, server = mk_stream(vc, pre_cs, pre_ss, request=mk_request(vc, headers=mk_headers(vc, hf if request else [])),
                                         response=None if request else mk_response(vc, headers=mk_headers(vc, hf)),
                                         reqbuf=buf if request else None, respbuf=None if request else buf,
                                         stream_large_bodies=thresh, body_size_limit=limit, store_streamed_bodies=False)
    layer_handle_event_unpaused(vc)
    server2 = mk_server(vc, name="server2")

    def on_yield(cmd):
        if is_cmd(cmd, "GetHttpConnection"):
            return (server2, None)
        return None

    event = ev(vc, "RequestData" if request else "ResponseData", data=data)
    fn = HS + (".state_consume_request_body" if request else ".state_consume_response_body")
    out = vc.call(fn, st, event, on_yield=on_yield)
    vc.ensure("no_exception", out.ok)
    if not out.ok:
        return
    mybuf = st.request_body_buf if request else st.response_body_buf
    held = buf_bytes(vc, mybuf)
    k = kinds(out.trace)
    total = len_(old) + len_(data)
    aborted = "HttpErrorHook" in k
    streaming = state_name(vc, st.client_state if request else st.server_state) in ("state_stream_request_body", "state_stream_response_body")
    # memory: whatever happens, the layer never holds more than what it held before plus this one chunk ...
    vc.ensure("memory.at_most_old_plus_chunk", len_(held) <= total)
    if limit_set:
        vc.ensure("memory.limit_plus_chunk", len_(held) <= L + len_(data))
        # ... and it keeps buffering only while the total stays within the limit
        vc.ensure("limit.abort_iff_exceeded", Iff(total > L, aborted) if not (thresh_set and False) else True)
        if not aborted and not streaming:
            vc.ensure("limit.invariant_reestablished", len_(held) <= L)
    else:
        vc.ensure("nolimit.never_aborts", not aborted)
    if aborted:
        vc.ensure("abort.client_gets_error", any(is_send(c, "ResponseProtocolError", client) for c in out.trace))
        vc.ensure("abort.errored", And(state_name(vc, st.client_state) == "state_errored", vc.eq(flow.live, False), not isnone(flow.error)))
        vc.ensure("abort.body_not_forwarded", not any(is_send(c, "RequestData") or is_send(c, "ResponseData") or is_send(c, "RequestHeaders") or is_send(c, "ResponseHeaders") for c in out.trace))
        return
    if thresh_set:
        vc.ensure("threshold.streams_iff_exceeded", Iff(And(total > S, total > 0), streaming))
    else:
        vc.ensure("nothreshold.keeps_buffering", not streaming)
    if streaming:
        sends = [c for c in out.trace if is_send(c, "RequestData" if request else "ResponseData")]
        vc.ensure("switch.reemits_everything_once_in_order", And(len(sends) == 1, sends[0].event.data == old + data if sends else False))
        vc.ensure("switch.buffer_released", len_(held) == 0)
    else:
        vc.ensure("buffered.exactly_appended", held == old + data)
        vc.ensure("buffered.no_output", k == [])
        if thresh_set:
            vc.ensure("threshold.invariant_reestablished", len_(held) <= S)


@scenario("state_errored.silent", functions=[HS + "._handle_event", HS + ".state_errored"])
def s_errored_silent(vc):
    """after an abort (client_state / server_state errored) no later body event of that direction produces any output"""
    kind = vc.case("event", ["RequestData", "RequestEndOfMessage", "RequestTrailers", "ResponseData", "ResponseEndOfMessage", "ResponseTrailers"])
    request = kind.startswith("Request")
    st, flow, client, server = mk_stream(vc, "state_errored", "state_uninitialized" if request else "state_errored",
                                         response=None if request else mk_response(vc), live=False, error=mk_error(vc, "too large"),
                                         reqbuf=vc.sym_bytes("held"))
    f = {}
    if kind.endswith("Data"):
        f["data"] = vc.sym_bytes("data")
    if kind.endswith("Trailers"):
        f["trailers"] = mk_headers(vc)
    out = vc.call(HS + "._handle_event", st, ev(vc, kind, **f))
    vc.ensure("no_exception", out.ok)
    vc.ensure("no_output", len(out.trace) == 0)
    vc.ensure("buffer_not_grown", buf_bytes(vc, st.request_body_buf) == vc.sym_bytes("held") if vc.mode == "native" else len(st.request_body_buf._chunks.items) == 1)
    vc.ensure("still_errored", state_name(vc, st.client_state) == "state_errored")


# ---------------------------------------------------------------------------------------------
# streaming: exact relay

class StreamFn:
    """an addon's stream callable (abstract): see stream_call"""

    def __call__(self, data):
        return stream_call(self, data)


def stream_call(fn, data):  # summarised in every scenario
    raise NotImplementedError


class OneShot:
    """a one-shot iterable (what a generator-returning stream callable hands back): its chunks can be iterated exactly once"""

    def __init__(self, items):
        self.items = items

    def __iter__(self):
        r = self.items
        self.items = []
        return iter(r)


def setup_stream_callable(vc, mode):
    """mode: True (plain streaming) | 'bytes' | 'list0'..'list3' (callable returning bytes / a list of k chunks) | 'oneshot2' (callable
    returning a one-shot iterable of 2 chunks, e.g. a generator: it can be consumed only once)"""
    calls, results = [], []
    if mode is True:
        return True, calls, results

    def call(v, fn, data):
        calls.append(data)
        n = len(calls)
        if mode == "bytes":
            r = v.fresh_bytes(f"out{n}")
            results.append([r])
            return v.lift(r)
        k = int(mode[-1])
        chunks = [v.fresh_bytes(f"out{n}_{i}") for i in range(k)]
        results.append(chunks)
        if mode.startswith("oneshot"):
            return v.new("props.C07:OneShot", items=v.list(chunks))
        return v.list(chunks)

    vc.summary("props.C07:stream_call", call)
    return vc.new("props.C07:StreamFn"), calls, results


STREAM_MODES = [True, "bytes", "list0", "list1", "list2", "list3", "oneshot2"]


@scenario("stream_body.data", functions=[HS + ".state_stream_request_body", HS + ".state_stream_response_body"])
def s_stream_data(vc):
    request = vc.case("request", [True, False])
    mode = vc.case("stream", STREAM_MODES)
    store = vc.sym_bool("store_streamed_bodies")
    fn, calls, results = setup_stream_callable(vc, mode)
    kept0 = vc.sym_bytes("kept_so_far")
    data = vc.sym_bytes("data")
    req = mk_request(vc, stream=fn if request else False)
    resp = None if request else mk_response(vc, stream=fn)
    pre_cs, pre_ss = ("state_stream_request_body", "state_wait_for_response_headers") if request else ("state_done", "state_stream_response_body")
    st, flow, client, server = mk_stream(vc, pre_cs, pre_ss, request=req, response=resp, reqbuf=kept0 if request else None,
                                         respbuf=None if request else kept0, store_streamed_bodies=store)
    event = ev(vc, "RequestData" if request else "ResponseData", data=data)
    out = vc.call(HS + (".state_stream_request_body" if request else ".state_stream_response_body"), st, event)
    vc.ensure("no_exception", out.ok)
    if not out.ok:
        return
    tr = out.trace
    expected = [data] if mode is True else (results[0] if results else None)
    if mode is not True:
        vc.ensure("transform.called_once_with_received_bytes", And(len(calls) == 1, calls[0] == data if calls else False))
        if len(calls) != 1:
            return
    dst = server if request else client
    vc.ensure("relay.one_send_per_chunk", len(tr) == len(expected) and all(is_send(c, "RequestData" if request else "ResponseData", dst) for c in tr))
    if len(tr) != len(expected):
        return
    for i, (c, e) in enumerate(zip(tr, expected)):
        vc.ensure(f"relay.chunk[{i}].exact_in_order", c.event.data == e)
    vc.ensure("relay.concat_exact", concat_all([c.event.data for c in tr], b"") == concat_all(expected, b""))
    mybuf = st.request_body_buf if request else st.response_body_buf
    vc.ensure("kept_iff_store", buf_bytes(vc, mybuf) == If(store, kept0 + concat_all(expected, b""), kept0))
    vc.ensure("state_unchanged", state_name(vc, st.client_state) == pre_cs and state_name(vc, st.server_state) == pre_ss)
    vc.ensure("flow_unaffected", And(isnone(flow.error), vc.eq(flow.live, True)))
    msg = flow.request if request else flow.response
    vc.ensure("content_not_set_yet", isnone(msg.data.content))


@scenario("stream_body.eom", functions=[HS + ".state_stream_request_body", HS + ".state_stream_response_body", HS + ".send_response", HS + ".flow_done"])
def s_stream_eom(vc):
    request = vc.case("request", [True, False])
    mode = vc.case("stream", STREAM_MODES)
    other_done = vc.case("other_side_done", [False, True]) if request else True
    store = vc.sym_bool("store_streamed_bodies")
    fn, calls, results = setup_stream_callable(vc, mode)
    kept0 = vc.sym_bytes("kept_so_far")
    req = mk_request(vc, stream=fn if request else False, content=b"" if not request else None)
    resp = mk_response(vc, stream=False if request else fn, content=b"resp" if request else None) if (not request or other_done) else None
    pre_cs = "state_stream_request_body" if request else "state_done"
    pre_ss = ("state_done" if other_done else "state_wait_for_response_headers") if request else "state_stream_response_body"
    st, flow, client, server = mk_stream(vc, pre_cs, pre_ss, request=req, response=resp, reqbuf=kept0 if request else None,
                                         respbuf=None if request else kept0, store_streamed_bodies=store)
    event = ev(vc, "RequestEndOfMessage" if request else "ResponseEndOfMessage")
    out = vc.call(HS + (".state_stream_request_body" if request else ".state_stream_response_body"), st, event)
    vc.ensure("no_exception", out.ok)
    if not out.ok:
        return
    tr = out.trace
    k = kinds(tr)
    dst = server if request else client
    flush = [] if mode is True else (results[0] if results else [])
    if mode is not True:
        vc.ensure("transform.flushed_once_with_empty", And(len(calls) == 1, calls[0] == b"" if calls else False))
    dk = "RequestData" if request else "ResponseData"
    hook = "HttpRequestHook" if request else "HttpResponseHook"
    vc.ensure("hook_once", k.count(hook) == 1)
    if k.count(hook) != 1:
        return
    hi = k.index(hook)
    datas = [c for c in tr if is_send(c, dk)]
    if mode == "bytes" and flush:
        # a bytes result b"" means "nothing to flush"
        r = flush[0]
        if vc.branch(len_(r) == 0):
            flush = []
    vc.ensure("flush.relayed_before_hook", len(datas) == len(flush) and all(tr.index(c) < hi and c.connection is dst for c in datas))
    if len(datas) != len(flush):
        return
    for i, (c, e) in enumerate(zip(datas, flush)):
        vc.ensure(f"flush.chunk[{i}].exact_in_order", c.event.data == e)
    msg = flow.request if request else flow.response
    mybuf = st.request_body_buf if request else st.response_body_buf
    total = kept0 + concat_all(flush, b"")
    if vc.branch(store):
        vc.ensure("store.content_is_all_relayed_bytes", And(not isnone(msg.data.content), msg.data.content == total if not isnone(msg.data.content) else False))
    else:
        vc.ensure("nostore.flow_keeps_nothing", isnone(msg.data.content))
        vc.ensure("nostore.buffer_untouched", buf_bytes(vc, mybuf) == kept0)
    if vc.branch(store):
        vc.ensure("store.buffer_released", len_(buf_bytes(vc, mybuf)) == 0)
    eom = [c for c in tr if is_send(c, "RequestEndOfMessage" if request else "ResponseEndOfMessage", dst)]
    vc.ensure("eom.forwarded_once_after_data", len(eom) == 1 and all(tr.index(c) < tr.index(eom[0]) for c in datas))
    vc.ensure("nothing_else_to_peer", not any(is_send(c, "RequestHeaders") or is_send(c, "ResponseHeaders") for c in tr))


# =============================================================================================
# T2 (bounded): the real HttpLayer (HTTP/1) driven sans-io around the thresholds, against an executable form of the statement

MARK = b"ABCDEFGHIJKLMNOPQRSTUVWXYZ"
ADDONS = ["none", "stream_true", "upper", "split2", "drop_first", "list_dup", "generator"]


def _transform(addon):
    state = {"n": 0}
    if addon == "upper":
        return lambda d: d.lower()
    if addon == "split2":
        return lambda d: [d[:1], d[1:]]
    if addon == "list_dup":
        return lambda d: [d, b"-", d] if d else []
    if addon == "generator":
        return lambda d: (x for x in (d[:1], d[1:]) if x)      # a generator: can be consumed only once
    if addon == "drop_first":
        def f(d):
            state["n"] += 1
            return b"" if state["n"] == 1 else d
        return f
    return None


def _spec(direction, framing, parts, L, S, addon):
    """expected outcome by the statement: ('abort', when, held_bound) | ('relay', expected_chunks, streamed, emits_empty)"""
    n = sum(len(p) for p in parts)
    known = n if framing == "cl" else None
    stream = None
    if known is not None and known > 0:
        if L is not None and known > L:
            return dict(kind="abort", when="early", bound=0)
        if S is not None and known > S:
            stream = True
    has_body_phase = not (framing == "cl" and n == 0)
    if addon != "none":
        stream = True if addon == "stream_true" else _transform(addon)
    if stream and has_body_phase:
        out, empty = [], False
        for p in parts:
            r = stream(p) if callable(stream) else p
            r = [r] if isinstance(r, bytes) else list(r)
            empty = empty or any(len(x) == 0 for x in r)
            out.extend(r)
        if callable(stream):
            r = stream(b"")
            r = [] if r == b"" else ([r] if isinstance(r, bytes) else list(r))
            empty = empty or any(len(x) == 0 for x in r)
            out.extend(r)
        return dict(kind="relay", chunks=out, streamed=True, emits_empty=empty, bound=0)
    cum = 0
    bound = 0
    for i, p in enumerate(parts):
        cum += len(p)
        if cum > 0 and L is not None and cum > L:
            return dict(kind="abort", when="late", bound=L + len(p))
        if cum > 0 and S is not None and cum > S:
            return dict(kind="relay", chunks=[b"".join(parts[:i + 1])] + [q for q in parts[i + 1:]], streamed=True, emits_empty=False, bound=S + len(p))
        bound = max(bound, cum)
    return dict(kind="relay", chunks=[b"".join(parts)], streamed=False, emits_empty=False, bound=bound)


def _compositions(body, maxparts):
    n = len(body)
    if n == 0:
        yield []
        return
    import itertools
    for k in range(1, min(maxparts, n) + 1):
        for cuts in itertools.combinations(range(1, n), k - 1):
            idx = (0,) + cuts + (n,)
            yield [body[idx[i]:idx[i + 1]] for i in range(k)]


def _run_case(direction, framing, parts, limit, thresh, store, addon, opts_cache):
    from props.http_sansio import Run, Ref, buffer_watermark, chunked
    body = b"".join(parts)
    key = (limit, thresh, store)
    fn = _transform(addon)

    def policy(name, flow, run):
        hook = "requestheaders" if direction == "request" else "responseheaders"
        if name == hook and addon != "none":
            msg = flow.request if direction == "request" else flow.response
            msg.stream = True if addon == "stream_true" else fn

    with buffer_watermark() as marks:
        both = framing == "chunked+cl"     # a Content-Length that does not frame the message (chunked wins); only accepted with validation off
        extra = (b"Content-Length: %d\r\n" % len(body)) if both else b""
        r = Run(policy, body_size_limit=limit, stream_large_bodies=thresh, store_streamed_bodies=store, validate_inbound_headers=not both)
        if direction == "request":
            head = b"POST http://example.com/ HTTP/1.1\r\nHost: example.com\r\n" + (b"Content-Length: %d\r\n\r\n" % len(body) if framing == "cl" else extra + b"Transfer-Encoding: chunked\r\n\r\n")
            r.feed_client(head)
            for p in parts:
                r.feed_client(p if framing == "cl" else b"%x\r\n%s\r\n" % (len(p), p))
            if framing != "cl":
                r.feed_client(b"0\r\n\r\n")
            if r.servers:
                r.feed_server(b"HTTP/1.1 204 No Content\r\n\r\n")   # no response body: only request bytes are ever buffered
        else:
            r.feed_client(b"GET http://example.com/ HTTP/1.1\r\nHost: example.com\r\n\r\n")
            head = b"HTTP/1.1 200 OK\r\n" + (b"Content-Length: %d\r\n\r\n" % len(body) if framing == "cl" else extra + b"Transfer-Encoding: chunked\r\n\r\n")
            r.feed_server(head)
            for p in parts:
                r.feed_server(p if framing == "cl" else b"%x\r\n%s\r\n" % (len(p), p))
            if framing != "cl":
                r.feed_server(b"0\r\n\r\n")
    return r, marks


def bounded(tier, seed):
    import random
    from props.http_sansio import Ref
    b = Bounded()
    b.rule = ("HTTP/1 exchange through the real HttpLayer, body of n marker bytes in the given direction, framed by Content-Length or chunked, delivered as every "
              "composition of n into <= k segments/chunks, for option combinations (body_size_limit, stream_large_bodies, store_streamed_bodies) and addon "
              "stream policies {none, stream=True, bytes->bytes callable, list-returning callables, callable returning b'' once}; n ranges over 0,1 and L-1..L+1, "
              "S-1..S+1; observed: buffer length after every append, bytes written to the peer (parsed by an independent HTTP/1 reader), hooks, flow.error, "
              "stored content. distinct = distinct (direction, framing, options, addon, composition); non-trivial = a limit/threshold is set or an addon streams")
    maxparts = 3 if tier == "quick" else 4
    configs = [(None, None), ("5", None), (None, "3"), ("5", "3"), ("3", "5"), ("1k", None)] if tier == "quick" else [(None, None), ("5", None), (None, "3"), ("5", "3"), ("3", "5"), ("4", "4"), ("1k", "1k"), ("0", None)]
    b.bound = f"bodies <= 1026 bytes (<= 7 bytes for exhaustive compositions), <= {maxparts} chunks, limits in {configs}"
    rnd = random.Random(seed)
    cases = []
    for direction in ("request", "response"):
        for framing in ("cl", "chunked", "chunked+cl"):
            for limit, thresh in configs:
                vals = [human_size(x) for x in (limit, thresh) if x is not None]
                sizes = {0, 1}
                for v in vals:
                    sizes.update({v - 1, v, v + 1})
                sizes = sorted(x for x in sizes if x >= 0) or [0, 1, 4]
                for n in sizes:
                    body = (MARK * (n // len(MARK) + 1))[:n]
                    comps = list(_compositions(body, maxparts)) if n <= 7 else [[body], [body[:1], body[1:]], [body[:-1], body[-1:]], [body[:n // 2], body[n // 2:]]]
                    for parts in comps:
                        for store in (False, True):
                            for addon in ADDONS:
                                cases.append((direction, framing, parts, limit, thresh, store, addon))
    if tier == "quick":
        rnd.shuffle(cases)
        cases = cases[:14000]
    for direction, framing, parts, limit, thresh, store, addon in cases:
        L = human_size(limit) if limit is not None else None
        S = human_size(thresh) if thresh is not None else None
        inp = dict(direction=direction, framing=framing, parts=[p.decode() for p in parts], body_size_limit=limit, stream_large_bodies=thresh,
                   store_streamed_bodies=store, addon=addon)
        exp = _spec(direction, framing, parts, L, S, addon)
        inp["emits_empty_chunk"] = bool(exp.get("emits_empty"))
        b.case(repr(sorted(inp.items())), nontrivial=(limit is not None or thresh is not None or addon != "none"))
        try:
            r, marks = _run_case(direction, framing, parts, limit, thresh, store, addon, None)
        except Exception as e:
            b.fail("c07.total", inp, f"raised {type(e).__name__}: {e}")
            continue
        body = b"".join(parts)
        flow = r.flows[0] if r.flows else None
        if flow is None:
            b.fail("c07.flow_seen", inp, "no hook fired")
            continue
        hooks = r.hooks_of(flow)
        peer_bytes = r.to_all_servers() if direction == "request" else r.to_client()
        held = max([m[0] for m in marks], default=0)
        msg = flow.request if direction == "request" else flow.response
        if exp["kind"] == "abort":
            if "error" not in hooks or flow.error is None or flow.live:
                b.fail("c07.abort.flow_ends_with_error", inp, f"hooks={hooks} error={flow.error} live={flow.live}")
            if "response" in hooks:
                b.fail("c07.abort.no_response_hook", inp, f"hooks={hooks}")
            cm = Ref.read_message(r.to_client(), False)
            want = b"413" if direction == "request" else b"502"
            if cm is None or want not in cm[0]:
                b.fail("c07.abort.client_receives_error", inp, f"client got {r.to_client()[:80]!r}")
            leaked = [bytes([c]) for c in set(body) if bytes([c]) in (peer_bytes if direction == "request" else r.to_client().split(b"\r\n\r\n", 1)[0] + b"".join(r.to_client().split(b"\r\n\r\n")[2:]))]
            if direction == "request" and peer_bytes:
                b.fail("c07.abort.oversized_body_not_forwarded", inp, f"server got {peer_bytes[:80]!r}")
            if direction == "response" and cm is not None and b"200" in cm[0]:
                b.fail("c07.abort.oversized_body_not_forwarded", inp, f"client got {r.to_client()[:80]!r}")
            if held > exp["bound"]:
                b.fail("c07.memory.limit_plus_one_chunk", inp, f"held {held} > {exp['bound']}")
            continue
        # relayed (buffered or streamed)
        if "error" in hooks or flow.error is not None:
            b.fail("c07.relay.no_error", inp, f"hooks={hooks} error={flow.error}")
            continue
        expected = b"".join(exp["chunks"])
        m = Ref.read_message(peer_bytes, direction == "request")
        if m is None:
            b.fail("c07.relay.peer_gets_message", inp, f"peer got {peer_bytes[:80]!r}")
            continue
        start, hs, got_body, complete, rest = m
        raw_after_head = peer_bytes.split(b"\r\n\r\n", 1)[1]
        if direction == "request":
            # the scripted server answered; only the request bytes are of interest
            pass
        if framing == "cl":
            ok = raw_after_head == expected
        else:
            ok = got_body == expected and complete and rest == b""
        if not ok:
            # (the class 'transformation emits an empty chunk into a chunked HTTP/1 message' has its own check name: KF-C07-1)
            b.fail("c07.relay.peer_receives_exactly_transformed_bytes" + ("[empty chunk, chunked]" if exp["emits_empty"] and framing != "cl" else ""), inp, f"expected {expected!r}, peer stream after head {raw_after_head[:120]!r}")
        if exp["streamed"]:
            lim = exp["bound"] if not store else None
            if lim is not None and held > lim:
                b.fail("c07.stream.not_buffered", inp, f"held {held} > {lim}")
            kept = msg.raw_content
            if store and kept != expected:
                b.fail("c07.stream.kept_iff_store", inp, f"store on, flow keeps {kept!r}, relayed {expected!r}")
            if not store and kept is not None:
                b.fail("c07.stream.kept_iff_store", inp, f"store off, flow keeps {kept!r}")
        else:
            if msg.raw_content != body:
                b.fail("c07.buffered.content", inp, f"flow content {msg.raw_content!r}")
            if held > exp["bound"]:
                b.fail("c07.memory.limit_plus_one_chunk", inp, f"held {held} > {exp['bound']}")
    # ---- an addon answered the request itself in requestheaders (e.g. proxyauth's 407): crossing stream_large_bodies later must not
    #      start streaming the request upstream (the late switch in check_body_size -> start_request_stream)
    from mitmproxy import http as _http
    from props.http_sansio import Run
    for framing in ("cl", "chunked"):
        for limit, thresh in [(None, "3"), ("9", "3"), (None, "0")]:
            for also_stream in (False, True):
                for n in (0, 1, 3, 4, 6):
                    body = MARK[:n]
                    for parts in _compositions(body, maxparts):
                        inp = dict(case="addon_response", framing=framing, parts=[p.decode() for p in parts], body_size_limit=limit, stream_large_bodies=thresh,
                                   second_addon_streams=also_stream)
                        b.case(repr(sorted(inp.items())))

                        def policy(name, flow, run):
                            if name == "requestheaders":
                                flow.response = _http.Response.make(407, b"auth required", {})
                                if also_stream:
                                    flow.request.stream = True

                        r = Run(policy, body_size_limit=limit, stream_large_bodies=thresh)
                        refused = []
                        steps = [b"POST http://example.com/ HTTP/1.1\r\nHost: example.com\r\n" + (b"Content-Length: %d\r\n\r\n" % n if framing == "cl" else b"Transfer-Encoding: chunked\r\n\r\n")]
                        steps += [p if framing == "cl" else b"%x\r\n%s\r\n" % (len(p), p) for p in parts] + ([b"0\r\n\r\n"] if framing == "chunked" else [])
                        bad = None
                        for d in steps:
                            try:
                                r.feed_client(d)
                            except NotImplementedError as e:      # the unchanged tree refuses 'response set + request streaming'; the server loop logs it and goes on
                                refused.append(str(e))
                            except Exception as e:
                                if refused:
                                    refused.append(f"{type(e).__name__} (stream wedged after the refusal)")   # observation, see report; still nothing may be forwarded
                                    continue
                                bad = f"{type(e).__name__}: {e}"
                                break
                        if bad:
                            b.fail("c07.addon_response.total", inp, bad)
                            continue
                        if r.servers or r.to_all_servers():
                            b.fail("c07.addon_response.request_not_forwarded", inp, f"{len(r.servers)} upstream connection(s) opened, upstream got {r.to_all_servers()[:100]!r}")
    # ---- keep-alive: the over-limit message is NOT the first exchange on the client connection (1 or 2 completed exchanges before it);
    #      the client must still receive the 413 / 502 error for it
    for direction in ("request", "response"):
        for framing in ("cl", "chunked"):
            for prior in (1, 2):
                for n in (6, 9):
                    body = MARK[:n]
                    for parts in _compositions(body, 2):
                        inp = dict(case="keepalive", direction=direction, framing=framing, completed_exchanges_before=prior, parts=[p.decode() for p in parts], body_size_limit="5")
                        b.case(repr(sorted(inp.items())))
                        r = Run(None, body_size_limit="5")
                        try:
                            for i in range(prior):
                                r.feed_client(b"GET http://example.com/first%d HTTP/1.1\r\nHost: example.com\r\n\r\n" % i)
                                r.feed_server(b"HTTP/1.1 200 OK\r\nContent-Length: 0\r\n\r\n")
                            c_off, s_off = len(r.to_client()), len(r.to_all_servers())
                            done_before = len([f for f in r.flows if "response" in r.hooks_of(f)])
                            if direction == "request":
                                r.feed_client(b"POST http://example.com/big HTTP/1.1\r\nHost: example.com\r\n" + (b"Content-Length: %d\r\n\r\n" % n if framing == "cl" else b"Transfer-Encoding: chunked\r\n\r\n"))
                                for p_ in parts:
                                    r.feed_client(p_ if framing == "cl" else b"%x\r\n%s\r\n" % (len(p_), p_))
                            else:
                                r.feed_client(b"GET http://example.com/big HTTP/1.1\r\nHost: example.com\r\n\r\n")
                                r.feed_server(b"HTTP/1.1 200 OK\r\n" + (b"Content-Length: %d\r\n\r\n" % n if framing == "cl" else b"Transfer-Encoding: chunked\r\n\r\n"))
                                for p_ in parts:
                                    r.feed_server(p_ if framing == "cl" else b"%x\r\n%s\r\n" % (len(p_), p_))
                        except Exception as e:
                            b.fail("c07.keepalive.total", inp, f"{type(e).__name__}: {e}")
                            continue
                        if done_before != prior:
                            b.fail("c07.keepalive.prior_exchanges_completed", inp, f"{done_before} of {prior}")
                            continue
                        cli = r.to_client()[c_off:]
                        want = b"HTTP/1.1 413" if direction == "request" else b"HTTP/1.1 502"
                        if not cli.startswith(want):
                            b.fail("c07.keepalive.client_receives_error", inp, f"after {prior} completed exchange(s) the client got {cli[:60]!r} for the over-limit {direction}")
                        fl = r.flows[-1]
                        if "error" not in r.hooks_of(fl) or fl.live or fl.error is None:
                            b.fail("c07.keepalive.flow_ends_with_error", inp, f"hooks={r.hooks_of(fl)} live={fl.live}")
                        if direction == "request" and r.to_all_servers()[s_off:]:
                            b.fail("c07.keepalive.oversized_body_not_forwarded", inp, f"server got {r.to_all_servers()[s_off:][:60]!r}")
    # ---- the request carried `Expect: 100-continue` (mitmproxy answers it with an interim 100 itself): an over-limit message later in
    #      the same exchange must still end with the error response at the client (was KF-C07-2, fixed in a3a04ce5f)
    for direction in ("request", "response"):
        for framing in ("cl", "chunked"):
            if direction == "request" and framing == "cl":
                continue    # aborted at the headers, before the interim response
            for parts in _compositions(MARK[:6], 2):
                inp = dict(case="expect-100-continue", direction=direction, framing=framing, parts=[p.decode() for p in parts], body_size_limit="3")
                b.case(repr(sorted(inp.items())))
                r = Run(None, body_size_limit="3")
                try:
                    if direction == "request":
                        r.feed_client(b"POST http://example.com/ HTTP/1.1\r\nHost: example.com\r\nExpect: 100-continue\r\nTransfer-Encoding: chunked\r\n\r\n")
                        for p_ in parts:
                            r.feed_client(b"%x\r\n%s\r\n" % (len(p_), p_))
                    else:
                        r.feed_client(b"POST http://example.com/ HTTP/1.1\r\nHost: example.com\r\nExpect: 100-continue\r\nContent-Length: 2\r\n\r\n")
                        r.feed_client(b"ab")
                        r.feed_server(b"HTTP/1.1 200 OK\r\n" + (b"Content-Length: 6\r\n\r\n" if framing == "cl" else b"Transfer-Encoding: chunked\r\n\r\n"))
                        for p_ in parts:
                            r.feed_server(p_ if framing == "cl" else b"%x\r\n%s\r\n" % (len(p_), p_))
                except Exception as e:
                    b.fail("c07.expect100.total", inp, f"{type(e).__name__}: {e}")
                    continue
                cli = r.to_client()
                interim = b"HTTP/1.1 100 Continue\r\n\r\n"
                after = cli[len(interim):] if cli.startswith(interim) else cli
                want = b"HTTP/1.1 413" if direction == "request" else b"HTTP/1.1 502"
                fl = r.flows[0]
                if "error" not in r.hooks_of(fl) or fl.live:
                    b.fail("c07.expect100.flow_ends_with_error", inp, f"hooks={r.hooks_of(fl)} live={fl.live}")
                if not after.startswith(want):
                    b.fail("c07.expect100.client_receives_error", inp, f"client got {cli[:80]!r} and a close; no {want.decode()[-3:]} error response")
    return b


def human_size(s):
    """independent reading of the size syntax (decimal with optional b/k/m/g/t suffix, powers of 1024)"""
    if s is None:
        return None
    mult = {"b": 1, "k": 1024, "m": 1024 ** 2, "g": 1024 ** 3, "t": 1024 ** 4}
    if s and s[-1] in mult and s[:-1].isdigit():
        return int(s[:-1]) * mult[s[-1]]
    return int(s)


# ---------------------------------------------------------------------------------------------
# HTTP/1 connection layer between exchanges: the error page for an over-limit body is written only `if not self.response`,
# so a finished exchange must leave no request/response behind (keep-alive: the over-limit message may be the n-th exchange)

H1S_ = "mitmproxy.proxy.layers.http._http1:Http1Server"
H1C_ = "mitmproxy.proxy.layers.http._http1:Http1Client"


@scenario("http1.mark_done.resets_exchange", functions=["mitmproxy.proxy.layers.http._http1:Http1Connection.mark_done", H1S_ + ".mark_done", H1S_ + ".send"])
def s_mark_done(vc):
    from mitmproxy.connection import ConnectionState
    from mitmproxy.proxy.layers.http._events import ErrorCode
    server_side = vc.case("layer", ["Http1Server", "Http1Client"]) == "Http1Server"
    ref = H1S_ if server_side else H1C_
    last = vc.case("completes", ["request", "response"])
    client = mk_client(vc)
    server = mk_server(vc, state=ConnectionState.OPEN, timestamp_start=2.0)
    ctx = mk_context(vc, client, server)
    conn = client if server_side else server
    sid = vc.sym_int("stream_id", lo=1)
    vc.summary("mitmproxy.net.http.http1.read:expected_http_body_size", lambda v, request, response=None: v.lift(vc.sym_int("E", lo=0)))
    lay = vc.new(ref, context=ctx, conn=conn, stream_id=sid, buf=vc.new("h11._receivebuffer:ReceiveBuffer", _data=b"", _next_line_search=0, _multiple_lines_search=0),
                 debug=None, _paused=None, _paused_event_queue=vc.deque([]), request=mk_request(vc), response=mk_response(vc, content=b""),
                 request_done=(last == "response"), response_done=(last == "request"))
    lay.state = vc.bound(lay, ref + ".read_body")
    out = vc.call(ref + ".mark_done", lay, request=(last == "request"), response=(last == "response"))
    vc.ensure("no_exception", out.ok)
    if not out.ok:
        return
    # keep-alive exchange (HTTP/1.1, no `Connection: close`, length-framed): ready for the next message, nothing left of this one
    vc.ensure("keepalive.no_output", len(out.trace) == 0)
    vc.ensure("keepalive.request_forgotten", isnone(lay.request))
    vc.ensure("keepalive.response_forgotten", isnone(lay.response))
    vc.ensure("keepalive.flags_reset", And(vc.eq(lay.request_done, False), vc.eq(lay.response_done, False)))
    vc.ensure("keepalive.next_stream", lay.stream_id == sid + 2 if server_side else isnone(lay.stream_id))
    vc.ensure("keepalive.reads_headers_next", state_name(vc, lay.state) == "read_headers")
    if server_side:
        # ... so that an error for the next exchange is written to the client as an error page
        err = vc.new(EV + "ResponseProtocolError", stream_id=lay.stream_id, message="Request body exceeds mitmproxy's body_size_limit.", code=ErrorCode.REQUEST_TOO_LARGE)
        vc.summary("mitmproxy.proxy.layers.http._http1:make_error_response", lambda v, status, message="": v.lift(b"HTTP/1.1 " + str(status.concrete() if hasattr(status, "concrete") else status).encode() + b" error page"))
        out2 = vc.call(H1S_ + ".send", lay, err)
        vc.ensure("next_exchange.error_send_ok", out2.ok)
        if out2.ok:
            k = trace_kinds(out2.trace)
            vc.ensure("next_exchange.error_page_then_close", k == ["SendData", "CloseConnection"])
            if k[:1] == ["SendData"]:
                vc.ensure("next_exchange.error_page_is_413", out2.trace[0].data == b"HTTP/1.1 413 error page")


@scenario("http1server.error_after_interim_response", functions=[H1S_ + ".send"])
def s_error_after_interim(vc):
    """the client must receive the error response for an aborted exchange also when an interim (1xx) response was written before
    (mitmproxy's own `100 Continue` for `Expect: 100-continue`)"""
    from mitmproxy.connection import ConnectionState
    from mitmproxy.proxy.layers.http._events import ErrorCode
    before = vc.case("written_before", ["nothing", "interim_100", "final_200", "switching_101"])
    interim = before == "interim_100"
    too_large = vc.case("error", ["REQUEST_TOO_LARGE", "RESPONSE_TOO_LARGE"])
    client = mk_client(vc)
    ctx = mk_context(vc, client, mk_server(vc, state=ConnectionState.OPEN, timestamp_start=2.0))
    lay = vc.new(H1S_, context=ctx, conn=client, stream_id=1, buf=vc.new("h11._receivebuffer:ReceiveBuffer", _data=b"", _next_line_search=0, _multiple_lines_search=0),
                 debug=None, _paused=None, _paused_event_queue=vc.deque([]), request=mk_request(vc, method=b"POST"), response=None, request_done=False, response_done=False)
    vc.summary("mitmproxy.net.http.http1.assemble:assemble_response_head", lambda v, response: v.lift(b"HTTP/1.1 100 Continue\r\n\r\n"))
    vc.summary("mitmproxy.net.http.http1:assemble_response_head", lambda v, response: v.lift(b"HTTP/1.1 100 Continue\r\n\r\n"))
    vc.summary("mitmproxy.proxy.layers.http._http1:make_error_response", lambda v, status, message="": v.lift(b"error page"))
    if interim:
        o1 = vc.call(H1S_ + ".send", lay, vc.new(EV + "ResponseHeaders", stream_id=1, response=mk_response(vc, status_code=100), end_stream=False))
        vc.ensure("interim.sent", o1.ok and trace_kinds(o1.trace) == ["SendData"])
    if before in ("final_200", "switching_101"):
        lay.response = mk_response(vc, status_code=200 if before == "final_200" else 101)
    err = vc.new(EV + "ResponseProtocolError", stream_id=1, message="body exceeds mitmproxy's body_size_limit.", code=getattr(ErrorCode, too_large))
    out = vc.call(H1S_ + ".send", lay, err)
    vc.ensure("no_exception", out.ok)
    if not out.ok:
        return
    k = trace_kinds(out.trace)
    if before in ("nothing", "interim_100"):
        vc.ensure("client_receives_error_page_then_close", k == ["SendData", "CloseConnection"])
    else:
        vc.ensure("nothing_follows_a_final_head_or_101", k == ["CloseConnection"])
    vc.ensure("connection_closed", k[-1:] == ["CloseConnection"])
