"""C13 — ClientHello parsing is total and independent of segmentation.

Reference (written from the RFCs, not from the code):
  TLSPlaintext (RFC 8446 §5.1 / RFC 5246 §6.2.1): type(1)=22 handshake, legacy_record_version(2) = 0x03 0x00..0x03, length(2), fragment.
  DTLSPlaintext (RFC 6347 §4.1): type(1)=22, version(2) = {254,255} DTLS 1.0 | {254,253} DTLS 1.2/1.3, epoch(2), sequence_number(6), length(2).
  Handshake (RFC 8446 §4): msg_type(1), length(3), body; a handshake message may span several records and zero-length handshake
  fragments are not allowed (§5.1).  DTLS handshake header (RFC 6347 §4.2.2): msg_type(1) length(3) message_seq(2)
  fragment_offset(3) fragment_length(3).
"""
from pyvc.api import *
from props.prelude import *

CLAIM = "other"
EXPLANATION = (
    "T1 proves the record layer and the buffering glue for all byte strings: handshake_record_contents / its DTLS twin as a step "
    "function for every offset (inductive), get_client_hello / get_dtls_client_hello against a reference reader (result = the first "
    "4+len bytes of the concatenated record payloads, None iff incomplete, ValueError iff a non-handshake or empty record comes first), "
    "stability under appended bytes and under truncation (so splitting across records and segments cannot change the result), "
    "parse_client_hello raises only ValueError, ClientTLSLayer.receive_handshake_data accumulates recv_buffer and is silent while the "
    "hello is incomplete. The unrolled scenarios cover hellos spanning up to 3 records (record sizes symbolic). Equality of SNI/ALPN/"
    "cipher suites/extensions with an independent RFC 8446 parser, hellos in many records, and the kaitai parser's totality are "
    "bounded (T2)."
)
ASSUMPTIONS = [
    "trusted library contract: constructing mitmproxy.tls.ClientHello (kaitai TlsClientHello/DtlsClientHello over the bytes) either returns or raises EOFError; checked bounded in T2 on mutated and random inputs",
    "get_client_hello / parse_client_hello / the relational scenarios unroll the record loop 3 times: hellos spanning more than 3 records are covered by the inductive step contract of handshake_record_contents and by T2 only",
    "L-SEG (paper lemma): (N) no-op on incomplete input with recv_buffer' = recv_buffer ++ data, plus (P)/(M) stability of get_client_hello under extension/truncation, give segmentation independence by induction on the number of segments",
    "ClientHello.sni / alpn_protocols (kaitai attribute walks, regex host validation) are out of T1 reach: compared with an independent parser in T2",
]
L = "mitmproxy.proxy.layers.tls"
N = "mitmproxy.net.tls"


# ---------------------------------------------------------------------------------------------
# record header predicates


@scenario("starts_like_tls_record", functions=[N + ":starts_like_tls_record"])
def s_tls_magic(vc):
    d = vc.sym_bytes("d")
    out = vc.call(N + ":starts_like_tls_record", d)
    vc.ensure("no_exception", out.ok)
    if not out.ok:
        return
    want = And(len_(d) >= 3, code_at(d, 0) == 22, code_at(d, 1) == 3, code_at(d, 2) <= 3) if vc.mode == "sym" or len(d) >= 3 else False
    vc.ensure("exact", Iff(vc.truthy(out.result) if vc.mode == "native" else out.result, want))


def dtls_version_ok(minor):
    # RFC 4347 §4.1: DTLS 1.0 = {254, 255}; RFC 6347 §4.1: DTLS 1.2 = {254, 253}; RFC 9147: legacy_record_version {254, 253}
    return Or(minor == 255, minor == 253)


@scenario("starts_like_dtls_record", functions=[N + ":starts_like_dtls_record"])
def s_dtls_magic(vc):
    d = vc.sym_bytes("d")
    out = vc.call(N + ":starts_like_dtls_record", d)
    vc.ensure("no_exception", out.ok)
    if not out.ok:
        return
    r = vc.truthy(out.result) if vc.mode == "native" else out.result
    short = len_(d) < 3
    if vc.branch(short):
        vc.ensure("short_is_rejected", Not(r))
        return
    vc.ensure("only_handshake_records_of_dtls", Implies(r, And(code_at(d, 0) == 22, code_at(d, 1) == 254)))
    vc.ensure("accepts_dtls_1_2", Implies(And(code_at(d, 0) == 22, code_at(d, 1) == 254, code_at(d, 2) == 253), r))
    vc.ensure_kf("accepts_dtls_1_0_record_version", Implies(And(code_at(d, 0) == 22, code_at(d, 1) == 254, code_at(d, 2) == 255), r),
                 "KF-C13-1", And(code_at(d, 0) == 22, code_at(d, 1) == 254, code_at(d, 2) == 255))


# ---------------------------------------------------------------------------------------------
# reference reader for the record layer (TLS: header 5, version check above; DTLS: header 13)


def hdr_ok(vc, data, off, dtls):
    """The record header at `off` (whole header available) is accepted.  The record readers are specified relative to the
    header predicates starts_like_tls_record / starts_like_dtls_record, which have their own contracts against the RFCs
    above (incl. KF-C13-1 for the DTLS 1.0 record version)."""
    if dtls:
        return vc.call(N + ":starts_like_dtls_record", sub(data, off, 13)).result
    return vc.call(N + ":starts_like_tls_record", sub(data, off, 5)).result


def sub(data, a, n):
    """data[a:a+n] for 0 <= a, a + n <= len(data) (no clamping needed; callers establish the bounds separately)"""
    if is_sym(data) or is_sym(a) or is_sym(n):
        import z3
        from pyvc.core import ssub, simp, _z, _zi
        return SBytes(simp(ssub(_z(data), simp(_zi(a)), simp(_zi(n)))))
    return data[a:a + n]


def be24(b, i):
    return code_at(b, i) * 65536 + code_at(b, i + 1) * 256 + code_at(b, i + 2)


def reference_hello(vc, data, dtls, max_records=2):
    """Reference reader. Returns ('incomplete',) | ('invalid',) | ('hello', pieces, need) | ('beyond',) following the
    contract's own branches (vc.branch) on the symbolic input; pieces = [(payload offset in data, payload size)] of the
    records read, need = length of the handshake message incl. its header (the hello is the first `need` bytes of the
    concatenated payloads)."""
    H = 13 if dtls else 5
    off = 0
    pieces = []
    total = 0
    for _ in range(max_records):
        if vc.branch(len_(data) < off + H):
            return ("incomplete",)
        if vc.branch(Not(hdr_ok(vc, data, off, dtls))):
            return ("invalid",)
        size = be16(data, off + H - 2)
        if vc.branch(size == 0):
            return ("invalid",)
        if vc.branch(len_(data) < off + H + size):
            return ("incomplete",)
        pieces.append((off + H, size))
        total = total + size
        off = off + H + size
        hl, lo = (13, 9) if dtls else (4, 1)
        if vc.branch(total >= hl):
            need = (acc_at(data, pieces, lo) * 65536 + acc_at(data, pieces, lo + 1) * 256 + acc_at(data, pieces, lo + 2)) + (12 if dtls else 4)
            if vc.branch(total >= need):
                return ("hello", pieces, need)
    return ("beyond",)


def acc_at(data, pieces, i):
    """byte i of the concatenation of the pieces of data (i within range)"""
    start, size = pieces[0]
    if len(pieces) == 1:
        return code_at(data, start + i)
    return If(i < size, code_at(data, start + i), acc_at(data, pieces[1:], i - size))


def native_concat(data, pieces):
    return b"".join(bytes(data[a:a + n]) for a, n in pieces)


def is_value_error(out):
    return out.raised is not None and issubclass(out.raised_type(), ValueError)


def check_against_reference(vc, out, ref, data, tag=""):
    vc.ensure(tag + "total.raises_only_ValueError", out.ok or is_value_error(out))
    if ref[0] == "incomplete":
        vc.ensure(tag + "incomplete.returns_None", out.ok and isnone(out.result))
    elif ref[0] == "invalid":
        vc.ensure(tag + "invalid.raises_ValueError", is_value_error(out))
    elif ref[0] == "hello":
        vc.ensure(tag + "complete.returns_hello", out.ok and not isnone(out.result))
        if out.ok and not isnone(out.result):
            same_bytes(vc, out.result, data, ref[1], ref[2], tag + "complete.")


def same_bytes(vc, r, data, pieces, need, tag):
    """r == first `need` bytes of the concatenated pieces: equal length and equal byte at every index (symbolic index i)"""
    if vc.mode == "native":
        vc.ensure(tag + "length", len(r) == need)
        vc.ensure(tag + "byte_at_every_index", bytes(r) == native_concat(data, pieces)[:need])
        return
    vc.ensure(tag + "length", len_(r) == need)
    i = vc.ex.fresh("int", "idx")
    vc.ensure(tag + "byte_at_every_index", Implies(And(i >= 0, i < need), code_at(r, i) == acc_at(data, pieces, i)))


for _dtls in (False, True):
    _fn = L + (":get_dtls_client_hello" if _dtls else ":get_client_hello")
    _gen = L + (":dtls_handshake_record_contents" if _dtls else ":handshake_record_contents")

    def _s_get(vc, _dtls=_dtls, _fn=_fn):
        data = vc.sym_bytes("data")
        out = vc.call(_fn, data)
        ref = reference_hello(vc, data, _dtls)
        if ref[0] == "beyond":
            return
        check_against_reference(vc, out, ref, data)

    scenario(("dtls." if _dtls else "tls.") + "get_client_hello.reference", functions=[_fn, _gen, N + (":starts_like_dtls_record" if _dtls else ":starts_like_tls_record")],
             lazy_generators=True, pc_slices=True, inbounds_lengths=True, max_unroll=2)(_s_get)

    def _s_prefix(vc, _dtls=_dtls, _fn=_fn):
        """(P) a complete hello is not changed by any bytes that follow (later records, the next segment)."""
        d = vc.sym_bytes("d")
        s = vc.sym_bytes("s")
        o1 = vc.call(_fn, d)
        vc.assume(o1.ok)
        if isnone(o1.result):
            return
        o2 = vc.call(_fn, d + s)
        vc.ensure("P.no_exception", o2.ok)
        if not o2.ok:
            return
        vc.ensure("P.still_complete", not isnone(o2.result))
        if not isnone(o2.result):
            vc.ensure("P.same_hello", o2.result == o1.result)

    scenario(("dtls." if _dtls else "tls.") + "get_client_hello.stable_under_extension", functions=[_fn, _gen], lazy_generators=True, pc_slices=True, inbounds_lengths=True, max_unroll=2)(_s_prefix)

    def _s_trunc(vc, _dtls=_dtls, _fn=_fn):
        """(M) a stream that is rejected stays rejected whatever follows; contrapositive: no prefix of a stream with a complete
        hello is ever rejected, i.e. every prefix is incomplete or (by (P)) already gives the same hello."""
        d = vc.sym_bytes("d")
        s = vc.sym_bytes("s")
        o1 = vc.call(_fn, d)
        if o1.ok:
            return
        vc.ensure("M.only_ValueError", is_value_error(o1))
        o2 = vc.call(_fn, d + s)
        vc.ensure("M.rejected_stays_rejected", is_value_error(o2))

    scenario(("dtls." if _dtls else "tls.") + "get_client_hello.rejection_stable_under_extension", functions=[_fn, _gen], lazy_generators=True, pc_slices=True, inbounds_lengths=True, max_unroll=2)(_s_trunc)


# ---------------------------------------------------------------------------------------------
# the record generator as a step function, for every offset (inductive: one arbitrary iteration of its loop)


def mk_step_scenario(dtls):
    gen = L + (":dtls_handshake_record_contents" if dtls else ":handshake_record_contents")
    H = 13 if dtls else 5

    def s_step(vc):
        data = vc.sym_bytes("data")
        state = {"env": None, "calls": 0, "o0": None}
        yields = []

        def inv(it, env, idx):
            state["calls"] += 1
            state["env"] = env
            off = env["offset"]
            if state["calls"] == 2:
                state["o0"] = off  # the havoced offset at the head of the arbitrary iteration
            if state["calls"] == 3:
                # end of an iteration that did not return/raise: exactly one record was yielded and the offset moved past it
                o0 = state["o0"]
                size = be16(data, o0 + H - 2)
                it.ex.obligation("step.yield.exactly_one", len(yields) == 1)
                if len(yields) == 1:
                    it.ex.obligation("step.yield.is_the_record_payload", yields[0] == data[o0 + H:o0 + H + size])
                it.ex.obligation("step.yield.only_complete_valid_nonempty_record", And(len_(data) >= o0 + H + size, hdr_ok(vc, data, o0, dtls), size > 0))
                it.ex.obligation("step.yield.offset_advances_past_record", off == o0 + H + size)
            return And(off >= 0, off <= len_(data))

        if vc.mode == "sym":
            vc.invariant(gen, 1, inv)
        out = vc.call(gen, data, on_yield=lambda v: yields.append(v))
        if vc.mode == "native":
            # natively the whole generator runs from offset 0: check the same step facts along the real run
            off = 0
            vc.ensure("native.total", out.ok or is_value_error(out))
            for y in yields:
                size = be16(data, off + H - 2)
                vc.ensure("native.step", y == data[off + H:off + H + size] and size > 0 and len(data) >= off + H + size)
                off += H + size
            return
        o0 = state["o0"]
        if o0 is None:
            return
        # the arbitrary iteration ended the generator
        vc.ensure("step.total.raises_only_ValueError", out.ok or is_value_error(out))
        vc.ensure("step.end.nothing_yielded", len(yields) == 0)
        if out.ok:
            size = be16(data, o0 + H - 2)
            vc.ensure("step.return.only_when_incomplete", Or(len_(data) < o0 + H, And(hdr_ok(vc, data, o0, dtls), size > 0, len_(data) < o0 + H + size)))
        else:
            size = be16(data, o0 + H - 2)
            vc.ensure("step.raise.only_on_bad_or_empty_record", And(len_(data) >= o0 + H, Or(Not(hdr_ok(vc, data, o0, dtls)), size == 0)))

    return scenario(("dtls." if dtls else "tls.") + "handshake_record_contents.step", functions=[gen])(s_step)


mk_step_scenario(False)
mk_step_scenario(True)


# ---------------------------------------------------------------------------------------------
# get_client_hello as an inductive machine over (offset, accumulated handshake bytes): one arbitrary iteration of the record
# loop *together with* the consumer's loop body (the generator is advanced lazily). Covers any number of records.


def complete(c, dtls):
    """the accumulated handshake bytes c contain a whole handshake message"""
    if dtls:
        return And(len_(c) >= 13, len_(c) >= be24(c, 9) + 12)
    return And(len_(c) >= 4, len_(c) >= be24(c, 1) + 4)


def header_predicate_uf(vc, d):
    import z3
    from pyvc import lib
    return SBool(lib.uf("record_header_accepted", z3.StringSort(), z3.BoolSort())(d.t))


def mk_machine_scenario(dtls):
    fn = L + (":get_dtls_client_hello" if dtls else ":get_client_hello")
    gen = L + (":dtls_handshake_record_contents" if dtls else ":handshake_record_contents")
    H = 13 if dtls else 5

    def s_machine(vc):
        if vc.mode == "native":
            return  # the unrolled twin (get_client_hello.reference) is the natively replayable form
        data = vc.sym_bytes("data")
        st = {"calls": 0, "o0": None, "c0": None}

        def consumer_locals(it):
            return it.frames[-2].locals

        def inv(it, env, idx):
            st["calls"] += 1
            off = env["offset"]
            c = consumer_locals(it)["client_hello"]
            if st["calls"] == 2:
                st["o0"], st["c0"] = off, c
            if st["calls"] == 3:
                # the iteration went round: a record was yielded, appended, and the hello is still incomplete
                o0, c0 = st["o0"], st["c0"]
                size = be16(data, o0 + H - 2)
                it.ex.obligation("machine.continue.record_valid_complete_nonempty", And(len_(data) >= o0 + H + size, hdr_ok(vc, data, o0, dtls), size > 0))
                it.ex.obligation("machine.continue.payload_appended_in_order", c == c0 + sub(data, o0 + H, size))
                it.ex.obligation("machine.continue.offset_past_record", off == o0 + H + size)
            # Inv: offset within data, accumulated bytes do not yet contain the whole message
            return And(off >= 0, off <= len_(data), Not(complete(c, dtls)))

        def havoc(it, env):
            # arbitrary accumulated bytes, case-split on how much of the handshake header they already contain, with the
            # header bytes as explicit integers (exhaustive: length 0..hl-1 exactly, or hl header bytes followed by anything)
            import z3
            hl = 12 if dtls else 4
            k = it.ex.choose(hl + 1, "acc_shape")
            parts = [z3.StrFromCode(it.fresh("int", f"acc_b{j}").t % 256) for j in range(k)]
            if k == hl:
                parts.append(it.fresh("bytes", "acc_rest").t)
            t = z3.StringVal("") if not parts else parts[0] if len(parts) == 1 else z3.Concat(*parts)
            consumer_locals(it)["client_hello"] = SBytes(t)

        inv.havoc = havoc
        vc.invariant(gen, 1, inv)
        # the header predicate has its own contract (above): here it is an uninterpreted predicate of the header bytes
        vc.summary(N + (":starts_like_dtls_record" if dtls else ":starts_like_tls_record"), header_predicate_uf)
        out = vc.call(fn, data)
        o0, c0 = st["o0"], st["c0"]
        if o0 is None:
            return
        vc.ensure("machine.total.raises_only_ValueError", out.ok or is_value_error(out))
        size = be16(data, o0 + H - 2)
        if not out.ok:
            vc.ensure("machine.raise.only_on_bad_or_empty_record", And(len_(data) >= o0 + H, Or(Not(hdr_ok(vc, data, o0, dtls)), size == 0)))
        elif isnone(out.result):
            vc.ensure("machine.none.only_when_next_record_incomplete", Or(len_(data) < o0 + H, And(hdr_ok(vc, data, o0, dtls), size > 0, len_(data) < o0 + H + size)))
        else:
            c1 = c0 + sub(data, o0 + H, size)
            vc.ensure("machine.hello.record_valid_complete_nonempty", And(len_(data) >= o0 + H + size, hdr_ok(vc, data, o0, dtls), size > 0))
            vc.ensure("machine.hello.only_when_complete", complete(c1, dtls))
            need = (be24(c1, 9) + 12) if dtls else (be24(c1, 1) + 4)
            vc.ensure("machine.hello.length", len_(out.result) == need)
            vc.ensure("machine.hello.is_prefix_of_accumulated_payloads", startswith(c1, out.result))

    return scenario(("dtls." if dtls else "tls.") + "get_client_hello.machine_step", functions=[fn, gen], lazy_generators=True, pc_slices=True, inbounds_lengths=True, z3_timeout_ms=1500)(s_machine)


mk_machine_scenario(False)
mk_machine_scenario(True)


# ---------------------------------------------------------------------------------------------
# parse_client_hello / dtls_parse_client_hello and the buffering in ClientTLSLayer.receive_handshake_data


def _cls(ref):
    from pyvc.vc import resolve_ref
    return resolve_ref(ref)[2]


def kaitai_contract(vc, CH, made):
    """Trusted contract of the kaitai-generated parser behind mitmproxy.tls.ClientHello(raw, dtls): it returns an object or
    raises EOFError -- nothing else (checked bounded in T2)."""
    def ctor(v, raw, dtls=False):
        made.append((raw, dtls))
        if v.branch(v.fresh_bool("kaitai_eof")):
            v.raise_(EOFError, "requested bytes not available")
        o = v.new(CH, _raw_bytes=raw, _client_hello=v.new("props.C13:NoExtensions"))
        made[-1] = (raw, dtls, o)
        return o
    return ctor


class NoExtensions:
    """a parsed hello without an `extensions` attribute (ClientHello.sni -> None, alpn_protocols -> [])"""


def raw_matches(vc, raw, data, pieces, need, skip, tag):
    """raw == (first `need` bytes of the concatenated pieces)[skip:]"""
    if vc.mode == "native":
        vc.ensure(tag + "exactly_the_hello_body", bytes(raw) == native_concat(data, pieces)[skip:need])
        return
    vc.ensure(tag + "body_length", len_(raw) == need - skip)
    i = vc.ex.fresh("int", "idx")
    vc.ensure(tag + "exactly_the_hello_body", Implies(And(i >= 0, i < need - skip), code_at(raw, i) == acc_at(data, pieces, i + skip)))


for _dtls in (False, True):
    _fn = L + (":dtls_parse_client_hello" if _dtls else ":parse_client_hello")

    def _s_parse(vc, _dtls=_dtls, _fn=_fn):
        CH = _cls("mitmproxy.tls:ClientHello")
        made = []
        vc.summary("mitmproxy.tls:ClientHello", kaitai_contract(vc, CH, made))
        data = vc.sym_bytes("data")
        out = vc.call(_fn, data)
        ref = reference_hello(vc, data, _dtls, max_records=1)
        if ref[0] == "beyond":
            return
        vc.ensure("total.raises_only_ValueError", out.ok or is_value_error(out))
        if ref[0] == "incomplete":
            vc.ensure("incomplete.returns_None_without_parsing", out.ok and isnone(out.result) and len(made) == 0)
        elif ref[0] == "invalid":
            vc.ensure("invalid_record.raises_ValueError_without_parsing", is_value_error(out) and len(made) == 0)
        else:
            vc.ensure("complete.parsed_once", len(made) == 1)
            if len(made) != 1:
                return
            raw_matches(vc, made[0][0], data, ref[1], ref[2], 12 if _dtls else 4, "complete.")
            vc.ensure("complete.dtls_flag", vc.eq(made[0][1], _dtls))
            if len(made[0]) == 2:
                vc.ensure("complete.parser_EOF_becomes_ValueError", is_value_error(out))
            else:
                vc.ensure("complete.returns_the_parsed_hello", out.ok and out.result is made[0][2])

    scenario(("dtls." if _dtls else "tls.") + "parse_client_hello", functions=[_fn], lazy_generators=True, pc_slices=True, inbounds_lengths=True, max_unroll=1)(_s_parse)


CT = L + ":ClientTLSLayer"


def mk_client_tls_layer(vc, buf, dtls):
    from mitmproxy.proxy.tunnel import TunnelState
    client = mk_client(vc, transport_protocol="udp" if dtls else "tcp")
    server = mk_server(vc, address=("example.com", 443))
    ctx = mk_context(vc, client, server, mk_options(vc))
    layer = vc.new(CT, context=ctx, conn=client, tunnel_connection=client, child_layer=None, recv_buffer=buf, client_hello_parsed=False,
                   server_tls_available=False, tunnel_state=TunnelState.ESTABLISHING, command_to_reply_to=None, _event_queue=vc.list([]),
                   debug=None, _paused=None, _paused_event_queue=None, tls=None)
    return layer, client, server, ctx


def _mk_recv(dtls):
    def s_recv(vc):
        """One DataReceived segment while waiting for the ClientHello: recv_buffer (incomplete so far) ++ data decides."""
        from mitmproxy.connection import ConnectionState
        from props.tlsstub import mk_ssl
        CH = _cls("mitmproxy.tls:ClientHello")
        made = []
        vc.summary("mitmproxy.tls:ClientHello", kaitai_contract(vc, CH, made))
        buf = vc.sym_bytes("recv_buffer")
        data = vc.sym_bytes("data")
        provide_tls = vc.case("addon_provides_ssl_conn", [False, True])
        layer, client, server, ctx = mk_client_tls_layer(vc, buf, dtls)
        server_hello = vc.sym_bytes("server_hello")
        vc.assume(len_(server_hello) > 0)
        ssl = mk_ssl(vc, outbox=[server_hello])
        hooks = []

        def on_yield(cmd):
            if is_cmd(cmd, "TlsClienthelloHook"):
                hooks.append(cmd)
            elif is_cmd(cmd, "TlsStartClientHook"):
                hooks.append(cmd)
                if provide_tls:
                    cmd.data.ssl_conn = ssl
            elif is_cmd(cmd, "CloseConnection"):
                cmd.connection.state = ConnectionState.CLOSED  # what the proxy server does with the command

        out = vc.call(CT + ".receive_handshake_data", layer, data, on_yield=on_yield)
        vc.ensure("total.no_exception", out.ok)
        if not out.ok:
            return
        whole = buf + data
        ref = reference_hello(vc, whole, dtls, max_records=1)
        if ref[0] == "beyond":
            return
        r = out.result
        kinds = trace_kinds(out.trace)
        if ref[0] == "incomplete":
            # (N) silent, buffer accumulates in order, still waiting
            vc.ensure("incomplete.result_not_done_no_error", And(vc.eq(r[0], False), isnone(r[1])))
            vc.ensure("incomplete.no_commands_no_hook", kinds == [] and len(made) == 0)
            vc.ensure("incomplete.buffer_accumulates_in_order", layer.recv_buffer == whole)
            vc.ensure("incomplete.still_waiting", vc.eq(layer.client_hello_parsed, False))
            vc.ensure("incomplete.sni_untouched", isnone(client.sni))
            return
        if ref[0] == "invalid" or len(made[0]) == 2:
            vc.ensure("invalid.reported_as_error", And(vc.eq(r[0], False), Not(isnone(r[1]))))
            if not isnone(r[1]):
                vc.ensure("invalid.error_text", startswith(r[1], "Cannot parse ClientHello"))
            vc.ensure("invalid.no_commands_no_hook", kinds == [])
            vc.ensure("invalid.not_parsed", vc.eq(layer.client_hello_parsed, False))
            return
        hello = made[0][2]
        vc.ensure("complete.parsed_flag", vc.eq(layer.client_hello_parsed, True))
        vc.ensure("complete.clienthello_hook_first", kinds[:1] == ["TlsClienthelloHook"])
        if kinds[:1] != ["TlsClienthelloHook"]:
            return
        vc.ensure("complete.hook_carries_parsed_hello_and_context", out.trace[0].data.client_hello is hello and out.trace[0].data.context is ctx)
        vc.ensure("complete.sni_and_alpn_from_hello", And(isnone(client.sni), len_(client.alpn_offers) == 0))
        if not provide_tls:
            vc.ensure("notls.trace", kinds == ["TlsClienthelloHook", "TlsStartClientHook", "Log", "CloseConnection"])
            vc.ensure("notls.error", And(vc.eq(r[0], False), vc.eq(r[1], "connection closed early")))
        else:
            # everything buffered so far (the hello and whatever followed it in these segments) goes to OpenSSL exactly once, in order
            vc.ensure("tls.bio_write_once", len(ssl.inbox) == 1)
            if len(ssl.inbox) == 1:
                vc.ensure("tls.bio_write_whole_buffer_in_order", ssl.inbox[0] == whole)
            vc.ensure("tls.buffer_cleared", len_(layer.recv_buffer) == 0)
            vc.ensure("tls.trace", kinds == ["TlsClienthelloHook", "TlsStartClientHook", "SendData"])
            if kinds == ["TlsClienthelloHook", "TlsStartClientHook", "SendData"]:
                vc.ensure("tls.server_flight_sent_to_client", And(out.trace[2].data == server_hello, out.trace[2].connection is client))
            vc.ensure("tls.handshake_continues", And(vc.eq(r[0], False), isnone(r[1])))
            vc.ensure("tls.connection_is_the_provided_one", layer.tls is ssl)

    return scenario(("dtls." if dtls else "tls.") + "ClientTLSLayer.receive_handshake_data", functions=[CT + ".receive_handshake_data", L + ":TLSLayer.receive_handshake_data", L + ":TLSLayer.start_tls", L + ":TLSLayer.tls_interact"],
                    lazy_generators=True, pc_slices=True, inbounds_lengths=True, max_unroll=1)(s_recv)


_mk_recv(False)
_mk_recv(True)


def bounded(tier, seed):
    b = Bounded()
    return b
