"""C13 — ClientHello parsing is total and independent of segmentation.

Reference (written from the RFCs, not from the code):
  TLSPlaintext (RFC 8446 §5.1 / RFC 5246 §6.2.1): type(1)=22 handshake, legacy_record_version(2) = 0x03 0x00..0x03, length(2), fragment.
  DTLSPlaintext (RFC 6347 §4.1): type(1)=22, version(2) = {254,255} DTLS 1.0 | {254,253} DTLS 1.2/1.3, epoch(2), sequence_number(6), length(2).
  Handshake (RFC 8446 §4): msg_type(1), length(3), body; a handshake message may span several records and zero-length handshake
  fragments are not allowed (§5.1).  DTLS handshake header (RFC 6347 §4.2.2): msg_type(1) length(3) message_seq(2)
  fragment_offset(3) fragment_length(3).
"""
from pyvc.api import *
from props.prelude import *

CLAIM = "other"
EXPLANATION = (
    "T1 proves the record layer and the buffering glue for all byte strings: handshake_record_contents / its DTLS twin as a step "
    "function for every offset (inductive), get_client_hello / get_dtls_client_hello against a reference reader (result = the first "
    "4+len bytes of the concatenated record payloads, None iff incomplete, ValueError iff a non-handshake or empty record comes first), "
    "stability under appended bytes and under truncation (so splitting across records and segments cannot change the result), "
    "parse_client_hello raises only ValueError, ClientTLSLayer.receive_handshake_data accumulates recv_buffer and is silent while the "
    "hello is incomplete. The inductive machine-step scenarios cover any number of records; the natively replayable twins are unrolled to 2 records (record sizes symbolic). Equality of SNI/ALPN/"
    "cipher suites/extensions with an independent RFC 8446 parser, hellos in many records, and the kaitai parser's totality are "
    "bounded (T2)."
)
ASSUMPTIONS = [
    "trusted library contract: constructing mitmproxy.tls.ClientHello (kaitai TlsClientHello/DtlsClientHello over the bytes) either returns or raises EOFError; checked bounded in T2 on mutated and random inputs",
    "the reference / stability twins unroll the record loop (TLS: 2 records, DTLS stability: 1 record; parse_client_hello: 1 record): more records are covered by the inductive machine-step contracts (any number of records) and by T2",
    "L-SEG (paper lemma): (N) no-op on incomplete input with recv_buffer' = recv_buffer ++ data, plus (P)/(M) stability of get_client_hello under extension/truncation, give segmentation independence by induction on the number of segments",
    "ClientHello.sni / alpn_protocols (kaitai attribute walks, regex host validation) are out of T1 reach: compared with an independent parser in T2",
]
L = "mitmproxy.proxy.layers.tls"
N = "mitmproxy.net.tls"


# ---------------------------------------------------------------------------------------------
# record header predicates


@scenario("starts_like_tls_record", functions=[N + ":starts_like_tls_record"])
def s_tls_magic(vc):
    d = vc.sym_bytes("d")
    out = vc.call(N + ":starts_like_tls_record", d)
    vc.ensure("no_exception", out.ok)
    if not out.ok:
        return
    want = And(len_(d) >= 3, code_at(d, 0) == 22, code_at(d, 1) == 3, code_at(d, 2) <= 3) if vc.mode == "sym" or len(d) >= 3 else False
    vc.ensure("exact", Iff(vc.truthy(out.result) if vc.mode == "native" else out.result, want))


def dtls_version_ok(minor):
    # RFC 4347 §4.1: DTLS 1.0 = {254, 255}; RFC 6347 §4.1: DTLS 1.2 = {254, 253}; RFC 9147: legacy_record_version {254, 253}
    return Or(minor == 255, minor == 253)


@scenario("starts_like_dtls_record", functions=[N + ":starts_like_dtls_record"])
def s_dtls_magic(vc):
    d = vc.sym_bytes("d")
    out = vc.call(N + ":starts_like_dtls_record", d)
    vc.ensure("no_exception", out.ok)
    if not out.ok:
        return
    r = vc.truthy(out.result) if vc.mode == "native" else out.result
    short = len_(d) < 3
    if vc.branch(short):
        vc.ensure("short_is_rejected", Not(r))
        return
    vc.ensure("only_handshake_records_of_dtls", Implies(r, And(code_at(d, 0) == 22, code_at(d, 1) == 254)))
    vc.ensure("accepts_dtls_1_2", Implies(And(code_at(d, 0) == 22, code_at(d, 1) == 254, code_at(d, 2) == 253), r))
    vc.ensure("accepts_dtls_1_0_record_version", Implies(And(code_at(d, 0) == 22, code_at(d, 1) == 254, code_at(d, 2) == 255), r))   # was KF-C13-1


# ---------------------------------------------------------------------------------------------
# reference reader for the record layer (TLS: header 5, version check above; DTLS: header 13)


def header_predicate_uf(name):
    def f(vc, d):
        import z3
        from pyvc import lib
        return SBool(lib.uf(name, z3.StringSort(), z3.BoolSort())(d.t))
    return f


def abstract_header_predicate(vc, dtls):
    """proof mode: starts_like_(d)tls_record has its own contract (above); in the record-reader scenarios it is an
    uninterpreted predicate of the header bytes (natively the real predicate runs; counter-models / conformance samples are
    taken from the candidate inputs below with the real predicate as oracle, see pyvc/libx_tls.py)"""
    if vc.mode == "sym":
        vc.summary(N + (":starts_like_dtls_record" if dtls else ":starts_like_tls_record"),
                   header_predicate_uf("dtls_record_header_accepted" if dtls else "tls_record_header_accepted"))


def _rec(payload, dtls, ver=None, typ=22):
    if dtls:
        return bytes([typ]) + (ver or b"\xfe\xfd") + b"\x00\x00\x00\x00\x00\x00\x00\x01" + len(payload).to_bytes(2, "big") + payload
    return bytes([typ]) + (ver or b"\x03\x01") + len(payload).to_bytes(2, "big") + payload


def _hs(body, dtls):
    if dtls:
        return b"\x01" + len(body).to_bytes(3, "big") + b"\x00\x00" + b"\x00\x00\x00" + len(body).to_bytes(3, "big") + body
    return b"\x01" + len(body).to_bytes(3, "big") + body


def stream_candidates(dtls):
    """concrete record streams used to obtain replayable models (all outcome classes of the reference reader)"""
    R = lambda p, **k: _rec(p, dtls, **k)
    h = _hs(b"abcdef", dtls)
    hl = 12 if dtls else 4
    out = [b"", R(b"x")[:2], R(b"x")[:len(R(b"")) - 1], R(h), R(h) + b"tail", R(h + b"XX"), R(h[:2]) + R(h[2:]), R(h[:hl]) + R(h[hl:]), R(h[:hl + 2]) + R(h[hl + 2:]) + R(b"zz"),
           R(h, typ=23), R(h, ver=b"\x04\x00"), R(h, ver=b"\xfe\xff"), R(h, ver=b"\x03\x04"), R(b""), R(h)[:-1], R(h[:3]), R(h[:3]) + R(b"", typ=22),
           R(h[:hl + 1]) + R(h[hl + 1:], typ=21), R(h[:hl + 1]) + R(b""), R(h[:hl + 1]) + R(h[hl + 1:])[:-2], R(h[:1]) + R(h[1:2]) + R(h[2:]), R(h[:hl + 1]), b"GET / HTTP/1.1\r\n"]
    return out


def cands_data(dtls):
    return [{"data": x} for x in stream_candidates(dtls)]


def cands_pairs(dtls):
    tails = [b"", b"\x00", _rec(b"zz", dtls), _rec(b"zz", dtls)[:2], b"\xff" * 20]
    return [{"d": x, "s": t} for x in stream_candidates(dtls) for t in tails]


def hdr_ok(vc, data, off, dtls):
    """The record header at `off` (whole header available) is accepted.  The record readers are specified relative to the
    header predicates starts_like_tls_record / starts_like_dtls_record, which have their own contracts against the RFCs
    above (incl. KF-C13-1 for the DTLS 1.0 record version)."""
    if dtls:
        return vc.call(N + ":starts_like_dtls_record", sub(data, off, 13)).result
    return vc.call(N + ":starts_like_tls_record", sub(data, off, 5)).result


def sub(data, a, n):
    """data[a:a+n] for 0 <= a, a + n <= len(data) (no clamping needed; callers establish the bounds separately)"""
    if is_sym(data) or is_sym(a) or is_sym(n):
        import z3
        from pyvc.core import ssub, simp, _z, _zi
        return SBytes(simp(ssub(_z(data), simp(_zi(a)), simp(_zi(n)))))
    return data[a:a + n]


def be24(b, i):
    return code_at(b, i) * 65536 + code_at(b, i + 1) * 256 + code_at(b, i + 2)


def reference_hello(vc, data, dtls, max_records=2):
    """Reference reader. Returns ('incomplete',) | ('invalid',) | ('hello', pieces, need) | ('beyond',) following the
    contract's own branches (vc.branch) on the symbolic input; pieces = [(payload offset in data, payload size)] of the
    records read, need = length of the handshake message incl. its header (the hello is the first `need` bytes of the
    concatenated payloads)."""
    H = 13 if dtls else 5
    off = 0
    pieces = []
    total = 0
    for _ in range(max_records):
        if vc.branch(len_(data) < off + H):
            return ("incomplete",)
        if vc.branch(Not(hdr_ok(vc, data, off, dtls))):
            return ("invalid",)
        size = be16(data, off + H - 2)
        if vc.branch(size == 0):
            return ("invalid",)
        if vc.branch(len_(data) < off + H + size):
            return ("incomplete",)
        pieces.append((off + H, size))
        total = total + size
        off = off + H + size
        hl, lo = (13, 9) if dtls else (4, 1)
        if vc.branch(total >= hl):
            need = (acc_at(data, pieces, lo) * 65536 + acc_at(data, pieces, lo + 1) * 256 + acc_at(data, pieces, lo + 2)) + (12 if dtls else 4)
            if vc.branch(total >= need):
                return ("hello", pieces, need)
    return ("beyond",)


def acc_at(data, pieces, i):
    """byte i of the concatenation of the pieces of data (i within range)"""
    start, size = pieces[0]
    if len(pieces) == 1:
        return code_at(data, start + i)
    return If(i < size, code_at(data, start + i), acc_at(data, pieces[1:], i - size))


def native_concat(data, pieces):
    return b"".join(bytes(data[a:a + n]) for a, n in pieces)


def is_value_error(out):
    return out.raised is not None and issubclass(out.raised_type(), ValueError)


def check_against_reference(vc, out, ref, data, tag=""):
    vc.ensure(tag + "total.raises_only_ValueError", out.ok or is_value_error(out))
    if ref[0] == "incomplete":
        vc.ensure(tag + "incomplete.returns_None", out.ok and isnone(out.result))
    elif ref[0] == "invalid":
        vc.ensure(tag + "invalid.raises_ValueError", is_value_error(out))
    elif ref[0] == "hello":
        vc.ensure(tag + "complete.returns_hello", out.ok and not isnone(out.result))
        if out.ok and not isnone(out.result):
            same_bytes(vc, out.result, data, ref[1], ref[2], tag + "complete.")


def same_bytes(vc, r, data, pieces, need, tag):
    """r == first `need` bytes of the concatenated pieces: equal length and equal byte at every index (symbolic index i)"""
    if vc.mode == "native":
        vc.ensure(tag + "length", len(r) == need)
        vc.ensure(tag + "byte_at_every_index", bytes(r) == native_concat(data, pieces)[:need])
        return
    vc.ensure(tag + "length", len_(r) == need)
    i = vc.ex.fresh("int", "idx")
    vc.ensure(tag + "byte_at_every_index", Implies(And(i >= 0, i < need), code_at(r, i) == acc_at(data, pieces, i)))


for _dtls in (False, True):
    _fn = L + (":get_dtls_client_hello" if _dtls else ":get_client_hello")
    _gen = L + (":dtls_handshake_record_contents" if _dtls else ":handshake_record_contents")

    def _s_get(vc, _dtls=_dtls, _fn=_fn):
        abstract_header_predicate(vc, _dtls)
        data = vc.sym_bytes("data")
        out = vc.call(_fn, data)
        ref = reference_hello(vc, data, _dtls, max_records=1 if _dtls else 2)
        if ref[0] == "beyond":
            return
        check_against_reference(vc, out, ref, data)

    scenario(("dtls." if _dtls else "tls.") + "get_client_hello.reference", functions=[_fn, _gen, N + (":starts_like_dtls_record" if _dtls else ":starts_like_tls_record")],
             lazy_generators=True, pc_slices=True, inbounds_lengths=True, max_unroll=1 if _dtls else 2, candidates=cands_data(_dtls))(_s_get)

    def _s_prefix(vc, _dtls=_dtls, _fn=_fn):
        """(P) a complete hello is not changed by any bytes that follow (later records, the next segment)."""
        abstract_header_predicate(vc, _dtls)
        d = vc.sym_bytes("d")
        s = vc.sym_bytes("s")
        o1 = vc.call(_fn, d)
        vc.assume(o1.ok)
        if isnone(o1.result):
            return
        o2 = vc.call(_fn, d + s)
        vc.ensure("P.no_exception", o2.ok)
        if not o2.ok:
            return
        vc.ensure("P.still_complete", not isnone(o2.result))
        if not isnone(o2.result):
            vc.ensure("P.same_hello", o2.result == o1.result)

    scenario(("dtls." if _dtls else "tls.") + "get_client_hello.stable_under_extension", functions=[_fn, _gen], lazy_generators=True, pc_slices=True, inbounds_lengths=True, max_unroll=1 if _dtls else 2, candidates=cands_pairs(_dtls))(_s_prefix)

    def _s_trunc(vc, _dtls=_dtls, _fn=_fn):
        """(M) a stream that is rejected stays rejected whatever follows; contrapositive: no prefix of a stream with a complete
        hello is ever rejected, i.e. every prefix is incomplete or (by (P)) already gives the same hello."""
        abstract_header_predicate(vc, _dtls)
        d = vc.sym_bytes("d")
        s = vc.sym_bytes("s")
        o1 = vc.call(_fn, d)
        if o1.ok:
            return
        vc.ensure("M.only_ValueError", is_value_error(o1))
        o2 = vc.call(_fn, d + s)
        vc.ensure("M.rejected_stays_rejected", is_value_error(o2))

    scenario(("dtls." if _dtls else "tls.") + "get_client_hello.rejection_stable_under_extension", functions=[_fn, _gen], lazy_generators=True, pc_slices=True, inbounds_lengths=True, max_unroll=1 if _dtls else 2, candidates=cands_pairs(_dtls))(_s_trunc)


# ---------------------------------------------------------------------------------------------
# the record generator as a step function, for every offset (inductive: one arbitrary iteration of its loop)


def mk_step_scenario(dtls):
    gen = L + (":dtls_handshake_record_contents" if dtls else ":handshake_record_contents")
    H = 13 if dtls else 5

    def s_step(vc):
        abstract_header_predicate(vc, dtls)
        data = vc.sym_bytes("data")
        state = {"env": None, "calls": 0, "o0": None}
        yields = []

        def inv(it, env, idx):
            state["calls"] += 1
            state["env"] = env
            off = env["offset"]
            if state["calls"] == 2:
                state["o0"] = off  # the havoced offset at the head of the arbitrary iteration
            if state["calls"] == 3:
                # end of an iteration that did not return/raise: exactly one record was yielded and the offset moved past it
                o0 = state["o0"]
                size = be16(data, o0 + H - 2)
                it.ex.obligation("step.yield.exactly_one", len(yields) == 1)
                if len(yields) == 1:
                    it.ex.obligation("step.yield.is_the_record_payload", yields[0] == data[o0 + H:o0 + H + size])
                it.ex.obligation("step.yield.only_complete_valid_nonempty_record", And(len_(data) >= o0 + H + size, hdr_ok(vc, data, o0, dtls), size > 0))
                it.ex.obligation("step.yield.offset_advances_past_record", off == o0 + H + size)
            return And(off >= 0, off <= len_(data))

        if vc.mode == "sym":
            vc.invariant(gen, 1, inv)
        out = vc.call(gen, data, on_yield=lambda v: yields.append(v))
        if vc.mode == "native":
            # natively the whole generator runs from offset 0: check the same step facts along the real run
            off = 0
            vc.ensure("native.total", out.ok or is_value_error(out))
            for y in yields:
                size = be16(data, off + H - 2)
                vc.ensure("native.step", y == data[off + H:off + H + size] and size > 0 and len(data) >= off + H + size)
                off += H + size
            return
        o0 = state["o0"]
        if o0 is None:
            return
        # the arbitrary iteration ended the generator
        vc.ensure("step.total.raises_only_ValueError", out.ok or is_value_error(out))
        vc.ensure("step.end.nothing_yielded", len(yields) == 0)
        if out.ok:
            size = be16(data, o0 + H - 2)
            vc.ensure("step.return.only_when_incomplete", Or(len_(data) < o0 + H, And(hdr_ok(vc, data, o0, dtls), size > 0, len_(data) < o0 + H + size)))
        else:
            size = be16(data, o0 + H - 2)
            vc.ensure("step.raise.only_on_bad_or_empty_record", And(len_(data) >= o0 + H, Or(Not(hdr_ok(vc, data, o0, dtls)), size == 0)))

    return scenario(("dtls." if dtls else "tls.") + "handshake_record_contents.step", functions=[gen])(s_step)


mk_step_scenario(False)
mk_step_scenario(True)


# ---------------------------------------------------------------------------------------------
# get_client_hello as an inductive machine over (offset, accumulated handshake bytes): one arbitrary iteration of the record
# loop *together with* the consumer's loop body (the generator is advanced lazily). Covers any number of records.


def complete(c, dtls):
    """the accumulated handshake bytes c contain a whole handshake message"""
    if dtls:
        return And(len_(c) >= 13, len_(c) >= be24(c, 9) + 12)
    return And(len_(c) >= 4, len_(c) >= be24(c, 1) + 4)


def mk_machine_scenario(dtls, shapes=None, tag=""):
    fn = L + (":get_dtls_client_hello" if dtls else ":get_client_hello")
    gen = L + (":dtls_handshake_record_contents" if dtls else ":handshake_record_contents")
    H = 13 if dtls else 5

    def s_machine(vc):
        if vc.mode == "native":
            return  # the unrolled twin (get_client_hello.reference) is the natively replayable form
        data = vc.sym_bytes("data")
        st = {"calls": 0, "o0": None, "c0": None}

        def consumer_locals(it):
            return it.frames[-2].locals

        def inv(it, env, idx):
            st["calls"] += 1
            off = env["offset"]
            c = consumer_locals(it)["client_hello"]
            if st["calls"] == 2:
                st["o0"], st["c0"] = off, c
            if st["calls"] == 3:
                # the iteration went round: a record was yielded, appended, and the hello is still incomplete
                o0, c0 = st["o0"], st["c0"]
                size = be16(data, o0 + H - 2)
                it.ex.obligation("machine.continue.record_valid_complete_nonempty", And(len_(data) >= o0 + H + size, hdr_ok(vc, data, o0, dtls), size > 0))
                it.ex.obligation("machine.continue.payload_appended_in_order", c == c0 + sub(data, o0 + H, size))
                it.ex.obligation("machine.continue.offset_past_record", off == o0 + H + size)
            # Inv: offset within data, accumulated bytes do not yet contain the whole message
            return And(off >= 0, off <= len_(data), Not(complete(c, dtls)))

        def havoc(it, env):
            # arbitrary accumulated bytes, case-split on how much of the handshake header they already contain, with the
            # header bytes as explicit integers (exhaustive: length 0..hl-1 exactly, or hl header bytes followed by anything)
            import z3
            hl = 12 if dtls else 4
            ks = list(range(hl + 1)) if shapes is None else list(shapes)
            k = ks[it.ex.choose(len(ks), "acc_shape")]
            parts = [z3.StrFromCode(it.fresh("int", f"acc_b{j}").t % 256) for j in range(k)]
            if k == hl:
                parts.append(it.fresh("bytes", "acc_rest").t)
            t = z3.StringVal("") if not parts else parts[0] if len(parts) == 1 else z3.Concat(*parts)
            consumer_locals(it)["client_hello"] = SBytes(t)

        inv.havoc = havoc
        vc.invariant(gen, 1, inv)
        abstract_header_predicate(vc, dtls)
        out = vc.call(fn, data)
        o0, c0 = st["o0"], st["c0"]
        if o0 is None:
            return
        vc.ensure("machine.total.raises_only_ValueError", out.ok or is_value_error(out))
        size = be16(data, o0 + H - 2)
        if not out.ok:
            vc.ensure("machine.raise.only_on_bad_or_empty_record", And(len_(data) >= o0 + H, Or(Not(hdr_ok(vc, data, o0, dtls)), size == 0)))
        elif isnone(out.result):
            vc.ensure("machine.none.only_when_next_record_incomplete", Or(len_(data) < o0 + H, And(hdr_ok(vc, data, o0, dtls), size > 0, len_(data) < o0 + H + size)))
        else:
            c1 = c0 + sub(data, o0 + H, size)
            vc.ensure("machine.hello.record_valid_complete_nonempty", And(len_(data) >= o0 + H + size, hdr_ok(vc, data, o0, dtls), size > 0))
            vc.ensure("machine.hello.only_when_complete", complete(c1, dtls))
            need = (be24(c1, 9) + 12) if dtls else (be24(c1, 1) + 4)
            vc.ensure("machine.hello.length", len_(out.result) == need)
            vc.ensure("machine.hello.is_prefix_of_accumulated_payloads", startswith(c1, out.result))

    return scenario(("dtls." if dtls else "tls.") + "get_client_hello.machine_step" + tag, functions=[fn, gen], lazy_generators=True, pc_slices=True, inbounds_lengths=True, z3_timeout_ms=1500)(s_machine)


mk_machine_scenario(False)
# DTLS: 13 shapes of the accumulated bytes (0..11 header bytes exactly, or 12 header bytes + anything), split over three scenarios
mk_machine_scenario(True, range(0, 5), "[acc_len=0..4]")
mk_machine_scenario(True, range(5, 10), "[acc_len=5..9]")
mk_machine_scenario(True, range(10, 13), "[acc_len=10..11,>=12]")


# ---------------------------------------------------------------------------------------------
# parse_client_hello / dtls_parse_client_hello and the buffering in ClientTLSLayer.receive_handshake_data


def _cls(ref):
    from pyvc.vc import resolve_ref
    return resolve_ref(ref)[2]


def kaitai_contract(vc, CH, made):
    """Trusted contract of the kaitai-generated parser behind mitmproxy.tls.ClientHello(raw, dtls): it returns an object or
    raises EOFError -- nothing else (checked bounded in T2)."""
    def ctor(v, raw, dtls=False):
        made.append((raw, dtls))
        if v.branch(v.fresh_bool("kaitai_eof")):
            v.raise_(EOFError, "requested bytes not available")
        o = v.new(CH, _raw_bytes=raw, _client_hello=v.new("props.C13:NoExtensions"))
        made[-1] = (raw, dtls, o)
        return o
    return ctor


class NoExtensions:
    """a parsed hello without an `extensions` attribute (ClientHello.sni -> None, alpn_protocols -> [])"""


def raw_matches(vc, raw, data, pieces, need, skip, tag):
    """raw == (first `need` bytes of the concatenated pieces)[skip:]"""
    if vc.mode == "native":
        vc.ensure(tag + "body_length", len(raw) == need - skip)
        vc.ensure(tag + "exactly_the_hello_body", bytes(raw) == native_concat(data, pieces)[skip:need])
        return
    vc.ensure(tag + "body_length", len_(raw) == need - skip)
    i = vc.ex.fresh("int", "idx")
    vc.ensure(tag + "exactly_the_hello_body", Implies(And(i >= 0, i < need - skip), code_at(raw, i) == acc_at(data, pieces, i + skip)))


for _dtls in (False, True):
    _fn = L + (":dtls_parse_client_hello" if _dtls else ":parse_client_hello")

    def _s_parse(vc, _dtls=_dtls, _fn=_fn):
        CH = _cls("mitmproxy.tls:ClientHello")
        made = []
        vc.summary("mitmproxy.tls:ClientHello", kaitai_contract(vc, CH, made))
        abstract_header_predicate(vc, _dtls)
        data = vc.sym_bytes("data")
        out = vc.call(_fn, data)
        ref = reference_hello(vc, data, _dtls, max_records=1)
        if ref[0] == "beyond":
            return
        vc.ensure("total.raises_only_ValueError", out.ok or is_value_error(out))
        if ref[0] == "incomplete":
            vc.ensure("incomplete.returns_None_without_parsing", out.ok and isnone(out.result) and len(made) == 0)
        elif ref[0] == "invalid":
            vc.ensure("invalid_record.raises_ValueError_without_parsing", is_value_error(out) and len(made) == 0)
        else:
            vc.ensure("complete.parsed_once", len(made) == 1)
            if len(made) != 1:
                return
            raw_matches(vc, made[0][0], data, ref[1], ref[2], 12 if _dtls else 4, "complete.")
            vc.ensure("complete.dtls_flag", vc.eq(made[0][1], _dtls))
            if len(made[0]) == 2:
                vc.ensure("complete.parser_EOF_becomes_ValueError", is_value_error(out))
            else:
                vc.ensure("complete.returns_the_parsed_hello", out.ok and out.result is made[0][2])

    scenario(("dtls." if _dtls else "tls.") + "parse_client_hello", functions=[_fn], lazy_generators=True, pc_slices=True, inbounds_lengths=True, max_unroll=1, candidates=cands_data(_dtls))(_s_parse)


CT = L + ":ClientTLSLayer"


def mk_client_tls_layer(vc, buf, dtls):
    from mitmproxy.proxy.tunnel import TunnelState
    client = mk_client(vc, transport_protocol="udp" if dtls else "tcp")
    server = mk_server(vc, address=("example.com", 443))
    ctx = mk_context(vc, client, server, mk_options(vc))
    layer = vc.new(CT, context=ctx, conn=client, tunnel_connection=client, child_layer=None, recv_buffer=buf if vc.mode == "sym" else bytearray(buf), client_hello_parsed=False,
                   server_tls_available=False, tunnel_state=TunnelState.ESTABLISHING, command_to_reply_to=None, _event_queue=vc.list([]),
                   debug=None, _paused=None, _paused_event_queue=None, tls=None)
    return layer, client, server, ctx


def _mk_recv(dtls):
    def s_recv(vc):
        """One DataReceived segment while waiting for the ClientHello. Modular: (dtls_)parse_client_hello has its own contract
        (above); here it is replaced by its three possible outcomes and the glue is checked: it is given exactly
        recv_buffer ++ data, incomplete => silent and buffered, invalid => error, hello => hook, then OpenSSL gets the
        whole buffer exactly once."""
        from mitmproxy.connection import ConnectionState
        from props.tlsstub import mk_ssl
        CH = _cls("mitmproxy.tls:ClientHello")
        buf = vc.sym_bytes("recv_buffer")
        data = vc.sym_bytes("data")
        outcome = vc.case("parse_outcome", ["incomplete", "invalid", "hello"])
        provide_tls = vc.case("addon_provides_ssl_conn", [False, True]) if outcome == "hello" else False
        if outcome == "hello":
            vc.assume(len_(buf) + len_(data) >= 4)  # parse contract: a hello is only reported for >= 4 (DTLS: 13) buffered bytes
        layer, client, server, ctx = mk_client_tls_layer(vc, buf, dtls)
        hello = vc.new(CH, _raw_bytes=b"", _client_hello=vc.new("props.C13:NoExtensions"))
        parsed = []

        def parse_summary(v, arg):
            parsed.append(arg if v.mode == "sym" else bytes(arg))  # natively a snapshot of the (mutable) buffer
            if outcome == "invalid":
                v.raise_(ValueError, "Invalid ClientHello")
            return None if outcome == "incomplete" else hello

        vc.summary(L + (":dtls_parse_client_hello" if dtls else ":parse_client_hello"), parse_summary)
        server_hello = vc.sym_bytes("server_hello")
        vc.assume(len_(server_hello) > 0)
        ssl = mk_ssl(vc, outbox=[server_hello])

        def on_yield(cmd):
            if is_cmd(cmd, "TlsStartClientHook") and provide_tls:
                cmd.data.ssl_conn = ssl
            elif is_cmd(cmd, "CloseConnection"):
                cmd.connection.state = ConnectionState.CLOSED  # what the proxy server does with the command

        out = vc.call(CT + ".receive_handshake_data", layer, data, on_yield=on_yield)
        vc.ensure("total.no_exception", out.ok)
        if not out.ok:
            return
        whole = buf + data
        r = out.result
        kinds = trace_kinds(out.trace)
        vc.ensure("parser_given_buffer_plus_segment_once", len(parsed) == 1)
        if len(parsed) == 1:
            vc.ensure("parser_given_buffer_plus_segment_in_order", parsed[0] == whole)
        if outcome == "incomplete":
            # (N) silent, buffer accumulates in order, still waiting
            vc.ensure("incomplete.result_not_done_no_error", And(vc.eq(r[0], False), isnone(r[1])))
            vc.ensure("incomplete.no_commands_no_hook", kinds == [])
            vc.ensure("incomplete.buffer_accumulates_in_order", layer.recv_buffer == whole)
            vc.ensure("incomplete.still_waiting", vc.eq(layer.client_hello_parsed, False))
            vc.ensure("incomplete.sni_untouched", isnone(client.sni))
            return
        if outcome == "invalid":
            vc.ensure("invalid.reported_as_error", And(vc.eq(r[0], False), Not(isnone(r[1]))))
            if not isnone(r[1]):
                vc.ensure("invalid.error_text", startswith(r[1], "Cannot parse ClientHello"))
            vc.ensure("invalid.no_commands_no_hook", kinds == [])
            vc.ensure("invalid.not_parsed", vc.eq(layer.client_hello_parsed, False))
            return
        vc.ensure("complete.parsed_flag", vc.eq(layer.client_hello_parsed, True))
        vc.ensure("complete.clienthello_hook_first", kinds[:1] == ["TlsClienthelloHook"])
        if kinds[:1] != ["TlsClienthelloHook"]:
            return
        vc.ensure("complete.hook_carries_parsed_hello_and_context", out.trace[0].data.client_hello is hello and out.trace[0].data.context is ctx)
        vc.ensure("complete.sni_and_alpn_from_hello", And(isnone(client.sni), len_(client.alpn_offers) == 0))
        if not provide_tls:
            vc.ensure("notls.trace", kinds == ["TlsClienthelloHook", "TlsStartClientHook", "Log", "CloseConnection"])
            vc.ensure("notls.error", And(vc.eq(r[0], False), vc.eq(r[1], "connection closed early")))
        else:
            # everything buffered so far (the hello and whatever followed it in these segments) goes to OpenSSL exactly once, in order
            vc.ensure("tls.bio_write_once", len(ssl.inbox) == 1)
            if len(ssl.inbox) == 1:
                vc.ensure("tls.bio_write_whole_buffer_in_order", ssl.inbox[0] == whole)
            vc.ensure("tls.buffer_cleared", len_(layer.recv_buffer) == 0)
            vc.ensure("tls.trace", kinds == ["TlsClienthelloHook", "TlsStartClientHook", "SendData"])
            if kinds == ["TlsClienthelloHook", "TlsStartClientHook", "SendData"]:
                vc.ensure("tls.server_flight_sent_to_client", And(out.trace[2].data == server_hello, out.trace[2].connection is client))
            vc.ensure("tls.handshake_continues", And(vc.eq(r[0], False), isnone(r[1])))
            vc.ensure("tls.connection_is_the_provided_one", layer.tls is ssl)

    return scenario(("dtls." if dtls else "tls.") + "ClientTLSLayer.receive_handshake_data", functions=[CT + ".receive_handshake_data", L + ":TLSLayer.receive_handshake_data", L + ":TLSLayer.start_tls", L + ":TLSLayer.tls_interact"],
                    max_unroll=3)(s_recv)


_mk_recv(False)
_mk_recv(True)


# =============================================================================================
# T2 (bounded): independent ClientHello writer + reader (RFC 8446 §4.1.2, RFC 6066 §3, RFC 7301 §3.1, RFC 6347 §4.2.1)
# against mitmproxy.tls.ClientHello / parse_client_hello / ClientTLSLayer, over record splits and segmentations.


def _v(n, payload):
    """opaque<..2^(8n)-1> vector"""
    return len(payload).to_bytes(n, "big") + payload


def build_hello_body(spec, dtls=False):
    """ClientHello body (without handshake header) from a spec dict: version, session_id, cookie, ciphers, compression, extensions
    (list of (type, body) or None for 'no extensions block')."""
    b = spec.get("version", b"\x03\x03") + spec.get("random", bytes(range(32)))
    b += _v(1, spec.get("session_id", b""))
    if dtls:
        b += _v(1, spec.get("cookie", b""))
    b += _v(2, b"".join(c.to_bytes(2, "big") for c in spec["ciphers"]))
    b += _v(1, spec.get("compression", b"\x00"))
    if spec.get("extensions") is not None:
        b += _v(2, b"".join(t.to_bytes(2, "big") + _v(2, body) for t, body in spec["extensions"]))
    return b


def ext_sni(host: bytes):
    return (0, _v(2, b"\x00" + _v(2, host)))


def ext_alpn(protos):
    return (16, _v(2, b"".join(_v(1, p) for p in protos)))


def spec_read_hello(body: bytes, dtls=False):
    """Independent reader: returns dict(sni, alpn, ciphers, extensions) or raises ValueError when truncated."""
    pos = 0

    def take(n):
        nonlocal pos
        if pos + n > len(body):
            raise ValueError("truncated")
        r = body[pos:pos + n]
        pos += n
        return r

    def vec(n):
        return take(int.from_bytes(take(n), "big"))

    take(2)
    take(32)
    vec(1)
    if dtls:
        vec(1)
    cs = vec(2)
    ciphers = [int.from_bytes(cs[i:i + 2], "big") for i in range(0, len(cs) - 1, 2)]
    vec(1)
    exts = []
    sni = None
    alpn = []
    if pos < len(body):
        eb = vec(2)
        p = 0
        while p < len(eb):
            if p + 4 > len(eb):
                raise ValueError("truncated extension")
            t = int.from_bytes(eb[p:p + 2], "big")
            n = int.from_bytes(eb[p + 2:p + 4], "big")
            if p + 4 + n > len(eb):
                raise ValueError("truncated extension body")
            xb = eb[p + 4:p + 4 + n]
            exts.append((t, xb))
            p += 4 + n
            if t == 0 and sni is None and len(xb) >= 2:
                lst = xb[2:]
                names = []
                q = 0
                while q + 3 <= len(lst):
                    nt, ln = lst[q], int.from_bytes(lst[q + 1:q + 3], "big")
                    names.append((nt, lst[q + 3:q + 3 + ln]))
                    q += 3 + ln
                if len(names) == 1 and names[0][0] == 0:
                    sni = names[0][1]
            if t == 16 and not alpn and len(xb) >= 2:
                lst = xb[2:]
                q = 0
                while q < len(lst):
                    ln = lst[q]
                    alpn.append(lst[q + 1:q + 1 + ln])
                    q += 1 + ln
    return dict(sni=sni, alpn=alpn, ciphers=ciphers, extensions=exts)


def hello_specs():
    GREASE = 0x0A0A
    base_c = [0x1301, 0x1302, 0xC02F, 0x009C]
    hosts = [b"example.com", b"a.b-c.example.org", b"xn--mnchen-3ya.de", b"x" * 63 + b".com", b"localhost", b"under_score.example", b"EXAMPLE.Com", b"example.com."]
    exts_sets = []
    for h in hosts:
        exts_sets.append([ext_sni(h)])
    exts_sets += [
        [],
        None,
        [ext_alpn([b"h2", b"http/1.1"])],
        [ext_sni(b"example.com"), ext_alpn([b"h2"])],
        [ext_alpn([b"http/1.1"]), ext_sni(b"example.com")],
        [(GREASE, b""), ext_sni(b"example.com"), (0x002B, b"\x02\x03\x04"), ext_alpn([b"h3", b"h2", b"http/1.1"]), (0xFF01, b"\x00"), (0x0033, bytes(range(40))), (0x0015, b"\x00" * 30)],
        [(0x1234, b"\xff" * 5), (0x000A, b"\x00\x02\x00\x1d"), (0x4A4A, b"\x00")],
        [ext_sni(b"example.com"), (0x0017, b""), (0x0023, b"")],
        [ext_alpn([b"a" * 255, b"", b"h2"])],
        [(0, _v(2, b""))],  # empty server_name_list: no SNI
        [(0, _v(2, b"\x00" + _v(2, b"a.example") + b"\x00" + _v(2, b"b.example")))],  # two host names (RFC 6066 forbids): no single SNI
    ]
    out = []
    for i, ex in enumerate(exts_sets):
        for ciphers, sid in ((base_c, b""), ([GREASE] + base_c + [0x00FF], bytes(32))):
            out.append(dict(ciphers=ciphers, session_id=sid, extensions=ex))
    out.append(dict(ciphers=[0x1301], version=b"\x03\x01", compression=b"\x01\x00", extensions=[ext_sni(b"old.example")]))
    return out


def tls_records(msg: bytes, cuts, version=b"\x03\x01"):
    parts, prev = [], 0
    for c in list(cuts) + [len(msg)]:
        parts.append(msg[prev:c])
        prev = c
    return b"".join(b"\x16" + version + len(p).to_bytes(2, "big") + p for p in parts if p)


def dtls_record(fragment: bytes, seq=0, version=b"\xfe\xfd"):
    return b"\x16" + version + b"\x00\x00" + seq.to_bytes(6, "big") + len(fragment).to_bytes(2, "big") + fragment


def dtls_handshake(body: bytes, frag_off=0, frag_len=None, msg_seq=0):
    frag_len = len(body) - frag_off if frag_len is None else frag_len
    return b"\x01" + len(body).to_bytes(3, "big") + msg_seq.to_bytes(2, "big") + frag_off.to_bytes(3, "big") + frag_len.to_bytes(3, "big") + body[frag_off:frag_off + frag_len]


def _observe(ch):
    return dict(sni=ch.sni, alpn=list(ch.alpn_protocols), ciphers=list(ch.cipher_suites), extensions=[(t, bytes(x)) for t, x in ch.extensions])


def _expected(body, dtls):
    e = spec_read_hello(body, dtls)
    return dict(sni=None if e["sni"] is None else e["sni"].decode("ascii"), alpn=e["alpn"], ciphers=e["ciphers"], extensions=e["extensions"])


def _feed_segments(parse, segments):
    """emulates recv_buffer: returns ('hello', ClientHello, index of the segment that completed it) | ('none',) | ('invalid', exc)"""
    buf = bytearray()
    for i, seg in enumerate(segments):
        buf.extend(seg)
        try:
            r = parse(buf)
        except Exception as e:  # ValueError = rejected; anything else is reported by the caller as well
            return ("invalid", e, i)
        if r is not None:
            return ("hello", r, i)
    return ("none",)


def _layer_observation(stream_segments, dtls):
    """the real ClientTLSLayer: what the tls_clienthello hook sees, and conn.sni / alpn_offers"""
    from mitmproxy.proxy.layers import tls as T
    from props import sansio
    ctx = sansio.context_for()
    if dtls:
        ctx.client.transport_protocol = "udp"
    ctx.layers.append(object())
    lay = T.ClientTLSLayer(ctx)
    seen = []

    def pol(hook):
        if hook.name == "tls_clienthello":
            seen.append(hook.data.client_hello)

    d = sansio.Driver(lay, hook_policy=pol)
    d.start()
    for seg in stream_segments:
        if ctx.client.state is not ctx.client.state.OPEN:
            break
        d.data(ctx.client, seg)
    return seen, ctx.client.sni, list(ctx.client.alpn_offers), [c for c in d.log if type(c).__name__ == "Log"]


def bounded(tier, seed):
    import itertools
    import random
    from mitmproxy.proxy.layers import tls as T
    from mitmproxy import tls as mtls
    from props import sansio

    b = Bounded()
    rnd = random.Random(seed)
    quick = tier == "quick"
    b.rule = ("ClientHellos written by an independent RFC 8446/6066/7301 writer (8 host-name forms, +-SNI, +-ALPN, GREASE, unknown/empty/large extensions, no extension block, "
              "TLS and DTLS with cookie) x record splits (all 1-cuts, sampled 2-cuts, one byte per record) x TCP segmentations (all 1-cuts of the record stream, sampled 2-cuts, 1-byte segments), "
              "read back through parse_client_hello with an emulated recv_buffer and through the real ClientTLSLayer, compared field by field with an independent reader; "
              "totality on all strings <= 3 over 12 byte values, truncations and byte mutations of valid hellos; real OpenSSL client hellos (TLS, DTLS); distinct = (hello, split, segmentation); non-trivial = hello with extensions")
    b.bound = "hello bodies <= 450 bytes; <= 2 record cuts and <= 2 segment cuts (+ all-singletons); %d mutations" % (3000 if quick else 100000)
    specs = hello_specs()
    # ---- TLS: equality with the independent reader under every split
    for si, spec in enumerate(specs):
        body = build_hello_body(spec)
        msg = b"\x01" + len(body).to_bytes(3, "big") + body
        want = _expected(body, False)
        n = len(msg)
        cutsets = [()] + [(i,) for i in range(1, n)] + [tuple(range(1, n))]
        two = [(i, j) for i in range(1, n) for j in range(i + 1, n)]
        rnd.shuffle(two)
        cutsets += two[: (6 if quick else 200)]
        if quick:
            ones = [(i,) for i in range(1, n)]
            rnd.shuffle(ones)
            cutsets = [()] + ones[:25] + [(1,), (3,), (4,), (5,), (n - 1,)] + [tuple(range(1, n))] + two[:6]
        for cuts in cutsets:
            stream = tls_records(msg, cuts)
            inp = {"hello": si, "record_cuts": list(cuts)[:8], "n_records": len(cuts) + 1}
            # whole stream at once
            try:
                ch = T.parse_client_hello(stream)
            except Exception as e:
                b.fail("tls.valid_hello_accepted", inp, f"raised {type(e).__name__}: {e}")
                continue
            b.case((si, cuts, "whole"), nontrivial=bool(spec.get("extensions")))
            if ch is None:
                b.fail("tls.valid_hello_complete", inp, "reported incomplete")
                continue
            try:
                got = _observe(ch)
            except Exception as e:
                b.fail("tls.accessors_total", inp, f"{type(e).__name__}: {e}")
                continue
            for f in ("sni", "alpn", "ciphers", "extensions"):
                if got[f] != want[f]:
                    b.fail(f"tls.equals_independent_reader.{f}", inp, f"got {got[f]!r} want {want[f]!r}")
            # segmentations of the record stream (bounded number per record split)
            m = len(stream)
            segsets = [[stream[:i], stream[i:]] for i in (range(1, m) if (not quick or len(cuts) <= 1 and si % 4 == 0) else rnd.sample(range(1, m), min(6, m - 1)))]
            segsets.append([stream[i:i + 1] for i in range(m)] if (not quick or si % 5 == 0 and len(cuts) <= 2) else [stream[:m // 3], stream[m // 3:2 * m // 3], stream[2 * m // 3:]])
            for _ in range(2 if quick else 10):
                i, j = sorted(rnd.sample(range(1, m), 2))
                segsets.append([stream[:i], stream[i:j], stream[j:]])
            for segs in segsets:
                r = _feed_segments(T.parse_client_hello, segs + [b"trailing bytes of the next flight"])
                b.case((si, cuts, tuple(len(x) for x in segs)[:6], len(segs)), nontrivial=bool(spec.get("extensions")))
                inp2 = dict(inp, segments=[len(x) for x in segs][:10])
                if r[0] != "hello":
                    b.fail("tls.segmentation.valid_hello_found", inp2, repr(r)[:200])
                    continue
                if r[2] != len(segs) - 1:
                    b.fail("tls.segmentation.complete_exactly_at_last_byte", inp2, f"completed after segment {r[2]} of {len(segs)}")
                if _observe(r[1]) != got:
                    b.fail("tls.segmentation.same_result", inp2, f"{_observe(r[1])!r} != {got!r}")
        # through the real layer (hook observation), a few segmentations
        stream = tls_records(msg, (5, 9) if n > 9 else ())
        for segs in ([stream], [stream[:7], stream[7:]], [stream[i:i + 1] for i in range(len(stream))] if si % 3 == 0 else [stream[:1], stream[1:]]):
            b.case((si, "layer", len(segs)))
            inp = {"hello": si, "segments": len(segs)}
            try:
                seen, sni, offers, logs = _layer_observation(segs, False)
            except Exception as e:
                b.fail("layer.total", inp, f"{type(e).__name__}: {e}")
                continue
            if len(seen) != 1:
                b.fail("layer.clienthello_hook_once", inp, f"{len(seen)} hooks; logs={[l.message for l in logs]}")
                continue
            if _observe(seen[0]) != want:
                b.fail("layer.hook_sees_independent_reader_result", inp, f"{_observe(seen[0])!r} != {want!r}")
            if sni != want["sni"] or offers != want["alpn"]:
                b.fail("layer.conn_sni_alpn", inp, f"sni={sni!r} offers={offers!r}")
    # ---- DTLS (records with the DTLS 1.2 version; one handshake fragment per record)
    for si, spec in enumerate(specs):
        for cookie in (b"", bytes(range(20))):
            spec2 = dict(spec, cookie=cookie, version=b"\xfe\xfd")
            body = build_hello_body(spec2, dtls=True)
            want = _expected(body, True)
            stream = dtls_record(dtls_handshake(body))
            inp = {"hello": si, "cookie": len(cookie)}
            b.case((si, "dtls", len(cookie)), nontrivial=bool(spec.get("extensions")))
            try:
                ch = T.dtls_parse_client_hello(stream)
                got = _observe(ch) if ch is not None else None
            except Exception as e:
                b.fail("dtls.valid_hello_accepted", inp, f"raised {type(e).__name__}: {e}")
                continue
            if got != want:
                b.fail("dtls.equals_independent_reader", inp, f"got {got!r} want {want!r}")
            # datagram truncation is reported as incomplete, never as another failure
            for cut in range(0, len(stream), 7):
                try:
                    r = T.dtls_parse_client_hello(stream[:cut])
                    if r is not None:
                        b.fail("dtls.truncated_is_incomplete", dict(inp, cut=cut), "returned a hello")
                except ValueError:
                    pass
                except Exception as e:
                    b.fail("dtls.total", dict(inp, cut=cut), f"{type(e).__name__}: {e}")
            # record version of DTLS 1.0 (what OpenSSL clients put on their first flight)
            s10 = dtls_record(dtls_handshake(body), version=b"\xfe\xff")
            try:
                ch = T.dtls_parse_client_hello(s10)
                if ch is None or _observe(ch) != want:
                    b.fail("dtls.record_version_1_0[KF-C13-1]", inp, "not parsed")
            except ValueError as e:
                b.fail("dtls.record_version_1_0[KF-C13-1]", inp, f"ValueError: {e}")
            # handshake fragmentation (RFC 6347 §4.2.3): two fragments, each in its own record
            if len(body) > 40:
                k = len(body) // 2
                frag = dtls_record(dtls_handshake(body, 0, k), 0) + dtls_record(dtls_handshake(body, k, len(body) - k), 1)
                try:
                    ch = T.dtls_parse_client_hello(frag)
                    if ch is None or _observe(ch) != want:
                        b.fail("dtls.fragmented_hello[KF-C13-2]", inp, f"got {None if ch is None else _observe(ch)!r}")
                except ValueError as e:
                    b.fail("dtls.fragmented_hello[KF-C13-2]", inp, f"ValueError: {e}")
    # ---- real OpenSSL clients
    from OpenSSL import SSL
    for dtls in (False, True):
        for sni, alpn in ((b"example.mitmproxy.org", [b"h2", b"http/1.1"]), (None, None), (b"a.example", None), (None, [b"http/1.1"])):
            c = SSL.Connection(SSL.Context(SSL.DTLS_CLIENT_METHOD if dtls else SSL.TLS_CLIENT_METHOD))
            c.set_connect_state()
            if sni:
                c.set_tlsext_host_name(sni)
            if alpn:
                c.set_alpn_protos(alpn)
            try:
                c.do_handshake()
            except SSL.WantReadError:
                pass
            flight = c.bio_read(65535)
            inp = {"openssl": "dtls" if dtls else "tls", "sni": sni and sni.decode(), "alpn": alpn and [a.decode() for a in alpn]}
            b.case(("openssl", dtls, sni, tuple(alpn or ())))
            check = "openssl.dtls_client_hello[KF-C13-1]" if dtls else "openssl.tls_client_hello"
            try:
                ch = (T.dtls_parse_client_hello if dtls else T.parse_client_hello)(flight)
            except ValueError as e:
                b.fail(check, inp, f"ValueError: {e}")
                continue
            if ch is None or ch.sni != (sni.decode() if sni else None) or ch.alpn_protocols != (alpn or []):
                b.fail(check, inp, f"got {ch!r}")
            elif not dtls:
                hdr = 5
                want = _expected(flight[hdr + 4:], False)
                if _observe(ch) != want:
                    b.fail("openssl.tls_equals_independent_reader", inp, f"{_observe(ch)!r} != {want!r}")
    # ---- totality
    def total(fn, data, tag, inp):
        try:
            r = fn(data)
        except ValueError:
            return
        except Exception as e:
            b.fail(tag + ".raises_only_ValueError", inp, f"{type(e).__name__}: {e}")
            return
        if r is not None:
            try:
                _observe(r)
                repr(r)
            except Exception as e:
                b.fail(tag + ".accessors_total", inp, f"{type(e).__name__}: {e}")

    alpha = [0x00, 0x01, 0x03, 0x04, 0x05, 0x16, 0x17, 0xFD, 0xFE, 0xFF, 0x10, 0x80]
    for n in range(0, 4):
        for tup in itertools.product(alpha, repeat=n):
            d = bytes(tup)
            b.case(("short", d), nontrivial=False)
            total(T.parse_client_hello, d, "tls.total", d.hex())
            total(T.dtls_parse_client_hello, d, "dtls.total", d.hex())
            total(T.parse_client_hello, b"\x16\x03\x03\x00" + bytes([4 + n]) + b"\x01\x00\x00" + bytes([n]) + d, "tls.total", "hs:" + d.hex())
    seeds = []
    for spec in specs:
        body = build_hello_body(spec)
        seeds.append((False, tls_records(b"\x01" + len(body).to_bytes(3, "big") + body, ())))
        seeds.append((True, dtls_record(dtls_handshake(build_hello_body(dict(spec, version=b"\xfe\xfd"), dtls=True)))))
    nmut = 3000 if quick else 100000
    for k in range(nmut):
        dtls, base = seeds[k % len(seeds)]
        d = bytearray(base)
        for _ in range(rnd.choice((1, 1, 2, 3))):
            op = rnd.random()
            pos = rnd.randrange(len(d))
            if op < 0.5:
                d[pos] = rnd.choice((0, 1, 0xFF, rnd.randrange(256), d[pos] ^ 0x80))
            elif op < 0.7:
                del d[pos:pos + rnd.choice((1, 2, 5))]
            elif op < 0.85:
                d[pos:pos] = bytes(rnd.randrange(256) for _ in range(rnd.choice((1, 2, 4))))
            else:
                d = d[:pos]
            if not d:
                d = bytearray(b"\x16")
        # keep the record/handshake lengths consistent half of the time so that the mutation reaches the kaitai parser
        if k % 2 == 0:
            H = 13 if dtls else 5
            if len(d) > H + (12 if dtls else 4):
                d[H - 2:H] = (len(d) - H).to_bytes(2, "big")
                if dtls:
                    d[H + 9:H + 12] = (len(d) - H - 12).to_bytes(3, "big")
                    d[0:3] = b"\x16\xfe\xfd"
                else:
                    d[H + 1:H + 4] = (len(d) - H - 4).to_bytes(3, "big")
                    d[0:3] = b"\x16\x03\x03"
        b.case(("mut", k), nontrivial=True)
        total(T.dtls_parse_client_hello if dtls else T.parse_client_hello, bytes(d), "dtls.total" if dtls else "tls.total", bytes(d).hex())
        # the trusted kaitai contract directly: only EOFError
        try:
            mtls.ClientHello(bytes(d[(25 if dtls else 9):]), dtls=dtls)
        except EOFError:
            pass
        except Exception as e:
            b.fail("kaitai.raises_only_EOFError", bytes(d).hex(), f"{type(e).__name__}: {e}")
    return b
