"""Shared T2 helpers for C36/C37/C39/C40: generated flows of every type, an independent reference reader for the
tnetstring record framing, and helpers to read flow files with the real FlowReader."""
from __future__ import annotations

import io
import itertools


def base_flows():
    """one fresh flow of every type / completion shape"""
    from mitmproxy.test import tflow
    return {
        "http": tflow.tflow(resp=True),
        "http_err": tflow.tflow(err=True),
        "http_noresp": tflow.tflow(),
        "ws": tflow.twebsocketflow(),
        "tcp": tflow.ttcpflow(),
        "tcp_err": tflow.ttcpflow(err=True),
        "udp": tflow.tudpflow(),
        "udp_err": tflow.tudpflow(err=True),
        "dns": tflow.tdnsflow(resp=True),
        "dns_err": tflow.tdnsflow(err=True),
    }


FLOW_KINDS = ["http", "http_err", "http_noresp", "ws", "tcp", "tcp_err", "udp", "udp_err", "dns", "dns_err"]


def mk_flow(kind):
    return base_flows()[kind]


def encode_flows(flows):
    """bytes written by the real FlowWriter and the record boundaries (offsets after each flow)"""
    from mitmproxy.io import FlowWriter
    buf = io.BytesIO()
    w = FlowWriter(buf)
    bounds = [0]
    for f in flows:
        w.add(f)
        bounds.append(buf.tell())
    return buf.getvalue(), bounds


def read_all(data_or_file):
    """(states of the flows yielded, end) with end = 'clean' | 'flow-read-error' | ('other', exception)"""
    from mitmproxy.io import FlowReader
    from mitmproxy import exceptions
    fo = io.BytesIO(data_or_file) if isinstance(data_or_file, (bytes, bytearray)) else data_or_file
    got = []
    try:
        for f in FlowReader(fo).stream():
            got.append(f)
        return got, "clean"
    except exceptions.FlowReadException:
        return got, "flow-read-error"
    except Exception as e:  # noqa: BLE001 - the property is precisely about which exceptions escape
        return got, ("other", e)


def spec_frame(data: bytes, pos: int):
    """Reference reader for ONE record frame at data[pos:], written from the netstring format (independent of the code):
    ('eof',) | ('record', tag, payload, newpos) | ('bad',)  -- 'bad' = not (a prefix of) a record or a truncated one."""
    n = len(data)
    if pos >= n:
        return ("eof",)
    i = pos
    while i < n and 48 <= data[i] <= 57:
        i += 1
    d = i - pos
    if d == 0 or d > 12 or i >= n or data[i] != 58:
        return ("bad",)
    ln = int(data[pos:i])
    end = i + 1 + ln
    if end >= n:  # payload or tag byte missing
        return ("bad",)
    return ("record", data[end], data[i + 1:end], end + 1)


def spec_records(data: bytes):
    """complete top-level records before the first problem, and how the file ends: ([(tag, payload)], 'eof'|'bad')"""
    pos, out = 0, []
    while True:
        r = spec_frame(data, pos)
        if r[0] != "record":
            return out, r[0]
        out.append((r[1], r[2]))
        pos = r[3]


def small_strings(alphabet: bytes, maxlen: int):
    for n in range(maxlen + 1):
        for t in itertools.product(alphabet, repeat=n):
            yield bytes(t)
