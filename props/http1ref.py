"""Environment for the bounded (T2) checks of C01 / C02 / C12 — nothing here is under verification.

1. An *executable specification* of an HTTP/1.1 message reader, written from RFC 9112 (and RFC 9110 §5 for field
   syntax), NOT from mitmproxy's code: start-line and field-line grammar (§2.2, §3, §4, §5), message body length
   (§6.1–6.3, the eight rules), chunked coding (§7.1).  It is deliberately strict about what a *sender* may generate and
   records every leniency it had to apply as a flag (bare LF, bare CR, obs-fold, whitespace before the colon, ...), so a
   check can demand "no flags" for bytes mitmproxy itself put on the wire.
2. A sans-io harness that runs mitmproxy's real HttpLayer (regular proxy mode) against scripted client / server byte
   streams under an explicit delivery schedule, with an addon policy, and returns the transcript (bytes per connection,
   closes, hooks, snapshots of the flows as seen by the hooks).
"""
from __future__ import annotations

import re

TCHAR = set(b"!#$%&'*+-.^_`|~0123456789ABCDEFGHIJKLMNOPQRSTUVWXYZabcdefghijklmnopqrstuvwxyz")
DIGITS = set(b"0123456789")
HEXDIG = set(b"0123456789abcdefABCDEF")


def is_token(b: bytes) -> bool:
    return len(b) > 0 and all(c in TCHAR for c in b)


# =====================================================================================================================
# RFC 9112 §6.3 message body length — the framing oracle

def comma_list(values):
    """RFC 9110 §5.6.1 list elements of all field lines of one field, in order (empty elements ignored)"""
    out = []
    for v in values:
        for e in v.split(b","):
            e = e.strip(b" \t")
            if e:
                out.append(e)
    return out


def rfc9112_framing(is_request: bool, req_method: bytes | None, status: int | None, http11: bool, te_values, cl_values):
    """('reject', why) | ('none',) | ('tunnel',) | ('len', n) | ('chunked',) | ('close',)

    te_values / cl_values: the raw field values of all Transfer-Encoding / Content-Length field lines, in order."""
    if not is_request:
        if status == 101:
            return ("tunnel",)  # RFC 9110 §15.2.2: the protocol is switched right after the empty line that ends the 101 head
        # rule 1
        if req_method == b"HEAD":  # RFC 9110 §9.1: the method token is case-sensitive
            return ("none",)
        if 100 <= status <= 199 or status in (204, 304):
            return ("none",)
        # rule 2
        if 200 <= status <= 299 and req_method == b"CONNECT":
            return ("tunnel",)
    if te_values:
        # §6.1: Transfer-Encoding in an HTTP/1.0 message: framing is faulty
        if not http11:
            return ("reject", "transfer-encoding in HTTP/1.0 message")
        # rule 3: TE together with CL "ought to be handled as an error" (request smuggling / response splitting)
        if cl_values:
            return ("reject", "both transfer-encoding and content-length")
        codings = []
        for e in comma_list(te_values):
            name = e.split(b";", 1)[0].strip(b" \t").lower()
            if not is_token(name):
                return ("reject", "malformed transfer-encoding")
            codings.append(name)
        if not codings:
            return ("reject", "empty transfer-encoding")
        if codings.count(b"chunked") > 1:
            return ("reject", "chunked applied more than once")  # §6.1 MUST NOT
        if codings[-1] == b"chunked":
            return ("chunked",)
        if b"chunked" in codings:
            return ("reject", "chunked is not the final coding")
        if is_request:
            return ("reject", "request transfer-encoding without final chunked")
        return ("close",)
    if cl_values:
        # rules 4/5: every list member 1*DIGIT and all the same
        members = []
        for v in cl_values:
            parts = [p.strip(b" \t") for p in v.split(b",")]
            members.extend(parts)
        if not members or any(len(m) == 0 or any(c not in DIGITS for c in m) for m in members):
            return ("reject", "invalid content-length")
        if len({int(m) for m in members}) != 1:
            return ("reject", "differing content-length values")
        return ("len", int(members[0]))
    if is_request:
        return ("len", 0)  # rule 6
    return ("close",)  # rule 8


# =====================================================================================================================
# message reader

class Msg:
    def __init__(self):
        self.is_request = True
        self.method = self.target = self.version = self.reason = None
        self.status = None
        self.fields = []  # [(name, value)] value OWS-trimmed, obs-fold / bare CR replaced by SP (RFC 9112 §5.2, §2.2)
        self.raw_fields = []  # [(name, value)] value OWS-trimmed only (exact octets otherwise)
        self.body = b""
        self.framing = None
        self.flags = set()  # leniencies applied / sender violations seen
        self.trailers = []
        self.interim = []  # 1xx responses read before this final response
        self.head_len = 0
        self.total_len = 0

    def get(self, name: bytes):
        return [v for n, v in self.fields if n.lower() == name]

    def key(self):
        if self.is_request:
            return (self.method, self.target, self.version, tuple(self.fields), self.body)
        return (self.version, self.status, self.reason, tuple(self.fields), self.body)

    def __repr__(self):
        if self.is_request:
            return f"Req({self.method!r} {self.target!r} {self.version!r} {self.fields!r} body={self.body!r} {sorted(self.flags)})"
        return f"Resp({self.version!r} {self.status} {self.reason!r} {self.fields!r} body={self.body!r} {sorted(self.flags)})"


_VERSION = re.compile(rb"HTTP/[0-9]\.[0-9]\Z")


def parse_head(head: bytes, is_request: bool):
    """head = octets up to and excluding the terminating CRLF CRLF.  Returns Msg or ('invalid', why)."""
    m = Msg()
    m.is_request = is_request
    # line structure: CRLF only; anything a lenient reader could take for a line end is flagged
    for i, c in enumerate(head):
        if c == 0x0A and (i == 0 or head[i - 1] != 0x0D):
            m.flags.add("bare_lf")
        if c == 0x0D and (i + 1 >= len(head) or head[i + 1] != 0x0A):
            m.flags.add("bare_cr")
        if c == 0x00:
            m.flags.add("nul")
    lines = head.split(b"\r\n")
    start = lines[0]
    if is_request:
        parts = start.split(b" ")
        if len(parts) != 3:
            return ("invalid", "request-line is not method SP target SP version")
        m.method, m.target, m.version = parts
        if not is_token(m.method):
            return ("invalid", "method is not a token")
        if not m.target or any(c <= 0x20 or c == 0x7F for c in m.target):
            return ("invalid", "whitespace/control in request-target")
    else:
        parts = start.split(b" ", 2)
        if len(parts) < 2:
            return ("invalid", "status-line too short")
        m.version = parts[0]
        if len(parts[1]) != 3 or any(c not in DIGITS for c in parts[1]):
            return ("invalid", "status code is not 3DIGIT")
        m.status = int(parts[1])
        if len(parts) == 2:
            m.flags.add("no_sp_after_status")  # status-line = version SP code SP [reason]: the second SP is required
            m.reason = b""
        else:
            m.reason = parts[2]
        if any((c < 0x20 and c != 0x09) or c == 0x7F for c in m.reason):
            m.flags.add("ctl_in_reason")
    if not _VERSION.match(m.version):
        return ("invalid", "bad HTTP-version")
    for ln in lines[1:]:
        if ln == b"":
            return ("invalid", "empty line inside the header section")  # cannot happen: head ends at first CRLFCRLF
        if ln[0] in b" \t":
            # obs-fold (§5.2): replace with SP before interpreting
            if not m.fields:
                return ("invalid", "whitespace before the first field line")
            m.flags.add("obs_fold")
            n, v = m.fields[-1]
            m.fields[-1] = (n, (v + b" " + ln.strip(b" \t")).strip(b" \t"))
            rn, rv = m.raw_fields[-1]
            m.raw_fields[-1] = (rn, rv + b"\r\n" + ln)
            continue
        if b":" not in ln:
            return ("invalid", "field line without colon")
        name, value = ln.split(b":", 1)
        if not is_token(name):
            return ("invalid", "field name is not a token")  # includes whitespace before the colon (§5.1)
        value = value.strip(b" \t")
        m.raw_fields.append((name, value))
        if b"\r" in value or b"\n" in value or b"\x00" in value:
            # RFC 9110 §5.5 / RFC 9112 §2.2: invalid; a recipient that does not reject replaces each with SP
            value = value.replace(b"\r", b" ").replace(b"\n", b" ").replace(b"\x00", b" ")
        m.fields.append((name, value))
    return m


def read_chunked(data: bytes, pos: int):
    """§7.1.  Returns ('ok', body, trailers, newpos) | ('incomplete',) | ('invalid', why)"""
    body = bytearray()
    while True:
        e = data.find(b"\r\n", pos)
        if e < 0:
            return ("incomplete",)
        line = data[pos:e]
        size_part = line.split(b";", 1)[0]
        if b";" in line:
            pass  # chunk-ext: ignored (§7.1.1)
        size_part = size_part.rstrip(b" \t") if b";" in line else size_part  # BWS before ";" (bad whitespace) tolerated
        if len(size_part) == 0 or any(c not in HEXDIG for c in size_part):
            return ("invalid", f"bad chunk-size {line!r}")
        n = int(size_part, 16)
        pos = e + 2
        if n == 0:
            break
        if len(data) < pos + n + 2:
            return ("incomplete",)
        body += data[pos:pos + n]
        if data[pos + n:pos + n + 2] != b"\r\n":
            return ("invalid", "chunk data not followed by CRLF")
        pos += n + 2
    trailers = []
    while True:
        e = data.find(b"\r\n", pos)
        if e < 0:
            return ("incomplete",)
        line = data[pos:e]
        pos = e + 2
        if line == b"":
            return ("ok", bytes(body), trailers, pos)
        if b":" not in line or not is_token(line.split(b":", 1)[0]):
            return ("invalid", "bad trailer field")
        n, v = line.split(b":", 1)
        trailers.append((n, v.strip(b" \t")))


def read_stream(data: bytes, is_request: bool, eof: bool, req_methods=None):
    """Read consecutive messages.  Returns dict(messages=[Msg], state='clean'|'incomplete'|'invalid', why=str, rest=bytes).
    For responses `req_methods` gives the method of the request each *final* response answers (in order); reading stops
    with state 'clean' and the remaining octets in `rest` when the methods are used up, or after a tunnel/close-delimited
    message."""
    out = []
    pos = 0
    interim = []
    k = 0
    while pos < len(data):
        if not is_request and req_methods is not None and k >= len(req_methods):
            return dict(messages=out, state="extra", why="octets after the last expected response", rest=data[pos:])
        start = pos
        leading = 0
        while is_request and data[pos:pos + 2] == b"\r\n":
            pos += 2  # §2.2: empty lines before a request-line are ignored
            leading += 1
        if pos >= len(data):
            break
        e = data.find(b"\r\n\r\n", pos)
        if e < 0:
            return dict(messages=out, state="incomplete", why="head not terminated", rest=data[start:])
        m = parse_head(data[pos:e], is_request)
        if isinstance(m, tuple):
            return dict(messages=out, state="invalid", why=m[1], rest=data[start:])
        if leading:
            m.flags.add("leading_crlf")
        m.head_len = e + 4 - start
        pos = e + 4
        method = None if is_request else (req_methods[k] if req_methods is not None else None)
        http11 = m.version >= b"HTTP/1.1"
        fr = rfc9112_framing(is_request, method, m.status, http11, m.get(b"transfer-encoding"), m.get(b"content-length"))
        m.framing = fr
        if fr[0] == "reject":
            return dict(messages=out, state="invalid", why=fr[1], rest=data[start:], bad=m)
        if fr[0] == "none":
            pass
        elif fr[0] == "len":
            if len(data) < pos + fr[1]:
                return dict(messages=out, state="incomplete", why="body shorter than content-length", rest=data[start:], partial=m)
            m.body = data[pos:pos + fr[1]]
            pos += fr[1]
        elif fr[0] == "chunked":
            r = read_chunked(data, pos)
            if r[0] == "incomplete":
                return dict(messages=out, state="incomplete", why="chunked body not terminated", rest=data[start:], partial=m)
            if r[0] == "invalid":
                return dict(messages=out, state="invalid", why=r[1], rest=data[start:], bad=m)
            m.body, m.trailers, pos = r[1], r[2], r[3]
        elif fr[0] in ("close", "tunnel"):
            m.body = data[pos:]
            pos = len(data)
            m.total_len = pos - start
            if fr[0] == "close" and not eof:
                m.interim = interim
                out.append(m)
                return dict(messages=out, state="incomplete", why="close-delimited body, connection still open", rest=b"", partial=m)
            m.interim = interim
            out.append(m)
            return dict(messages=out, state="clean", why=fr[0], rest=b"")
        m.total_len = pos - start
        if not is_request and 100 <= m.status <= 199 and m.status != 101:
            interim.append(m)  # §15.2 of RFC 9110: interim response, the final response follows
            continue
        m.interim = interim
        interim = []
        out.append(m)
        k += 1
    if interim:
        return dict(messages=out, state="incomplete", why="interim response(s) without final response", rest=b"", dangling_interim=interim)
    return dict(messages=out, state="clean", why="", rest=b"")


def request_verdict(raw: bytes):
    """classification of one raw request (head + body as the sender meant it) by the spec reader:
    'ambiguous' (the statement's class: conflicting/malformed CL/TE, invalid field names), 'malformed' (other syntax errors),
    'flagged' (readable only with a leniency: bare LF/CR, obs-fold), 'ok'."""
    r = read_stream(raw, True, False)
    if r["state"] == "invalid":
        why = r["why"]
        if "content-length" in why or "transfer-encoding" in why or "chunked" in why or "field name" in why:
            return "ambiguous", why
        return "malformed", why
    if r["state"] == "incomplete":
        return "incomplete", r["why"]
    fl = set()
    for m in r["messages"]:
        fl |= m.flags
    if fl:
        return "flagged", ",".join(sorted(fl))
    return "ok", ""


# =====================================================================================================================
# sans-io harness around the real HttpLayer

_OPTS = {}


def get_options(**kw):
    from props import sansio
    key = tuple(sorted(kw.items()))
    if key not in _OPTS:
        _OPTS[key] = sansio.make_options(**kw)
    return _OPTS[key]


class Snapshot:
    """what a hook saw of a message (after the addon policy ran)"""

    def __init__(self, msg, is_request):
        d = msg.data
        self.is_request = is_request
        self.http_version = d.http_version
        self.fields = tuple(d.headers.fields)
        self.content = d.content
        self.trailers = None if d.trailers is None else tuple(d.trailers.fields)
        if is_request:
            self.method, self.scheme, self.authority, self.path = d.method, d.scheme, d.authority, d.path
            self.host, self.port = d.host, d.port
        else:
            self.status_code, self.reason = d.status_code, d.reason

    def __repr__(self):
        if self.is_request:
            return f"ReqSnap({self.method!r} {self.authority!r} {self.path!r} {self.http_version!r} {self.fields!r} content={self.content!r})"
        return f"RespSnap({self.http_version!r} {self.status_code} {self.reason!r} {self.fields!r} content={self.content!r})"


class FlowRecord:
    def __init__(self, flow):
        self.flow = flow
        self.hooks = []  # hook names in order
        self.snaps = {}  # hook name -> Snapshot(s)
        self.error = None

    def __repr__(self):
        return f"Flow(hooks={self.hooks}, snaps={self.snaps}, error={self.error})"


class Sink:
    """child layer for CONNECT tunnels: records raw data"""


class Exchange:
    """One run of HttpLayer.  `responses`: list of (bytes, close_after: bool) the origin server sends, one per request
    it receives, in order.  `schedule`: string over 'c' (deliver next client segment) and 's' (deliver next available
    server segment); missing steps are appended (client first, then server) until nothing is left."""

    def __init__(self, client_segments, responses, server_splitter=None, schedule="", addon=None, client_closes=False,
                 options=None, open_error=None, respond_when="complete"):
        from mitmproxy.proxy import layers, layer as L, events, commands
        from mitmproxy.proxy.layers.http import HTTPMode
        from props import sansio

        self.opts = options if options is not None else get_options()
        self.ctx = sansio.context_for(self.opts)
        self.client = self.ctx.client
        self.flows = []
        self._by_id = {}
        self.hook_seq = []
        self.addon = addon
        self.tunnel_data = []
        self.error = None
        ex = self

        class TunnelSink(L.Layer):
            def _handle_event(self, event):
                if isinstance(event, events.DataReceived):
                    ex.tunnel_data.append(("client" if event.connection is ex.client else "server", bytes(event.data)))
                yield from ()

        def policy(hook):
            name = hook.name
            if name == "next_layer":
                hook.data.layer = TunnelSink(hook.data.context)
                return
            args = hook.args()
            f = args[0] if args else None
            if f is None or not hasattr(f, "request"):
                return
            rec = self._by_id.get(id(f))
            if rec is None:
                rec = FlowRecord(f)
                self._by_id[id(f)] = rec
                self.flows.append(rec)
            if self.addon is not None:
                self.addon(name, f, len(self.flows) - 1)
            rec.hooks.append(name)
            self.hook_seq.append((self.flows.index(rec), name))
            if getattr(f, "request", None) is not None and name in ("requestheaders", "request", "http_connect"):
                rec.snaps[name] = Snapshot(f.request, True)
            if getattr(f, "response", None) is not None and name in ("responseheaders", "response"):
                rec.snaps[name] = Snapshot(f.response, False)
            if name == "error":
                rec.error = f.error.msg if f.error else None

        self.top = layers.HttpLayer(self.ctx, HTTPMode.regular)
        self.d = sansio.Driver(self.top, hook_policy=policy, open_policy=(lambda cmd: open_error) if open_error else None)
        d = self.d
        cq = list(client_segments)
        responses = list(responses)
        sq = []  # (conn, segment) ready for delivery
        answered = {}  # conn id -> number of responses queued
        close_after = []
        try:
            d.start()

            def refill():
                # the origin server answers each complete request it has read (spec reader), in order
                for conn in d.opened:
                    if not responses:
                        return
                    got = read_stream(d.bytes_to(conn), True, False)
                    n = len(got["messages"])
                    while answered.get(conn.id, 0) < n and responses:
                        item = responses.pop(0)
                        if callable(item):  # responder: the origin's answer depends on the request it read
                            item = item(got["messages"][answered.get(conn.id, 0)])
                        body, close = item
                        segs = server_splitter(body) if server_splitter else [body]
                        for s in segs:
                            if s:
                                sq.append((conn, s))
                        if close:
                            sq.append((conn, None))
                        answered[conn.id] = answered.get(conn.id, 0) + 1

            def step(kind):
                from mitmproxy.connection import ConnectionState
                if kind == "c":
                    if cq and (self.client.state & ConnectionState.CAN_READ):
                        d.data(self.client, cq.pop(0))
                        return True
                    if cq:
                        cq.clear()
                    return False
                refill()
                if sq:
                    conn, s = sq.pop(0)
                    if s is None:
                        if conn.state & ConnectionState.CAN_READ:
                            d.close(conn)
                    elif conn.state & ConnectionState.CAN_READ:
                        d.data(conn, s)
                    return True
                return False

            for k in schedule:
                step(k)
            progress = True
            while progress:
                progress = False
                while step("c"):
                    progress = True
                while step("s"):
                    progress = True
            if client_closes:
                from mitmproxy.connection import ConnectionState
                if self.client.state & ConnectionState.CAN_READ:
                    d.close(self.client)
        except Exception as e:  # totality is checked by the caller
            import traceback
            self.error = f"{type(e).__name__}: {e}\n{traceback.format_exc()[-1500:]}"
        self.unanswered = len(responses)
        self.servers = list(d.opened)

    # ---- transcript
    def to_client(self) -> bytes:
        return self.d.bytes_to(self.client)

    def to_server(self, i=None) -> bytes:
        if i is None:
            return b"".join(self.d.bytes_to(s) for s in self.servers)
        return self.d.bytes_to(self.servers[i])

    def closed(self, conn):
        """'full' | 'half' | None: what mitmproxy did to conn"""
        r = None
        for c, half in self.d.closed:
            if c is conn:
                r = "half" if half and r is None else "full"
        return r

    def hook_names(self):
        return [(i, n) for i, n in self.hook_seq]
