"""C23 — mitmproxy never proxies a connection back to its own listening sockets.

Spec (from the statement). For a destination (connect_host, connect_port, transport) and a listener L = (listen_host,
listen_port) of a server instance whose mode serves `listen_transport` in {tcp, udp, both}:

    own(dest, L) = connect_port == listen_port
                   and (listen_transport == transport or listen_transport == "both")          # "for the same transport"
                   and ( connect_host == listen_host                                            # its explicit listen address
                         or (listen_host is a loopback or wildcard address                      # listening on loopback / all interfaces
                             and connect_host is `localhost` (any case, optional trailing dot), an address in 127.0.0.0/8,
                                 ::1, an IPv4-mapped loopback address, or the wildcard 0.0.0.0 / ::) )

    post: (exists L. own(dest, L))  =>  server.error is set (destination-unknown error)
          no listener has the same port+transport and a host text that is the listen host or a local spelling  =>  server.error unchanged
          (a local spelling on our port is refused whatever the listen host is: the statement only forbids connecting, it does not
          demand that such a request succeeds)

Modular: `_denotes_local(host)` has its own contract (scenario _denotes_local) and is an uninterpreted predicate in the
server_connect contract.
          server.sockname is filled from _connect_addr only when it was None; nothing else changes.

Address texts are parsed by the ipaddress library (uninterpreted (version, value) in T1); the classes "loopback" and
"wildcard" are defined numerically on the parsed value (RFC 1122 §3.2.1.3, RFC 4291 §2.5.2/2.5.3/2.5.5.2).
"""
from pyvc.api import *
from props.prelude import *

CLAIM = "other"
EXPLANATION = ("T1 proves _denotes_local against the statement's spelling classes (relative to the ipaddress model) and the guard of server_connect against the "
               "denotes-own-socket predicate for all destination texts, ports, listen addresses and transports, but over a bounded structure (the double loop over server "
               "instances x listen addresses is unrolled for <= 2 instances with <= 2 addresses each, no loop invariant). Larger listener configurations and the statement's "
               "spelling list are enumerated on the real addon (T2)")
P = "mitmproxy.addons.proxyserver:Proxyserver"
MS = "mitmproxy.proxy.mode_specs:"
TWO24, TWO32 = 2 ** 24, 2 ** 32
LITERALS = ("localhost", "127.0.0.1", "::1")
# mode classes standing for the three listener transports (class attribute transport_protocol)
MODE_OF = {"tcp": "RegularMode", "udp": "WireGuardMode", "both": "DnsMode"}
ASSUMPTIONS = [
    "ipaddress.ip_address(text) is an uninterpreted parser (version, numeric value) of host texts; loopback/wildcard classes are defined numerically on its result",
    "str.lower() is an uninterpreted function (idempotent, length preserving) in T1",
    "library facts used by the _denotes_local contract (checked natively on every replay): IPv4Address.is_loopback <=> value in 127.0.0.0/8; for an IPv6 address that is not IPv4-mapped, is_loopback <=> value == 1; is_unspecified <=> value == 0",
    "in the server_connect contract _denotes_local is an uninterpreted predicate of the host text (real function natively)",
    "listen hosts are IP literals (they come from getsockname())",
    "structure bound of the T1 scenario: <= 2 server instances with <= 2 listen addresses each (all contents symbolic); larger configurations are covered by T2 only",
]


class Inst23:
    """ServerInstance stand-in: exactly the two attributes server_connect reads."""


def ip_parse(vc, s):
    if vc.mode == "native":
        import ipaddress
        try:
            a = ipaddress.ip_address(s)
        except ValueError:
            return 0, 0
        return a.version, int(a)
    from pyvc import libx_addons as X
    return SInt(X.ip_version_t(s.t)), SInt(X.ip_value_t(s.t))


def lower(vc, s):
    if vc.mode == "native":
        return s.lower()
    from pyvc import lib
    import z3
    return SStr(lib.uf("lower", z3.StringSort(), z3.StringSort())(s.t))


def is_loopback_addr(ver, val):
    mapped = And(val // TWO32 == 0xFFFF, (val % TWO32) // TWO24 == 127)
    return Or(And(ver == 4, val // TWO24 == 127), And(ver == 6, Or(val == 1, mapped)))


def is_wildcard_addr(ver, val):
    return And(Or(ver == 4, ver == 6), val == 0)


from mitmproxy.addons import proxyserver as _proxyserver  # noqa: E402

_ORIG = [_proxyserver._denotes_local]          # boxed: native summaries also patch module-level aliases
DL = "mitmproxy.addons.proxyserver:_denotes_local"


def _register_oracles():
    from pyvc import lib
    lib.UF_ORACLES["denotes_local23"] = lambda s: bool(_ORIG[0](s))


_register_oracles()


def local_pred(vc, host):
    """the (separately contracted) predicate _denotes_local: uninterpreted in proof mode, the real function natively"""
    if vc.mode == "native":
        return bool(_ORIG[0](host))
    import z3
    from pyvc import lib
    return SBool(lib.uf("denotes_local23", z3.StringSort(), z3.BoolSort())(host.t))


# ---------------------------------------------------------------------------------------------
# _denotes_local(host)  <=>  host is `localhost` in any case with an optional trailing dot, an address in 127.0.0.0/8, ::1,
#                            an IPv4-mapped loopback address, or the wildcard address 0.0.0.0 / ::

DL_CANDS = [{"host": h} for h in ("localhost", "LOCALHOST", "LocalHost.", "localhost..", "xlocalhost", "127.0.0.1", "127.255.255.254", "128.0.0.1", "::1", "::2",
                                   "::ffff:127.0.0.1", "::ffff:128.0.0.1", "::ffff:0.0.0.0", "0.0.0.0", "::", "example.com", "")]


@scenario("_denotes_local", functions=[DL], candidates=DL_CANDS)
def s_denotes_local(vc):
    host = vc.sym_str("host")
    ver, val = ip_parse(vc, host)
    if vc.mode == "sym":
        vc.assume(And(val >= 0, If(ver == 4, val < TWO32, val < 2 ** 128)))
    mapped = And(ver == 6, val // TWO32 == 0xFFFF)
    # library facts (see ASSUMPTIONS), instantiated on the values the function can ask about
    if vc.mode == "sym":
        from pyvc import libx_addons as X
        v4 = If(mapped, val % TWO32, val)
        vc.assume(Iff(SBool(X.ip_pred_t("is_loopback", 4, v4.t)), v4 // TWO24 == 127))
        vc.assume(Implies(Not(mapped), Iff(SBool(X.ip_pred_t("is_loopback", 6, val.t)), val == 1)))
    else:
        import ipaddress
        if ver == 4:
            vc.assume(ipaddress.IPv4Address(val).is_loopback == (val // TWO24 == 127))
        if ver == 6 and not mapped:
            vc.assume(ipaddress.IPv6Address(val).is_loopback == (val == 1))
    out = vc.call(DL, host)
    vc.ensure("total", out.ok)
    if not out.ok:
        return
    lo = lower(vc, host)
    name = Or(lo == "localhost", lo == "localhost.")
    spec = Or(name, is_loopback_addr(ver, val), is_wildcard_addr(ver, val), And(mapped, val % TWO32 == 0))
    r = out.result
    vc.ensure("result.iff_statement_spelling_classes", Iff(vc.truthy(r) if vc.mode == "native" else vc.eq(r, True), spec))
    vc.ensure("result.is_bool", Or(vc.eq(r, True), vc.eq(r, False)))


def cands():
    out = []
    for ch in ("localhost", "LOCALHOST", "localhost.", "127.0.0.1", "127.0.0.2", "::1", "::ffff:127.0.0.1", "0.0.0.0", "::", "example.com", "192.168.1.5"):
        for lh in ("127.0.0.1", "::1", "0.0.0.0", "::", "192.168.1.5"):
            for cp in (8080, 8081):
                out.append({"connect_host": ch, "connect_port": cp, "listen_host_0_0": lh, "listen_host_0_1": "::", "listen_host_1_0": "192.168.1.5", "listen_host_1_1": lh,
                            "listen_port_0_0": 8080, "listen_port_0_1": 8080, "listen_port_1_0": 8080, "listen_port_1_1": 8080})
    return out


SHAPES = [[1], [2], [1, 1]]


@scenario("server_connect", functions=[P + ".server_connect"], candidates=cands)
def s_server_connect(vc):
    shape = vc.case("shape", SHAPES)
    ct = vc.case("transport", ["tcp", "udp"])
    ch = vc.sym_str("connect_host")
    cp = vc.sym_int("connect_port", lo=0, hi=65535)
    insts, listeners = [], []
    for i, n in enumerate(shape):
        lt = vc.case(f"listener_transport_{i}", ["tcp", "udp", "both"])
        addrs = []
        for j in range(n):
            lh = vc.sym_str(f"listen_host_{i}_{j}")
            lp = vc.sym_int(f"listen_port_{i}_{j}", lo=0, hi=65535)
            lver, lval = ip_parse(vc, lh)
            vc.assume(Or(lver == 4, lver == 6))
            if vc.mode == "sym":
                vc.assume(And(lval >= 0, lval < 2 ** 128))
            # IPv6 socknames are 4-tuples (host, port, flowinfo, scope_id)
            addrs.append((lh, lp, 0, 0) if j == 1 else (lh, lp))
            listeners.append((lh, lp, lt, lver, lval))
        mode = vc.new(MS + MODE_OF[lt], full_spec=lt, data="", custom_listen_host=None, custom_listen_port=None)
        insts.append(vc.new("props.C23:Inst23", mode=mode, listen_addrs=tuple(addrs)))
    servers = vc.new("mitmproxy.addons.proxyserver:Servers", _instances=vc.dict([(f"s{i}", x) for i, x in enumerate(insts)]))
    connect_addr = vc.case("connect_addr", [None, ("10.1.2.3", 0)])
    self_ = vc.new(P, servers=servers, _connect_addr=connect_addr, connections=vc.dict([]), is_running=True)
    pre_sock = vc.case("sockname", [None, ("10.9.9.9", 1234)])
    pre_error = vc.opt("pre_error", vc.sym_str("pre_error_v"))
    server = mk_server(vc, address=(ch, cp), transport_protocol=ct, sockname=pre_sock, error=pre_error)
    data = vc.new("mitmproxy.proxy.server_hooks:ServerConnectionHookData", server=server, client=mk_client(vc))
    vc.summary(DL, lambda v, h: local_pred(v, h if v.mode == "native" else v.resolve(h)))
    out = vc.call(P + ".server_connect", self_, data)
    vc.ensure("no_exception", out.ok)
    if not out.ok:
        return
    local = local_pred(vc, ch)
    own, maybe = [], []
    for lh, lp, lt, lver, lval in listeners:
        if not (lt == ct or lt == "both"):          # "for the same transport": a mode serving both transports serves this one
            continue
        listens_local = Or(is_loopback_addr(lver, lval), is_wildcard_addr(lver, lval))
        same_port = cp == lp
        own.append(And(same_port, Or(ch == lh, And(listens_local, local))))
        maybe.append(And(same_port, Or(ch == lh, local)))
    post = server.error
    err_set = _truthy_str(vc, post)
    # (1) the destination denotes one of our listening sockets => refused
    if own:
        vc.ensure("own_socket.refused", Implies(Or(*own), err_set))
    # (2) clearly not our socket (other port / other transport / a host text that is neither the listen host nor a local spelling): unchanged
    not_ours = Not(Or(*maybe)) if maybe else True
    vc.ensure("not_own.error_unchanged", Implies(not_ours, _unchanged(vc, post, pre_error)))
    vc.ensure("error.only_set_or_unchanged", Or(err_set, _unchanged(vc, post, pre_error)))
    # frame
    exp_sock = pre_sock if pre_sock is not None else connect_addr
    vc.ensure("sockname.filled_only_if_missing", vc.eq(server.sockname, exp_sock))
    vc.ensure("frame.address", vc.eq(server.address, (ch, cp)))


# ---------------------------------------------------------------------------------------------
# The guard compares against `server.listen_addrs`: every socket a server instance listens on must be reported there
# (the documented listen_port=0 fallback binds IPv4 and IPv6 wildcard sockets to *different* ports).

class Sock23:
    def getsockname(self):
        return self.name


class Srv23:
    """asyncio.Server stand-in: .sockets"""


LA = "mitmproxy.proxy.mode_servers:RegularInstance"


@scenario("listen_addrs.reports_every_socket", functions=["mitmproxy.proxy.mode_servers:AsyncioServerInstance.listen_addrs"])
def s_listen_addrs(vc):
    shape = vc.case("sockets_per_server", [[1], [2], [3], [1, 1], [2, 1], []])
    fixed = vc.case("hosts", ["symbolic", "dual_stack_wildcards"])
    names, servers, k = [], [], 0
    for i, n in enumerate(shape):
        socks = []
        for j in range(n):
            host = vc.sym_str(f"host{k}") if fixed == "symbolic" else ("0.0.0.0" if j % 2 == 0 else "::")
            port = vc.sym_int(f"port{k}", lo=0, hi=65535)
            name = (host, port) if j % 2 == 0 else (host, port, 0, 0)
            names.append(name)
            socks.append(vc.new("props.C23:Sock23", name=name))
            k += 1
        servers.append(vc.new("props.C23:Srv23", sockets=vc.list(socks)))
    inst = vc.new(LA, _servers=vc.list(servers))
    try:
        r = vc.getattr(inst, "listen_addrs")
    except Exception as e:
        if type(e).__name__ in ("PathEnd", "Unsupported", "NativeStop"):
            raise
        vc.ensure("total", False)
        return
    vc.ensure("every_socket_reported_once_in_order", vc.eq(r, tuple(names)))


def _truthy_str(vc, v):
    if vc.mode == "native":
        return isinstance(v, str) and len(v) > 0
    if isinstance(v, SUnion):
        return False
    return isinstance(v, SStr) and (v.concrete() is None or len(v.concrete()) > 0) and (len_(v) > 0)


def _unchanged(vc, post, pre):
    if vc.mode == "sym":
        return post is pre
    return post is pre or post == pre


# =============================================================================================
# T2 (bounded): the spelling list of the statement x listen configurations x transports, on the real addon

def _spec_own(ch, cp, ct, lh, lp, lt):
    import ipaddress

    def parse(s):
        try:
            return ipaddress.ip_address(s)
        except ValueError:
            return None

    def loop(a):
        if a is None:
            return False
        if a.version == 4:
            return int(a) >> 24 == 127
        return int(a) == 1 or ((int(a) >> 32) == 0xFFFF and ((int(a) & 0xFFFFFFFF) >> 24) == 127)

    def wild(a):
        return a is not None and int(a) == 0

    if cp != lp or not (lt == ct or lt == "both"):
        return False
    a, l = parse(ch), parse(lh)
    local = ch.lower() in ("localhost", "localhost.") or loop(a) or wild(a)
    return ch == lh or ((loop(l) or wild(l)) and local)


def _run_real(ch, cp, ct, listeners):
    """listeners: list of (mode spec, [(host, port), ...])"""
    from mitmproxy.addons import proxyserver
    from mitmproxy.proxy import mode_specs, server_hooks
    from mitmproxy import connection
    ps = proxyserver.Proxyserver.__new__(proxyserver.Proxyserver)
    srv = proxyserver.Servers.__new__(proxyserver.Servers)
    inst = {}
    for k, (spec, addrs) in enumerate(listeners):
        i = Inst23()
        i.mode = mode_specs.ProxyMode.parse(spec)
        i.listen_addrs = tuple(addrs)
        inst[k] = i
    srv._instances = inst
    ps.servers = srv
    ps._connect_addr = None
    s = connection.Server(address=(ch, cp), transport_protocol=ct)
    c = connection.Client(peername=("127.0.0.1", 1), sockname=("127.0.0.1", 2), timestamp_start=0)
    ps.server_connect(server_hooks.ServerConnectionHookData(server=s, client=c))
    return s.error


SPELLINGS = ["localhost", "LOCALHOST", "LocalHost", "localhost.", "LOCALHOST.", "127.0.0.1", "127.0.0.2", "127.1.2.3", "127.255.255.254", "::1",
             "0:0:0:0:0:0:0:1", "::ffff:127.0.0.1", "::ffff:7f00:1", "0.0.0.0", "::", "192.168.1.5", "example.com", "128.0.0.1", "126.255.255.255", "::2"]
LISTEN_HOSTS = ["127.0.0.1", "::1", "0.0.0.0", "::", "192.168.1.5"]
MODE_SPECS = [("regular", "tcp"), ("socks5", "tcp"), ("reverse:http://example.com", "tcp"), ("reverse:https://example.com", "both"), ("reverse:dns://8.8.8.8", "both"),
              ("dns", "both"), ("wireguard", "udp"), ("reverse:udp://example.com:53", "udp"), ("reverse:quic://example.com", "udp")]


def bounded(tier, seed):
    import itertools
    b = Bounded()
    b.rule = ("destination spellings of the statement (localhost in any case / trailing dot, 127.0.0.0/8 boundary addresses, ::1 in two notations, IPv4-mapped loopback, "
              "0.0.0.0, ::, plus non-local controls) x listen host {127.0.0.1, ::1, 0.0.0.0, ::, specific IP} x listener mode (tcp / udp / both-transport modes) x "
              "destination transport x same/different port, single listener and dual-stack pairs; distinct = the tuple; non-trivial = spec says the destination is our own socket")
    b.bound = f"{len(SPELLINGS)} spellings x {len(LISTEN_HOSTS)} listen hosts x {len(MODE_SPECS)} modes x 2 transports x 2 ports (+ dual-stack configs)"
    b.exhaustive = False
    modes = MODE_SPECS if tier == "thorough" else [MODE_SPECS[0], MODE_SPECS[3], MODE_SPECS[5], MODE_SPECS[6]]
    for ch, lh, (spec, lt), ct, cp in itertools.product(SPELLINGS, LISTEN_HOSTS, modes, ["tcp", "udp"], [8080, 8081]):
        configs = [[(spec, [(lh, 8080)])]]
        if lh in ("0.0.0.0", "::"):
            configs.append([(spec, [("0.0.0.0", 8080), ("::", 8080, 0, 0)])])
            configs.append([("regular@9999", [("192.168.1.5", 9999)]), (spec, [(lh, 8080)])])
        for cfg in configs:
            own = any(_spec_own(ch, cp, ct, a[0], a[1], _lt(s)) for s, addrs in cfg for a in addrs)
            key = (ch, cp, ct, repr(cfg))
            b.case(key, nontrivial=own)
            inp = {"connect": [ch, cp, ct], "listeners": repr(cfg)}
            try:
                err = _run_real(ch, cp, ct, cfg)
            except Exception as e:
                b.fail("server_connect.total", inp, f"raised {type(e).__name__}: {e}")
                continue
            if own and not err:
                b.fail("server_connect.own_socket_refused", inp, "destination denotes our own listening socket but server.error is not set")
            maybe = any(cp == a[1] and (_lt(s) in (ct, "both")) and (ch == a[0] or _spec_own(ch, cp, ct, "127.0.0.1", cp, ct)) for s, addrs in cfg for a in addrs)
            if not maybe and err:
                b.fail("server_connect.not_own_untouched", inp, f"error set for a destination that is not ours: {err!r}")
    # the real listen_addrs feeding the guard: dual-stack wildcard sockets on the same and on different ports (listen_port=0 fallback)
    from mitmproxy.proxy import mode_servers, mode_specs, server_hooks
    from mitmproxy import connection
    for p4, p6 in ((8080, 8080), (40001, 40002)):
        for ch, cport in itertools.product(["127.0.0.1", "::1", "localhost", "0.0.0.0", "::"], sorted({p4, p6})):
            inst = mode_servers.RegularInstance.__new__(mode_servers.RegularInstance)
            inst.mode = mode_specs.ProxyMode.parse("regular")
            srv = Srv23()
            s4, s6 = Sock23(), Sock23()
            s4.name, s6.name = ("0.0.0.0", p4), ("::", p6, 0, 0)
            srv.sockets = [s4, s6]
            inst._servers = [srv]
            ps = proxyserver_new([inst])
            sv = connection.Server(address=(ch, cport), transport_protocol="tcp")
            cl = connection.Client(peername=("127.0.0.1", 1), sockname=("127.0.0.1", 2), timestamp_start=0)
            b.case(("real-listen_addrs", p4, p6, ch, cport), nontrivial=True)
            ps.server_connect(server_hooks.ServerConnectionHookData(server=sv, client=cl))
            if not sv.error:
                b.fail("server_connect.own_socket_refused", {"sockets": [list(s4.name), list(s6.name)], "connect": [ch, cport]}, "a listening socket of the instance is not refused (listen_addrs / guard)")
            if len(inst.listen_addrs) != 2:
                b.fail("listen_addrs.reports_every_socket", {"sockets": [list(s4.name), list(s6.name)]}, repr(inst.listen_addrs))
    # _denotes_local itself on the spelling list (+ near misses)
    from mitmproxy.addons import proxyserver
    for h in SPELLINGS + ["localhost..", ".localhost", "localhost.x", "local host", "127.0.0.1.", "::ffff:128.0.0.1", "::ffff:0.0.0.0", "::ffff:0:0", "0", "0x7f.1", "::1%lo", "", "LOCALHOST "]:
        b.case(("denotes_local", h), nontrivial=_spec_local(h))
        try:
            got = bool(proxyserver._denotes_local(h))
        except Exception as e:
            b.fail("denotes_local.total", {"host": h}, f"raised {type(e).__name__}: {e}")
            continue
        if got != _spec_local(h):
            b.fail("denotes_local.matches_statement_spellings", {"host": h}, f"expected {_spec_local(h)}, got {got}")
    return b


def proxyserver_new(instances):
    from mitmproxy.addons import proxyserver
    ps = proxyserver.Proxyserver.__new__(proxyserver.Proxyserver)
    srv = proxyserver.Servers.__new__(proxyserver.Servers)
    srv._instances = dict(enumerate(instances))
    ps.servers = srv
    ps._connect_addr = None
    return ps


def _lt(spec):
    from mitmproxy.proxy import mode_specs
    return mode_specs.ProxyMode.parse(spec).transport_protocol


def _spec_local(host):
    """the statement's spelling classes, written independently of the code"""
    import ipaddress
    if host.lower() in ("localhost", "localhost."):
        return True
    try:
        a = ipaddress.ip_address(host)
    except ValueError:
        return False
    v = int(a)
    if a.version == 6 and (v >> 32) == 0xFFFF:
        v, four = v & 0xFFFFFFFF, True
    else:
        four = a.version == 4
    return v == 0 or (v >> 24 == 127 if four else v == 1)
