"""C44 — option updates are transactional, typed and survive a config round-trip.

Spec sources: the statement; the OptManager docstring ("If any handler in the chain raises an exceptions.OptionsError
exception, all changes are rolled back, the exception is suppressed [re-raised by update], and the .errored signal is
notified"); typecheck.check_option_type docstring ("raises a TypeError otherwise").
"""
from pyvc.api import *
from pyvc.core import SSet

CLAIM = "other"
EXPLANATION = (
    "T1 proves, for all option values, the type gate (check_option_type returns iff the value conforms, else TypeError; "
    "_Option.set/current/reset/has_changed), and the transaction mechanism of OptManager.update_known/rollback/update/"
    "update_defer/process_deferred/_notify_subscribers on managers with up to 3 options and one recording/rejecting listener: "
    "accepted => exactly the given keys assigned, listeners told exactly those names; rejected by a listener => every option "
    "restored, errored then changed(updated) sent, listener's last view is the restored state. The TypeError path (KF-C44-1) and "
    "the unknown-key path of update (KF-C44-2) are recorded findings outside which the obligation is proved. Arbitrary update "
    "*sequences* follow by induction from the per-call contracts (each call re-establishes the pre-state invariant "
    "'every stored value conforms'), but the YAML save/load round trip (ruamel.yaml) is third-party and only bounded (T2)."
)
ASSUMPTIONS = [
    "copy.deepcopy is a structural copy without sharing (library contract in pyvc/libx_tools.py); _Option.__deepcopy__ itself is executed from source",
    "weak references to subscribers/receivers stay alive during one call unless the scenario builds a dead one (garbage collection is not modelled)",
    "contextlib.contextmanager semantics: the with-body runs at the generator's single yield, exceptions of the body are thrown in at the yield (pyvc/interp.py exec_with_genctx)",
    "subscriber callbacks are scenario-provided contracts: they record (updated, observed values) and raise OptionsError on a symbolic condition; only in scenario update.cascade a listener itself makes one nested update of another option",
    "T1 option tables have <= 3 options with typespecs from {int, str, bool, Optional[str], Optional[int], Sequence[str]} and help text ''",
    "ruamel.yaml (serialize/parse/load) is third-party: round trip is checked by T2 only, over the string pool listed in the evidence",
]
TC = "mitmproxy.utils.typecheck:check_option_type"
OPT = "mitmproxy.optmanager:_Option"
OM = "mitmproxy.optmanager:OptManager"


def _ts(name):
    import typing
    from collections import abc
    return {"bool": bool, "int": int, "str": str, "float": float, "optstr": typing.Optional[str], "optint": typing.Optional[int],
            "seqstr": abc.Sequence[str], "pair": tuple[int, str], "strornone_pep604": str | None}[name]


TYPESPECS = ["bool", "int", "str", "float", "optstr", "optint", "seqstr", "pair", "strornone_pep604"]
KINDS = ["int", "bool", "str", "none", "float", "bytes", "list0", "list_str1", "list_str2", "tuple_str1", "list_str_int", "list_int_str", "list_none", "dict"]


def mk_value(vc, kind, tag="v"):
    if kind == "int":
        return vc.sym_int(tag + "_i")
    if kind == "bool":
        return vc.sym_bool(tag + "_b")
    if kind == "str":
        return vc.sym_str(tag + "_s")
    if kind == "none":
        return None
    if kind == "float":
        return 1.5
    if kind == "bytes":
        return vc.sym_bytes(tag + "_y")
    if kind == "list0":
        return vc.list([])
    if kind == "list_str1":
        return vc.list([vc.sym_str(tag + "_s0")])
    if kind == "list_str2":
        return vc.list([vc.sym_str(tag + "_s0"), vc.sym_str(tag + "_s1")])
    if kind == "tuple_str1":
        s = vc.sym_str(tag + "_s0")
        return STuple([s]) if vc.mode == "sym" else (s,)
    if kind == "list_str_int":
        return vc.list([vc.sym_str(tag + "_s0"), vc.sym_int(tag + "_i1")])
    if kind == "list_int_str":
        return vc.list([vc.sym_int(tag + "_i0"), vc.sym_str(tag + "_s1")])
    if kind == "list_none":
        return vc.list([None])
    if kind == "dict":
        return vc.dict([])
    raise AssertionError(kind)


def conforms(kind, ts):
    """does a value of this kind have the declared type? (table written from the option documentation: int options
    accept ints (bool is an int in Python), float options also accept ints, Optional[T] additionally accepts None,
    sequence options accept lists/tuples of str, tuple[int, str] accepts exactly a pair)"""
    if ts == "bool":
        return kind == "bool"
    if ts == "int":
        return kind in ("int", "bool")
    if ts == "str":
        return kind == "str"
    if ts == "float":
        return kind in ("float", "int", "bool")
    if ts in ("optstr", "strornone_pep604"):
        return kind in ("none", "str")
    if ts == "optint":
        return kind in ("none", "int", "bool")
    if ts == "seqstr":
        return kind in ("list0", "list_str1", "list_str2", "tuple_str1")
    if ts == "pair":
        return kind == "list_int_str"
    raise AssertionError(ts)


# ---- T1: the type gate ----------------------------------------------------------------------------------------------

@scenario("check_option_type", functions=[TC])
def s_typecheck(vc):
    ts = vc.case("typespec", TYPESPECS)
    kind = vc.case("value_kind", KINDS)
    v = mk_value(vc, kind)
    out = vc.call(TC, "opt", v, _ts(ts))
    if conforms(kind, ts):
        vc.ensure("conforming.accepted", out.ok)
        if out.ok:
            vc.ensure("conforming.returns_none", isnone(out.result))
    else:
        vc.ensure("nonconforming.rejected", not out.ok)
        if not out.ok:
            vc.ensure("nonconforming.typeerror", out.raised_type() is TypeError)


# ---- T1: _Option ------------------------------------------------------------------------------------------------------

OPT_TYPES = ["int", "str", "bool", "optstr", "optint", "seqstr"]
CONFORMING = {"int": ["int"], "str": ["str"], "bool": ["bool"], "optstr": ["none", "str"], "optint": ["none", "int"], "seqstr": ["list0", "list_str1", "list_str2"]}
NONCONFORMING = {"int": ["str", "none"], "str": ["int", "none", "bytes"], "bool": ["int", "str"], "optstr": ["int", "list_str1"], "optint": ["str"], "seqstr": ["str", "list_str_int", "none"]}


def _unset():
    from mitmproxy import optmanager
    return optmanager.unset


def mk_option(vc, name, ts, default, value=None, is_set=False):
    return vc.new(OPT, name=name, typespec=_ts(ts), _default=default, value=(value if is_set else _unset()), choices=None, help="")


def opt_current(vc, o):
    """spec-level current value of an option object: the assigned value, else the default"""
    v = o.value
    if (isinstance(v, SConst) and v.obj is _unset()) or v is _unset():
        return o._default
    return v


def same(vc, a, b):
    """Python equality of two option values (symbolic or native)"""
    return vc.eq(a, b)


@scenario("option.set", functions=[OPT + ".set", OPT + ".current", TC])
def s_option_set(vc):
    ts = vc.case("typespec", OPT_TYPES)
    was_set = vc.case("was_set", [False, True])
    dk = vc.case("default_kind", CONFORMING[ts])
    ok_new = vc.case("new_conforms", [True, False])
    nk = vc.case("new_kind", CONFORMING[ts] if ok_new else NONCONFORMING[ts])
    default = mk_value(vc, dk, "d")
    old = mk_value(vc, CONFORMING[ts][-1], "o")
    new = mk_value(vc, nk, "n")
    o = mk_option(vc, "o", ts, default, old, was_set)
    before = opt_current(vc, o)
    out = vc.call(OPT + ".set", o, new)
    if ok_new:
        vc.ensure("conforming.accepted", out.ok)
        cur = vc.call(OPT + ".current", o)
        vc.ensure("conforming.current_total", cur.ok)
        if cur.ok:
            vc.ensure("conforming.current_is_new_value", same(vc, cur.result, new))
    else:
        vc.ensure("nonconforming.typeerror", (not out.ok) and out.raised_type() is TypeError)
        # typed: the option never holds the rejected value; frame: it still holds what it held
        cur = vc.call(OPT + ".current", o)
        vc.ensure("nonconforming.current_total", cur.ok)
        if cur.ok:
            vc.ensure("nonconforming.value_unchanged", same(vc, cur.result, before))
    vc.ensure("frame.default_untouched", o._default is default or same(vc, o._default, default))


@scenario("option.current_reset_has_changed", functions=[OPT + ".current", OPT + ".reset", OPT + ".has_changed", OPT + ".default"])
def s_option_misc(vc):
    ts = vc.case("typespec", OPT_TYPES)
    was_set = vc.case("was_set", [False, True])
    dk = vc.case("default_kind", CONFORMING[ts])
    vk = vc.case("value_kind", CONFORMING[ts])
    default = mk_value(vc, dk, "d")
    val = mk_value(vc, vk, "o")
    o = mk_option(vc, "o", ts, default, val, was_set)
    cur = vc.call(OPT + ".current", o)
    vc.ensure("current.total", cur.ok)
    if not cur.ok:
        return
    vc.ensure("current.is_value_or_default", same(vc, cur.result, val if was_set else default))
    # "OptManager always returns a deep copy": a mutable result is never the stored object itself
    if vk.startswith("list") or (not was_set and dk.startswith("list")):
        vc.ensure("current.is_a_copy", cur.result is not (val if was_set else default))
    hc = vc.call(OPT + ".has_changed", o)
    vc.ensure("has_changed.total", hc.ok)
    if hc.ok:
        vc.ensure("has_changed.iff_differs_from_default", Iff(hc.result, Not(same(vc, val if was_set else default, default))))
    r = vc.call(OPT + ".reset", o)
    vc.ensure("reset.total", r.ok)
    cur2 = vc.call(OPT + ".current", o)
    if cur2.ok:
        vc.ensure("reset.current_is_default", same(vc, cur2.result, default))
    hc2 = vc.call(OPT + ".has_changed", o)
    if hc2.ok:
        vc.ensure("reset.not_changed", Not(hc2.result))


# ---- T1: OptManager transactions ------------------------------------------------------------------------------------
# Pre-state: a manager with options a:int, b:Optional[str], c:Sequence[str]; listener L1 subscribed to {a, b}, listener L2
# subscribed to {c}; one receiver on .errored. Listeners are contracts (see ASSUMPTIONS): they log what they are told and
# what they observe, L1 raises OptionsError on its first notification iff the symbolic flag `l1_rejects` holds.

def _stub_l1(opts, updated):  # identity tokens for scenario-provided callbacks (behaviour given by vc.summary)
    raise AssertionError("stub")


def _stub_l0(opts, updated):
    raise AssertionError("stub")


def _stub_l2(opts, updated):
    raise AssertionError("stub")


def _stub_err(exc):
    raise AssertionError("stub")


def _raise(vc, cls, msg):
    if vc.mode == "native":
        raise cls(msg)
    from pyvc import interp as I
    raise I.PyExc(I.exc_obj(cls, msg))


def _options_of(vc, mgr):
    """{name: _Option} of a manager (symbolic or native)"""
    if vc.mode == "native":
        return dict(mgr._options)
    return {k.concrete(): v for k, v in mgr.fields["_options"].items}


def snapshot(vc, mgr):
    return {n: opt_current(vc, o) for n, o in _options_of(vc, mgr).items()}


def _names(vc, updated):
    if vc.mode == "native":
        return sorted(updated)
    return sorted(x.concrete() for x in updated.items)


class Harness:
    def __init__(self, vc, specs, l1_rejects, dead=False, cascade=None):
        """specs: [(name, typespec-name, default, value, is_set)]; dead: a subscription (to {a}) whose callback has been
        garbage-collected sits between L1 and L2; cascade: a string v => a listener L0 on {a}, subscribed BEFORE L1, reacts to its
        first notification with a nested update c=[v] of another option (a component adjusting a dependent option)"""
        self.vc = vc
        self.log = []
        self.l1_calls = 0
        self.l0_calls = 0
        self.nested = []
        self.raised = None
        h = self

        def l0(v, opts, updated):
            h.l0_calls += 1
            h.log.append(("L0", _names(v, updated), snapshot(v, opts)))
            if h.l0_calls == 1:
                if v.mode == "native":
                    try:
                        opts.update(c=[cascade])
                        h.nested.append(True)
                    except Exception:
                        h.nested.append(False)
                else:
                    h.nested.append(v.call(OM + ".update", opts, c=v.list([cascade])).ok)
            return v.lift(None)

        def l1(v, opts, updated):
            h.l1_calls += 1
            h.log.append(("L1", _names(v, updated), snapshot(v, opts)))
            if h.l1_calls == 1 and v.branch(l1_rejects):
                try:
                    _raise(v, _cls("mitmproxy.exceptions:OptionsError"), "rejected by L1")
                except BaseException as e:
                    h.raised = e
                    raise
            return v.lift(None)

        def l2(v, opts, updated):
            h.log.append(("L2", _names(v, updated), snapshot(v, opts)))
            return v.lift(None)

        def err(v, exc=None):
            h.log.append(("errored", exc))
            return v.lift(None)

        if vc.mode == "native":
            from mitmproxy import optmanager
            m = optmanager.OptManager()
            for name, ts, default, value, is_set in specs:
                m.add_option(name, _ts(ts), default, "")
                if is_set:
                    m._options[name].value = value
            self.keep = [lambda o, u: l1(vc, o, u), lambda o, u: l2(vc, o, u), lambda exc: err(vc, exc), lambda o, u: l0(vc, o, u)]
            if cascade is not None:
                m.subscribe(self.keep[3], ["a"])
            m.subscribe(self.keep[0], ["a", "b"])
            if dead:
                gone = lambda o, u: None
                m.subscribe(gone, ["a"])
                del gone
            m.subscribe(self.keep[1], ["c"])
            m.errored.connect(self.keep[2])
            self.mgr = m
            return
        import weakref
        from mitmproxy.utils import signals
        vc.summary("props.C44:_stub_l1", l1)
        vc.summary("props.C44:_stub_l0", l0)
        vc.summary("props.C44:_stub_l2", l2)
        vc.summary("props.C44:_stub_err", err)
        m = SObj(_cls(OM), {})
        options = SDict([(SStr(name), mk_option(vc, name, ts, default, value, is_set)) for name, ts, default, value, is_set in specs])
        ref = lambda target: SObj(weakref.ref, {"_target": target})
        m.fields["deferred"] = SDict()
        m.fields["changed"] = SObj(signals._SyncSignal, {"receivers": SList([ref(vc.bound(m, OM + "._notify_subscribers"))])})
        m.fields["errored"] = SObj(signals._SyncSignal, {"receivers": SList([ref(SConst(_stub_err))])})
        m.fields["_subscriptions"] = SList(([STuple([ref(SConst(_stub_l0)), SSet([SStr("a")])])] if cascade is not None else [])
                                           + [STuple([ref(SConst(_stub_l1)), SSet([SStr("a"), SStr("b")])])]
                                           + ([STuple([ref(NONE), SSet([SStr("a")])])] if dead else [])
                                           + [STuple([ref(SConst(_stub_l2)), SSet([SStr("c")])])])
        m.fields["_options"] = options
        self.mgr = m


def _cls(ref):
    from pyvc.vc import resolve_ref
    return resolve_ref(ref)[2]


UPDATES = [("a",), ("b",), ("a", "b"), ("b", "a"), ("a", "zz"), ("zz", "a"), ("zz",), ()]


def _std_specs(vc):
    a_set = vc.case("a_was_set", [True, False])
    return [("a", "int", vc.sym_int("a_default"), vc.sym_int("a_old"), a_set),
            ("b", "optstr", None, vc.sym_str("b_old"), True),
            ("c", "seqstr", vc.list([]), vc.list([vc.sym_str("c_old0")]), True)]


def _all_same(vc, snap, old):
    return And(*[same(vc, snap[n], old[n]) for n in sorted(old)])


_UPD_FUNCS = [OM + ".update_known", OM + ".rollback", OM + "._notify_subscribers", OPT + ".set", OPT + ".__deepcopy__",
              "mitmproxy.utils.signals:_SyncSignal.send", "mitmproxy.utils.signals:_SignalMixin.notify"]


@scenario("update_known", functions=_UPD_FUNCS)
def s_update_known(vc):
    _update_contract(vc, "update_known")


@scenario("update", functions=[OM + ".update"] + _UPD_FUNCS)
def s_update(vc):
    _update_contract(vc, "update")


@scenario("update_defer", functions=[OM + ".update_defer"] + _UPD_FUNCS)
def s_update_defer(vc):
    _update_contract(vc, "update_defer")


@scenario("update.cascade", functions=[OM + ".update"] + _UPD_FUNCS)
def s_update_cascade(vc):
    """A listener reacts to the update by updating ANOTHER option (nested, accepted); a later listener may then reject the outer
    update. Rejected => every option, including the cascaded one, is back at its previous value and the listeners of the updated
    options last see exactly that state. Accepted => both changes stand and the later listener saw both."""
    keys = vc.case("keys", [("a",), ("b", "a")])
    l1_rejects = vc.sym_bool("l1_rejects")
    casc = vc.sym_str("c_cascaded")
    h = Harness(vc, _std_specs(vc), l1_rejects, cascade=casc)
    mgr = h.mgr
    new = {k: (vc.sym_int("a_new") if k == "a" else vc.sym_str("b_new")) for k in keys}
    old = snapshot(vc, mgr)
    out = vc.call(OM + ".update", mgr, **new)
    post = snapshot(vc, mgr)
    vc.ensure("cascade.nested_update_accepted", h.nested == [True])
    kinds = [e[0] for e in h.log]
    if h.raised is not None:
        vc.ensure("cascade.reject.raises_the_listeners_error", (not out.ok) and issubclass(out.raised_type(), _cls("mitmproxy.exceptions:OptionsError")))
        vc.ensure("cascade.reject.all_restored_including_the_cascaded_option", _all_same(vc, post, old))
        vc.ensure("cascade.reject.signal_order", kinds == ["L0", "L2", "L1", "errored", "L0", "L1"])
        last = {n: [e for e in h.log if e[0] == n][-1] for n in ("L0", "L1") if n in kinds}
        for n, e in sorted(last.items()):
            vc.ensure(f"cascade.reject.{n}_last_view_is_restored_state", _all_same(vc, e[2], old))
        vc.ensure("cascade.reject.final_view_is_a_state_that_exists", And(*[_all_same(vc, e[2], post) for e in last.values()]) if last else True)
        return
    vc.ensure("cascade.accept.total", out.ok)
    if not out.ok:
        return
    for k in keys:
        vc.ensure(f"cascade.accept.assigned[{k}]", same(vc, post[k], new[k]))
    vc.ensure("cascade.accept.cascaded_option_assigned", same(vc, post["c"], [casc]))
    if "b" not in keys:
        vc.ensure("cascade.accept.frame[b]", same(vc, post["b"], old["b"]))
    vc.ensure("cascade.accept.signal_order", kinds == ["L0", "L2", "L1"])
    if kinds == ["L0", "L2", "L1"]:
        vc.ensure("cascade.accept.later_listener_sees_both_changes", _all_same(vc, h.log[2][2], post))
        vc.ensure("cascade.accept.cascaded_listener_told_its_option", h.log[1][1] == ["c"])


def _update_contract(vc, method):
    """one contract text for the three entry points (one scenario each, so that they are explored in parallel)"""
    keys = vc.case("keys", UPDATES)
    l1_rejects = vc.sym_bool("l1_rejects")
    h = Harness(vc, _std_specs(vc), l1_rejects)
    mgr = h.mgr
    known = [k for k in keys if k in ("a", "b", "c")]
    unknown = [k for k in keys if k not in known]
    # values: each known key gets a conforming or a non-conforming value (unknown keys only together with conforming ones)
    conf = {k: (vc.case(f"{k}_conforms", [True, False]) if not unknown else True) for k in known}
    new = {}
    for k in keys:
        if k == "a":
            new[k] = vc.sym_int("a_new") if conf[k] else vc.sym_str("a_bad")
        elif k == "b":
            new[k] = vc.sym_str("b_new") if conf[k] else vc.sym_int("b_bad")
        else:
            new[k] = vc.sym_int("zz_val")
    old = snapshot(vc, mgr)
    out = vc.call(OM + "." + method, mgr, **new)
    post = snapshot(vc, mgr)
    vc.ensure("frame.option_table_keys", sorted(post) == ["a", "b", "c"])
    if sorted(post) != ["a", "b", "c"]:
        return
    l1_obs = [e for e in h.log if e[0] == "L1"]
    vc.ensure("listener.unrelated_never_notified", not any(e[0] == "L2" for e in h.log))
    first_bad = next((i for i, k in enumerate(known) if not conf[k]), None)
    if first_bad is not None:
        # ---- rejected by the type gate
        vc.ensure("typed.raises_typeerror", (not out.ok) and out.raised_type() is TypeError)
        vc.ensure("typed.never_holds_bad_value", And(*[Not(same(vc, post[k], new[k])) for k in known if not conf[k]]))
        # transactional: every option has its previous value. Fails when an earlier key of the same call was already assigned.
        vc.ensure("typed.rejected_update_restores_all", _all_same(vc, post, old))  # was recorded finding KF-C44-1, repaired in /repo (see known_findings.d)
        vc.ensure("typed.listeners_not_left_with_partial_state", len(l1_obs) == 0 or _all_same(vc, l1_obs[-1][2], old))
        return
    if not known:
        # nothing to assign
        vc.ensure("noop.no_notification", h.log == [])
        vc.ensure("noop.values", _all_same(vc, post, old))
    rejected = bool(known) and h.l1_calls >= 1 and h.raised is not None
    if rejected:
        # ---- rejected by a listener: rolled back, errored then changed(updated) sent, listener last sees the restored state
        vc.ensure("reject.raises_the_listeners_error", (not out.ok) and issubclass(out.raised_type(), _cls("mitmproxy.exceptions:OptionsError")))
        vc.ensure("reject.all_restored", _all_same(vc, post, old))
        kinds = [e[0] for e in h.log]
        vc.ensure("reject.signal_order", kinds == ["L1", "errored", "L1"])
        if kinds == ["L1", "errored", "L1"]:
            vc.ensure("reject.errored_gets_the_exception", h.log[1][1] is out.raised or (vc.mode == "native" and h.log[1][1] is h.raised))
            vc.ensure("reject.first_view_was_new_state", And(*[same(vc, h.log[0][2][k], new[k]) for k in known]))
            vc.ensure("reject.renotified_same_names", h.log[2][1] == sorted(known))
            vc.ensure("reject.last_view_is_restored_state", _all_same(vc, h.log[2][2], old))
        if method == "update_defer":
            vc.ensure("reject.nothing_deferred", _deferred(vc, mgr) == {})
        return
    # ---- accepted
    if method == "update" and unknown:
        vc.ensure("update.unknown_key.raises_keyerror", (not out.ok) and out.raised_type() is KeyError)
        # a rejected update must leave every option at its previous value (fails: the known keys were applied first)
        vc.ensure("update.unknown_key.rejected_update_restores_all", _all_same(vc, post, old))  # was recorded finding KF-C44-2, repaired in /repo (see known_findings.d)
        if known:
            return
    else:
        vc.ensure("accept.total", out.ok)
        if not out.ok:
            return
    for k in known:
        vc.ensure(f"accept.assigned[{k}]", same(vc, post[k], new[k]))
    for k in ("a", "b", "c"):
        if k not in known:
            vc.ensure(f"accept.frame[{k}]", same(vc, post[k], old[k]))
    if known:
        vc.ensure("accept.listener_notified_once", len(l1_obs) == 1 and [e[0] for e in h.log] == ["L1"])
        if len(l1_obs) == 1:
            vc.ensure("accept.notified_with_assigned_names", l1_obs[0][1] == sorted(known))
            vc.ensure("accept.listener_sees_new_state", _all_same(vc, l1_obs[0][2], post))
    if method == "update_known" and out.ok:
        res = out.result
        rk = sorted(k.concrete() for k, _ in res.items) if vc.mode == "sym" else sorted(res)
        vc.ensure("update_known.returns_unknown", rk == sorted(unknown))
        for k in unknown:
            rv = [v for kk, v in res.items if kk.concrete() == k][0] if vc.mode == "sym" else res[k]
            vc.ensure(f"update_known.unknown_value[{k}]", same(vc, rv, new[k]))
    if method == "update_defer" and out.ok:
        d = _deferred(vc, mgr)
        vc.ensure("update_defer.defers_exactly_unknown", sorted(d) == sorted(unknown))
        for k in unknown:
            if k in d:
                vc.ensure(f"update_defer.deferred_value[{k}]", same(vc, d[k], new[k]))


def _deferred(vc, mgr):
    if vc.mode == "native":
        return dict(mgr.deferred)
    return {k.concrete(): v for k, v in mgr.fields["deferred"].items}


def _subscriptions(vc, mgr):
    """[(callback-or-None, sorted option names)] of the manager's subscription list"""
    if vc.mode == "native":
        return [(r(), sorted(o)) for r, o in mgr._subscriptions]
    out = []
    for t in mgr.fields["_subscriptions"].items:
        r, o = t.items
        tgt = r.fields["_target"]
        out.append((None if isnone(tgt) else tgt, sorted(x.concrete() for x in o.items)))
    return out


@scenario("notify_subscribers", functions=[OM + "._notify_subscribers"])
def s_notify(vc):
    upd = vc.case("updated", [("a",), ("b",), ("c",), ("a", "c"), ("zz",), (), ("a", "b", "c")])
    dead = vc.case("dead_subscription", [False, True])
    h = Harness(vc, _std_specs(vc), False, dead=dead)
    mgr = h.mgr
    updated = SSet([SStr(x) for x in upd]) if vc.mode == "sym" else set(upd)
    old = snapshot(vc, mgr)
    out = vc.call(OM + "._notify_subscribers", mgr, updated)
    vc.ensure("total", out.ok)
    if not out.ok:
        return
    want = (["L1"] if set(upd) & {"a", "b"} else []) + (["L2"] if set(upd) & {"c"} else [])
    # invoked iff the subscription's option set intersects `updated`; once each, in subscription order
    vc.ensure("invoked_iff_intersects", [e[0] for e in h.log] == want)
    vc.ensure("told_the_updated_names", all(e[1] == sorted(upd) for e in h.log))
    vc.ensure("options_untouched", _all_same(vc, snapshot(vc, mgr), old))
    subs = _subscriptions(vc, mgr)
    # a dead subscription is dropped, live ones are kept in order
    vc.ensure("dead_subscriptions_removed", [names for cb, names in subs] == [["a", "b"], ["c"]] and all(cb is not None for cb, _ in subs))


@scenario("process_deferred", functions=[OM + ".process_deferred", OM + "._parse_setval", OM + ".update", OM + ".update_known"])
def s_deferred(vc):
    l1_rejects = vc.sym_bool("l1_rejects")
    h = Harness(vc, _std_specs(vc), l1_rejects)
    mgr = h.mgr
    a_def, b_def, zz_def = vc.sym_int("a_deferred"), vc.sym_str("b_deferred"), vc.sym_int("zz_deferred")
    have_b = vc.case("b_deferred_as_unconverted_string", [True, False])
    U = _cls("mitmproxy.optmanager:_UnconvertedStrings")
    items = [("a", a_def), ("zz", zz_def)]
    if have_b:
        items.append(("b", U([b_def]) if vc.mode == "native" else SObj(U, {"val": SList([b_def])})))
    if vc.mode == "native":
        mgr.deferred.update(dict(items))
    else:
        mgr.fields["deferred"] = SDict([(SStr(k), lift(v)) for k, v in items])
    old = snapshot(vc, mgr)
    out = vc.call(OM + ".process_deferred", mgr)
    post = snapshot(vc, mgr)
    d = _deferred(vc, mgr)
    names = ["a", "b"] if have_b else ["a"]
    if h.raised is not None:
        vc.ensure("reject.raises", (not out.ok) and issubclass(out.raised_type(), _cls("mitmproxy.exceptions:OptionsError")))
        vc.ensure("reject.all_restored", _all_same(vc, post, old))
        vc.ensure("reject.still_deferred", sorted(d) == sorted(k for k, _ in items))
        vc.ensure("reject.last_view_is_restored_state", len(h.log) == 3 and h.log[2][0] == "L1" and _all_same(vc, h.log[2][2], old))
        return
    vc.ensure("accept.total", out.ok)
    if not out.ok:
        return
    vc.ensure("accept.a_applied", same(vc, post["a"], a_def))
    vc.ensure("accept.b", same(vc, post["b"], b_def if have_b else old["b"]))
    vc.ensure("accept.frame_c", same(vc, post["c"], old["c"]))
    vc.ensure("accept.applied_are_no_longer_deferred", sorted(d) == ["zz"])
    if sorted(d) == ["zz"]:
        vc.ensure("accept.unknown_stays_deferred", same(vc, d["zz"], zz_def))
    vc.ensure("accept.notified_once_with_names", [(e[0], e[1]) for e in h.log] == [("L1", names)])


# =====================================================================================================================
# T2 (bounded): real OptManager update sequences against a reference model; YAML save/load round trip (ruamel.yaml)

def _t2_conforms(v, ts):
    import typing
    if ts is bool:
        return isinstance(v, bool)
    if ts is int:
        return isinstance(v, int)
    if ts is str:
        return isinstance(v, str)
    if ts == typing.Optional[str]:
        return v is None or isinstance(v, str)
    if ts == typing.Optional[int]:
        return v is None or isinstance(v, int)
    return isinstance(v, (list, tuple)) and all(isinstance(x, str) for x in v)


def _t2_manager():
    import typing
    from collections import abc
    from mitmproxy import optmanager
    m = optmanager.OptManager()
    spec = {"f": (bool, False), "s": (str, "dflt"), "i": (int, 0), "os": (typing.Optional[str], None), "oi": (typing.Optional[int], None), "q": (abc.Sequence[str], []),
            # optional options whose DEFAULT is not None: None is then a non-default value that must survive a save/load
            "osd": (typing.Optional[str], "dflt-os"), "oid": (typing.Optional[int], 8080)}
    for k, (ts, d) in spec.items():
        m.add_option(k, ts, d, "")
    return m, spec


T2_OPS = [
    # (method, kwargs, finding class of the op or "")
    ("update", {"i": 5}, ""), ("update", {"i": 7}, ""), ("update", {"i": "x"}, ""), ("update", {"s": "v", "i": 6}, ""),
    ("update", {"s": "bad", "i": 1}, ""), ("update", {"i": 9, "s": 3}, ""), ("update", {"q": ["a", "b"], "f": True}, ""),
    ("update", {"f": True, "q": "a"}, ""), ("update", {"os": "t", "oi": 4}, ""), ("update", {"os": None, "oi": None}, ""),
    ("update", {"oi": "4"}, ""), ("update", {"i": 2, "nope": 1}, ""), ("update", {"nope": 1}, ""),
    ("update_defer", {"later": 5, "i": 3}, ""), ("update_defer", {"later": "str", "s": "bad"}, ""), ("add_later", {}, ""), ("reset_s", {}, ""),
    # f is watched by a cascading listener (sets oid=99 in a nested update) that runs BEFORE the rejecting listener on {i, s}
    ("update", {"f": True, "i": 7}, ""), ("update", {"f": True, "i": 8}, ""), ("update", {"f": False}, ""),
]


def _t2_sequences(b, tier, seed):
    import itertools, random
    from mitmproxy import exceptions
    maxlen = 3 if tier == "quick" else 4
    seqs = [s for n in range(1, maxlen + 1) for s in itertools.product(range(len(T2_OPS)), repeat=n)]
    rnd = random.Random(seed)
    if tier == "quick" and len(seqs) > 2500:
        rnd.shuffle(seqs)
        seqs = seqs[:2500]
    elif len(seqs) > 100000:
        rnd.shuffle(seqs)
        seqs = seqs[:100000]
    for seq in seqs:
        m, spec = _t2_manager()
        model = {k: d for k, (ts, d) in spec.items()}
        deferred = {}
        seen = []

        def listener(opts, updated, seen=seen):
            snap = {k: getattr(opts, k) for k in opts.keys()}
            seen.append((sorted(updated), snap))
            if snap.get("i") == 7 or snap.get("s") == "bad":
                raise exceptions.OptionsError("rejected by listener")

        def cascader(opts, updated):
            if "f" in updated and opts.f and opts.oid != 99:
                opts.update(oid=99)

        m.subscribe(cascader, ["f"])
        m.subscribe(listener, ["i", "s"])
        b.case(tuple(seq), nontrivial=len(seq) > 1)
        for step, oi in enumerate(seq):
            method, kw, cls = T2_OPS[oi]
            inp = {"sequence": [T2_OPS[j][:2] for j in seq[:step + 1]], "state_before": dict(model)}
            chk = lambda name: name + ("/" + cls if cls else "")
            seen.clear()
            exp_model, exp_def, exp_exc, exp_names = dict(model), dict(deferred), None, None
            if method in ("update", "update_defer"):
                known = {k: v for k, v in kw.items() if k in spec}
                unknown = {k: v for k, v in kw.items() if k not in spec}
                cand = dict(model, **known)
                if unknown and method == "update":
                    exp_exc = KeyError
                elif not all(_t2_conforms(v, spec[k][0]) for k, v in known.items()):
                    exp_exc = TypeError
                elif known and (set(known) & {"i", "s"}) and (cand["i"] == 7 or cand["s"] == "bad"):
                    exp_exc = exceptions.OptionsError       # whatever a listener cascaded before the rejection is rolled back too
                else:
                    if "f" in known and cand["f"]:
                        cand["oid"] = 99
                    exp_model = cand
                    exp_names = sorted(known) if set(known) & {"i", "s"} else None
                    if method == "update_defer":
                        exp_def.update(unknown)
            try:
                if method == "update":
                    m.update(**kw)
                elif method == "update_defer":
                    m.update_defer(**kw)
                elif method == "add_later":
                    if "later" not in spec:
                        spec["later"] = (int, 0)
                        m.add_option("later", int, 0, "")
                        exp_model["later"] = 0
                        if "later" in deferred:
                            if _t2_conforms(deferred["later"], int):
                                exp_model["later"] = deferred["later"]
                                del exp_def["later"]
                            else:
                                exp_exc = TypeError
                    m.process_deferred()
                elif method == "reset_s":
                    exp_model["s"] = "dflt" if model["i"] != 7 else model["s"]
                    exp_names = ["s"]
                    m.update(s="dflt")
                raised = None
            except (TypeError, KeyError, exceptions.OptionsError) as e:
                raised = e
            actual = {k: getattr(m, k) for k in m.keys()}
            if (raised is None) != (exp_exc is None) or (raised is not None and not isinstance(raised, exp_exc)):
                b.fail(chk("seq.rejected_iff_expected"), inp, f"expected {exp_exc}, got {raised!r}")
            for k, v in actual.items():
                if not _t2_conforms(v, spec[k][0]):
                    b.fail(chk("seq.typed"), inp, f"option {k} holds {v!r}")
            if actual != exp_model:
                b.fail(chk("seq.state_matches_model"), inp, f"expected {exp_model}, actual {actual}")
            if seen and seen[-1][1] != actual:
                b.fail(chk("seq.listener_last_view_is_final_state"), inp, f"listener last saw {seen[-1][1]}, actual {actual}")
            if exp_exc is None and exp_names is not None and [s[0] for s in seen] != [exp_names]:
                b.fail(chk("seq.accepted_notifies_assigned_names"), inp, f"expected one notification {exp_names}, got {[s[0] for s in seen]}")
            if dict(m.deferred) != exp_def and raised is None:
                b.fail(chk("seq.deferred"), inp, f"expected deferred {exp_def}, got {dict(m.deferred)}")
            # continue from the real state (a recorded finding must not cascade)
            model = actual
            deferred = dict(m.deferred)


T2_STRINGS = ["yes", "no", "on", "off", "y", "n", "true", "false", "True", "null", "Null", "~", "1e3", "1_000", "0o17", "0x1F", "017", ".inf",
              ".nan", "2001-12-14", "12:30", "=", "<<", "|", ">", "%", "@", "`", "!tag", "&a", "*a", "{a}", "[a]", "a: b", "a #b", "#c", "- x", "? x",
              ": x", "'q'", '"dq"', "'", '"', "\\", "a\\nb", "", " ", "  ", " lead", "trail ", "\t", "a\tb", "\n", "a\n", "\na", "a\nb", "a\n\nb",
              "a\r\nb", "a\rb", "\r", "é", "日本", "\U0001F600", "\x85", "a\x85b", " ", " ", "﻿", "\x00", "\x07", "\x1b", "\x7f",
              "\x80", "\xa0", "x" * 200, "a b " * 40, "a\n" + "b" * 100, "---", "...", "-", "?", ":", ",", "[", "]", "{", "}", "a,b", "1", "-1", "1.5", "0"]


def _t2_roundtrip(b, tier, seed):
    import io, os, tempfile, itertools
    from mitmproxy import optmanager
    tmp = tempfile.mkdtemp(prefix="c44-")
    strings = list(T2_STRINGS)
    if tier != "quick":
        strings += [a + c for a, c in itertools.product(["a", " ", "\n", "'", '"', ":", "#", "-", "\x85"], repeat=2)]
    others = [dict(f=True, i=-5, oi=0, osd=None, oid=None), dict(f=True, i=2 ** 70, oi=None, osd="x", oid=None), dict(i=0, oi=-1, osd=None, oid=7)]
    for n, val in enumerate(strings):
        cls = "KF-C44-3" if "\x85" in val else ""
        chk = lambda name: name + ("/" + cls if cls else "")
        for via in ("text", "file", "file-inplace"):
            m, spec = _t2_manager()
            values = dict(s=val, os=val, q=[val, "x", val], **others[n % 3])
            m.update(**values)
            b.case((val, via), nontrivial=True)
            inp = {"value": val, "via": via}
            try:
                if via == "text":
                    f = io.StringIO()
                    optmanager.serialize(m, f, "")
                    m2, _ = _t2_manager()
                    optmanager.load(m2, f.getvalue())
                else:
                    p = os.path.join(tmp, f"cfg{n}.yaml")
                    if via == "file-inplace":
                        open(p, "w", encoding="utf8").write("# my config\ns: old\nunknown_option: 3\nq: [o1]\n")
                    elif os.path.exists(p):
                        os.unlink(p)
                    optmanager.save(m, p)
                    m2, _ = _t2_manager()
                    optmanager.load_paths(m2, p)
            except Exception as e:
                b.fail(chk("roundtrip.accepted"), inp, f"raised {type(e).__name__}: {e}")
                continue
            for k in m.keys():
                if m.has_changed(k) and getattr(m2, k) != getattr(m, k):
                    b.fail(chk("roundtrip.reproduces_non_default_values"), dict(inp, option=k), f"saved {getattr(m, k)!r}, loaded {getattr(m2, k)!r}")
                elif not _t2_conforms(getattr(m2, k), spec[k][0]):
                    b.fail(chk("roundtrip.typed"), dict(inp, option=k), f"loaded {getattr(m2, k)!r}")


def bounded(tier, seed):
    b = Bounded()
    b.rule = ("(1) every sequence (quick: sampled 2500 of length <= 3; thorough: length <= 4, a seeded sample of 100000 of the 168420) over 20 operations on a real OptManager with one "
              "option of each supported type, a listener on {i, s} that rejects i == 7 / s == 'bad', a cascading listener on f (nested update of another option) subscribed before it, type-incorrect values at first and later keys, "
              "unknown keys, deferred options that are added later; after every step the real state, the listener's last view, the notification "
              "names and the exception are compared with a reference model written from the statement. (2) every string of the pool (YAML words, "
              "indicators, quotes, newlines, control and unicode line-break characters, long lines) as str / Optional[str] / Sequence[str] value "
              "plus int/bool/Optional[int] values and None for optional options whose default is not None: serialize->load, save->load_paths on a fresh file and on an existing file with stale and unknown "
              "keys; every non-default value must be reproduced. distinct = distinct sequence / (string, path); non-trivial = length > 1 / all")
    b.bound = f"sequences <= {3 if tier == 'quick' else 4} over {len(T2_OPS)} operations; {len(T2_STRINGS)} strings (thorough: + all pairs over 9 critical characters)"
    _t2_sequences(b, tier, seed)
    _t2_roundtrip(b, tier, seed)
    return b
