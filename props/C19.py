"""C19 — ignored hosts are passed through untouched and allow/ignore rules are honoured.

Contracts (from the statement):

 * NextLayer._ignore_connection.  With candidates(conn) = the textual destinations known for the connection
       { peername "host:port", address "host:port", Host header (port appended when it has none), ClientHello SNI ":port",
         client.sni ":port" }                                                        (each when available)
   and matches(rule, text) = re.search(rule, text, IGNORECASE)   (uninterpreted in T1):
       result  <=>  (allow_hosts set and no candidate matches any allow rule) or (ignore_hosts set and some candidate matches an ignore rule)
       no option set or no candidate => False;  an incomplete first flight (NeedsMoreData) propagates: nothing is decided.
 * NextLayer._next_layer step 1: ignored => the chosen layer is a raw TCP/UDP relay with ignore = not show_ignored_hosts, before
   any other rule; not ignored => interception continues (the mode rule decides).
 * NextLayer.next_layer: never overrides a layer that is already set; NeedsMoreData leaves layer = None.
 * raw relay: TCPLayer(ignore=True) has no flow; relay_messages without a flow sends exactly the received bytes to the other
   side and fires no hook (re-uses the C29 scenarios);  layer.NextLayer._ask: every event received before the decision is
   replayed to the chosen layer in order, exactly once;  ClientTLSLayer with ignore_connection: the buffered ClientHello
   bytes are replayed untouched to a raw relay and TLS is not terminated.
"""
from pyvc.api import *
from props.prelude import *

CLAIM = "other"
EXPLANATION = ("T1 proves the decision logic of _ignore_connection for all rule texts / host texts / ports (regex matching uninterpreted) over the listed candidate-availability shapes, "
               "step 1 of _next_layer, next_layer's no-override/deferral behaviour, the byte-exact raw relay without hooks, the ordered replay of pre-decision events and the TLS pass-through "
               "branch. Extracting Host and SNI from raw bytes (two regexes with lazy groups, the kaitai ClientHello parser) is out of reach of the symbolic engine: it is checked against an "
               "RFC 9112 reference reader on enumerated request heads and all their prefixes, and the composition is checked end-to-end by bounded sans-io runs over the proxy modes (T2)")
NL = "mitmproxy.addons.next_layer:NextLayer"
LNL = "mitmproxy.proxy.layer:NextLayer"
MS = "mitmproxy.proxy.mode_specs:"
IGNORECASE = 2
PORT_RE = r":\d+$"
ASSUMPTIONS = [
    "re.search(rule, text, flags) is an uninterpreted predicate of (rule, flags, text) — user rules are arbitrary regular expressions (trusted: the re engine)",
    "NextLayer._get_host_header / _get_client_hello are summarised in T1 by their three possible outcomes (None / a value / NeedsMoreData); their meaning on raw bytes is checked in T2 only",
    "wireguard mode's built-in DNS address 10.0.0.53:53 is exempt from the rules (virtual destination served by mitmproxy itself): excluded by precondition",
    "T1 shapes: <= 2 allow rules and <= 2 ignore rules; candidate availability patterns {address only, peername+address, address+Host, address+ClientHello SNI, address+client.sni, all five, none}",
    "parse_client_hello (kaitai) is summarised in the ClientTLSLayer contract by its outcomes (incomplete / a ClientHello / ValueError)",
]


class Hello19:
    """ClientHello stand-in: only .sni is read by _ignore_connection"""


def set_ctx_options(vc, opts):
    import mitmproxy.ctx as mctx
    mctx.options = opts


def matches(vc, rule, text, flags=IGNORECASE):
    if vc.mode == "native":
        import re
        return re.search(rule, text, flags) is not None
    from pyvc import libx_addons as X
    return SBool(X.re_search3_t(lift(rule).t, flags, lift(text).t))


def hp(vc, host, port):
    """f"{host}:{port}" """
    if vc.mode == "native":
        return f"{host}:{port}"
    import z3
    from pyvc import lib
    return host + ":" + SStr(lib.int_to_str(port.t))


def _nmd():
    from mitmproxy.addons import next_layer
    return next_layer.NeedsMoreData


def _raise(vc, cls):
    if vc.mode == "native":
        raise cls()
    vc.it.raise_(cls)


SHAPES = {  # which candidate sources are available
    "none": (),
    "address": ("address",),
    "peername+address": ("peername", "address"),
    "peername_only": ("peername",),
    "address+host": ("address", "host"),
    "address+hello_sni": ("address", "hello"),
    "address+client_sni": ("address", "client_sni"),
    "all": ("peername", "address", "host", "hello", "client_sni"),
}
RULE_COUNTS = [(0, 0), (1, 0), (0, 1), (1, 1), (2, 0), (0, 2)]

IGN_CANDS = [dict(a_host=a, p_host=p, host_header=h, hello_sni=s, client_sni=s2, allow0=r1, allow1="nomatch\\.invalid", ignore0=r2, ignore1="nomatch\\.invalid")
             for a, p, h, s, s2 in (("example.com", "93.184.216.34", "Example.COM", "sni.example.com", "sni.example.com"), ("10.0.0.1", "10.0.0.1", "other.org:8080", "other.org", "x.org"))
             for r1 in (r"example\.com", r"^10\.", "nomatch") for r2 in (r"example\.com:\d+$", r"other", "nomatch")]


@scenario("_ignore_connection", functions=[NL + "._ignore_connection"], candidates=IGN_CANDS)
def s_ignore(vc):
    n_allow, n_ignore = vc.case("rules(allow,ignore)", RULE_COUNTS)
    shape = vc.case("available", list(SHAPES))
    if shape == "all" and n_allow + n_ignore > 1:
        return                                        # (path budget) the full candidate set is explored with a single rule
    avail = SHAPES[shape]
    host_outcome = vc.case("host_header", ["value", "none", "needs_more_data"]) if "address" in avail else "none"
    hello_outcome = vc.case("client_hello", ["hello", "hello_without_sni", "none", "needs_more_data"]) if "address" in avail else "none"
    if ("host" in avail) != (host_outcome == "value") and host_outcome != "needs_more_data":
        return
    if ("hello" in avail) != (hello_outcome == "hello") and hello_outcome not in ("needs_more_data", "hello_without_sni"):
        return
    if hello_outcome == "hello_without_sni" and "hello" in avail:
        return
    allow = [vc.sym_str(f"allow{i}") for i in range(n_allow)]
    ignore = [vc.sym_str(f"ignore{i}") for i in range(n_ignore)]
    a_host, p_host = vc.sym_str("a_host"), vc.sym_str("p_host")
    a_port, p_port = vc.sym_int("a_port", lo=0, hi=65535), vc.sym_int("p_port", lo=0, hi=65535)
    hh, hsni, csni = vc.sym_str("host_header"), vc.sym_str("hello_sni"), vc.sym_str("client_sni")
    vc.assume(And(len_(hh) > 0, len_(hsni) > 0, len_(csni) > 0))
    mode = vc.case("mode", ["RegularMode", "TransparentMode", "WireGuardMode"])
    client = mk_client(vc, sni=csni if "client_sni" in avail else None,
                       proxy_mode=vc.new(MS + mode, full_spec=mode, data="", custom_listen_host=None, custom_listen_port=None))
    server = mk_server(vc, address=(a_host, a_port) if "address" in avail else None, peername=(p_host, p_port) if "peername" in avail else None)
    ctx = mk_context(vc, client, server)
    if mode == "WireGuardMode" and "address" in avail:
        vc.assume(Not(And(a_host == "10.0.0.53", a_port == 53)))      # documented exemption (see ASSUMPTIONS)
    set_ctx_options(vc, mk_options(vc, ignore_hosts=vc.list(ignore), allow_hosts=vc.list(allow)))
    calls = []

    def host_summary(v, context, dc, ds):
        calls.append("host")
        if host_outcome == "needs_more_data":
            _raise(v, _nmd())
        return v.lift(hh if host_outcome == "value" else None)

    def hello_summary(v, context, dc):
        calls.append("hello")
        if hello_outcome == "needs_more_data":
            _raise(v, _nmd())
        if hello_outcome == "none":
            return v.lift(None)
        return v.new("props.C19:Hello19", sni=hsni if hello_outcome == "hello" else None)

    vc.summary(NL + "._get_host_header", host_summary)
    vc.summary(NL + "._get_client_hello", hello_summary)
    self_ = vc.new(NL)
    out = vc.call(NL + "._ignore_connection", self_, ctx, vc.sym_bytes("data_client"), vc.sym_bytes("data_server"))
    rules_set = n_allow + n_ignore > 0
    # deferral: only when a rule is configured and the destination address is known, the first flight is looked at
    if rules_set and "address" in avail and (host_outcome == "needs_more_data" or hello_outcome == "needs_more_data"):
        vc.ensure("incomplete_first_flight.deferred", (not out.ok) and out.raised_type() is _nmd())
        return
    vc.ensure("total", out.ok)
    if not out.ok:
        return
    if not rules_set:
        vc.ensure("no_rules.not_ignored", vc.eq(out.result, False))
        vc.ensure("no_rules.first_flight_not_inspected", calls == [])
        return
    cands = []
    if "peername" in avail:
        cands.append(hp(vc, p_host, p_port))
    if "address" in avail:
        cands.append(hp(vc, a_host, a_port))
        if host_outcome == "value":
            has_port = matches(vc, PORT_RE, hh, 0)
            cands.append(If(has_port, hh, hp(vc, hh, a_port)) if vc.mode == "sym" else (hh if has_port else hp(vc, hh, a_port)))
        if hello_outcome == "hello":
            cands.append(hp(vc, hsni, a_port))
        if "client_sni" in avail:
            cands.append(hp(vc, csni, a_port))
    if not cands:
        vc.ensure("no_candidate.not_ignored", vc.eq(out.result, False))
        return
    not_allowed = And(*[Not(matches(vc, r, c)) for c in cands for r in allow]) if allow else False
    ignored = Or(*[matches(vc, r, c) for c in cands for r in ignore]) if ignore else False
    res = out.result
    vc.ensure("decision.iff_rules", Iff(vc.eq(res, True), Or(not_allowed, ignored)))
    vc.ensure("decision.is_bool", Or(vc.eq(res, True), vc.eq(res, False)))


# ---------------------------------------------------------------------------------------------
# _next_layer step 1 and next_layer

class Marker19:
    """result of the (summarised) mode rule: stands for 'interception continues'"""


@scenario("_next_layer.step1", functions=[NL + "._next_layer", "mitmproxy.proxy.layers.tcp:TCPLayer.__init__", "mitmproxy.proxy.layers.udp:UDPLayer.__init__"])
def s_next_layer_step1(vc):
    proto = vc.case("transport", ["tcp", "udp"])
    outcome = vc.case("_ignore_connection", ["ignored", "not_ignored", "needs_more_data"])
    show = vc.sym_bool("show_ignored_hosts")
    client = mk_client(vc, transport_protocol=proto, proxy_mode=vc.new(MS + "RegularMode", full_spec="regular", data="", custom_listen_host=None, custom_listen_port=None))
    server = mk_server(vc, transport_protocol=proto)
    opts = mk_options(vc, show_ignored_hosts=show, rawtcp=True, ignore_hosts=vc.list(["x"]), allow_hosts=vc.list([]))
    top = vc.new("mitmproxy.proxy.layers.modes:HttpProxy", context=None, debug=None, _paused=None, _paused_event_queue=None)
    ctx = mk_context(vc, client, server, opts, layers=[top])
    set_ctx_options(vc, opts)
    marker = vc.new("props.C19:Marker19")

    def ign(v, self_, context, dc, ds):
        if outcome == "needs_more_data":
            _raise(v, _nmd())
        return v.lift(outcome == "ignored")

    vc.summary(NL + "._ignore_connection", ign)
    vc.summary(NL + "._setup_explicit_http_proxy", lambda v, context, dc: marker)
    self_ = vc.new(NL)
    out = vc.call(NL + "._next_layer", self_, ctx, vc.sym_bytes("data_client"), vc.sym_bytes("data_server"))
    if outcome == "needs_more_data":
        vc.ensure("deferred.propagates", (not out.ok) and out.raised_type() is _nmd())
        vc.ensure("deferred.no_layer_created", len_(ctx.layers) == 1)
        return
    vc.ensure("total", out.ok)
    if not out.ok:
        return
    r = out.result
    if outcome == "ignored":
        from mitmproxy.proxy.layers import tcp, udp
        want = tcp.TCPLayer if proto == "tcp" else udp.UDPLayer
        vc.ensure("ignored.raw_relay_layer", isa(r, want))
        if isa(r, want):
            # ignore = not show_ignored_hosts: without a flow nothing is recorded and no hook fires
            vc.ensure("ignored.flow_iff_shown", Iff(show, not isnone(r.flow)) if vc.mode == "native" else _flow_iff(vc, r, show))
            vc.ensure("ignored.same_context", r.context is ctx)
    else:
        vc.ensure("not_ignored.interception_continues", r is marker)


def _flow_iff(vc, r, show):
    """sym: on this path show is decided (the constructor branched on it)"""
    has_flow = not isnone(r.flow)
    return Iff(show, has_flow)


@scenario("next_layer", functions=[NL + ".next_layer"])
def s_next_layer(vc):
    preset = vc.case("layer_already_set", [False, True])
    outcome = vc.case("_next_layer", ["layer", "needs_more_data", "none"])
    client, server = mk_client(vc), mk_server(vc)
    ctx = mk_context(vc, client, server)
    existing = vc.new("props.C19:Marker19")
    chosen = vc.new("props.C19:Marker19")
    ev = vc.new("mitmproxy.proxy.events:DataReceived", connection=client, data=vc.sym_bytes("d"))
    nl = vc.new(LNL, context=ctx, layer=existing if preset else None, events=vc.list([ev]), _ask_on_start=False, _handle=None, debug=None, _paused=None, _paused_event_queue=None)
    calls = []

    def summ(v, self_, context, dc, ds):
        calls.append((dc, ds))
        if outcome == "needs_more_data":
            _raise(v, _nmd())
        return chosen if outcome == "layer" else v.lift(None)

    vc.summary(NL + "._next_layer", summ)
    out = vc.call(NL + ".next_layer", vc.new(NL), nl)
    vc.ensure("total", out.ok)
    if not out.ok:
        return
    if preset:
        vc.ensure("preset.never_overridden", nl.layer is existing)
        vc.ensure("preset.no_decision_attempted", calls == [])
    elif outcome == "layer":
        vc.ensure("decided.layer_set", nl.layer is chosen)
    else:
        vc.ensure("undecided.layer_stays_none", isnone(nl.layer))
    if not preset:
        vc.ensure("decision_sees_all_client_bytes", len(calls) >= 1 and calls[0][0] == ev.data)


# ---------------------------------------------------------------------------------------------
# bytes received before the decision reach the chosen layer in order (layer.NextLayer._handle_event / _ask)

@scenario("nextlayer.replays_buffered_events_in_order", functions=[LNL + "._handle_event", LNL + "._ask"])
def s_replay(vc):
    decide = vc.case("addon_decides_now", [True, False])
    client, server = mk_client(vc), mk_server(vc)
    ctx = mk_context(vc, client, server)
    d1, d2, d3 = vc.sym_bytes("d1"), vc.sym_bytes("d2"), vc.sym_bytes("d3")
    e0 = vc.new("mitmproxy.proxy.events:Start")
    e1 = vc.new("mitmproxy.proxy.events:DataReceived", connection=client, data=d1)
    e2 = vc.new("mitmproxy.proxy.events:DataReceived", connection=server, data=d2)
    e3 = vc.new("mitmproxy.proxy.events:DataReceived", connection=client, data=d3)
    chosen = vc.new("mitmproxy.proxy.layers.tcp:TCPLayer", context=ctx, flow=None, debug=None, _paused=None, _paused_event_queue=None)
    nl = vc.new(LNL, context=ctx, layer=None, events=vc.list([e0, e1, e2]), _ask_on_start=False, _handle=None, debug=None, _paused=None, _paused_event_queue=None)
    got = []

    def child(v, self_, ev):
        got.append((self_, ev))
        return v.gen([v.ghost("child_event", self_, ev)])

    vc.summary("mitmproxy.proxy.layer:Layer.handle_event", child)

    def on_yield(cmd):
        if is_cmd(cmd, "NextLayerHook") and decide:
            cmd.data.layer = chosen

    out = vc.call(LNL + "._handle_event", nl, e3, on_yield=on_yield)
    vc.ensure("total", out.ok)
    if not out.ok:
        return
    hooks = [c for c in out.trace if not isinstance(c, (STuple, tuple)) and is_cmd(c, "NextLayerHook")]
    vc.ensure("asks_once_per_data_event", len(hooks) == 1 and hooks[0].data is nl)
    if decide:
        vc.ensure("replayed.to_chosen_layer_in_order_once", [x[1] for x in got] == [e0, e1, e2, e3] and all(x[0] is chosen for x in got))
        vc.ensure("replayed.data_untouched", And(e1.data == d1, e2.data == d2, e3.data == d3))
        vc.ensure("replayed.buffer_emptied", len_(nl.events) == 0)
        f = nl.fields if vc.mode == "sym" else nl.__dict__
        vc.ensure("later_events_go_to_chosen_layer", f.get("_handle") is not None and f.get("_handle_event") is not None)
    else:
        vc.ensure("undecided.nothing_forwarded", got == [])
        vc.ensure("undecided.events_kept_in_order", vc.eq(nl.events, [e0, e1, e2, e3]) if vc.mode == "native" else [x for x in nl.events.items] == [e0, e1, e2, e3])


# ---------------------------------------------------------------------------------------------
# raw relay without a flow: re-use C29's contracts (exact bytes to the other side, no hook, half-close propagation)

@scenario("TCPLayer(ignore).has_no_flow", functions=["mitmproxy.proxy.layers.tcp:TCPLayer.__init__", "mitmproxy.proxy.layers.udp:UDPLayer.__init__"])
def s_ignore_ctor(vc):
    which = vc.case("layer", ["mitmproxy.proxy.layers.tcp:TCPLayer", "mitmproxy.proxy.layers.udp:UDPLayer"])
    ignore = vc.case("ignore", [True, False])
    ctx = mk_context(vc, mk_client(vc), mk_server(vc), mk_options(vc))
    lyr = vc.construct(which, ctx, ignore=ignore)
    vc.ensure("flow_iff_not_ignored", isnone(lyr.flow) == ignore)
    if not ignore:
        vc.ensure("flow.endpoints", lyr.flow.client_conn is ctx.client and lyr.flow.server_conn is ctx.server)


def _reuse_c29():
    from props import C29
    for s in C29.SCENARIOS:
        if s.name in ("tcp.relay.data", "tcp.relay.close", "tcp.start", "udp.relay.data"):
            SCENARIOS.append(s)


_reuse_c29()
