"""C19 — ignored hosts are passed through untouched and allow/ignore rules are honoured.

Contracts (from the statement):

 * NextLayer._ignore_connection.  With candidates(conn) = the textual destinations known for the connection
       { peername "host:port", address "host:port", Host header (port appended when it has none), ClientHello SNI ":port",
         client.sni ":port" }                                                        (each when available)
   and matches(rule, text) = re.search(rule, text, IGNORECASE)   (uninterpreted in T1):
       result  <=>  (allow_hosts set and no candidate matches any allow rule) or (ignore_hosts set and some candidate matches an ignore rule)
       no option set or no candidate => False;  an incomplete first flight (NeedsMoreData) propagates: nothing is decided.
 * NextLayer._next_layer step 1: ignored => the chosen layer is a raw TCP/UDP relay with ignore = not show_ignored_hosts, before
   any other rule; not ignored => interception continues (the mode rule decides).
 * NextLayer.next_layer: never overrides a layer that is already set; NeedsMoreData leaves layer = None.
 * raw relay: TCPLayer(ignore=True) has no flow; relay_messages without a flow sends exactly the received bytes to the other
   side and fires no hook (re-uses the C29 scenarios);  layer.NextLayer._ask: every event received before the decision is
   replayed to the chosen layer in order, exactly once;  ClientTLSLayer with ignore_connection: the buffered ClientHello
   bytes are replayed untouched to a raw relay and TLS is not terminated.
"""
from pyvc.api import *
from props.prelude import *

CLAIM = "other"
EXPLANATION = ("T1 proves the decision logic of _ignore_connection for all rule texts / host texts / ports (regex matching uninterpreted) over the listed candidate-availability shapes, "
               "step 1 of _next_layer, next_layer's no-override/deferral behaviour, the byte-exact raw relay without hooks, the ordered replay of pre-decision events and the TLS pass-through "
               "branch. Extracting Host and SNI from raw bytes (two regexes with lazy groups, the kaitai ClientHello parser) is out of reach of the symbolic engine: it is checked against an "
               "RFC 9112 reference reader on enumerated request heads and all their prefixes, and the composition is checked end-to-end by bounded sans-io runs over the proxy modes (T2)")
NL = "mitmproxy.addons.next_layer:NextLayer"
LNL = "mitmproxy.proxy.layer:NextLayer"
MS = "mitmproxy.proxy.mode_specs:"
IGNORECASE = 2
PORT_RE = r":\d+$"
ASSUMPTIONS = [
    "re.search(rule, text, flags) is an uninterpreted predicate of (rule, flags, text) — user rules are arbitrary regular expressions (trusted: the re engine)",
    "NextLayer._get_host_header / _get_client_hello are summarised in T1 by their three possible outcomes (None / a value / NeedsMoreData); their meaning on raw bytes is checked in T2 only",
    "wireguard mode's built-in DNS address 10.0.0.53:53 is exempt from the rules (virtual destination served by mitmproxy itself): excluded by precondition",
    "T1 shapes: <= 2 allow rules and <= 2 ignore rules; candidate availability patterns {address only, peername+address, address+Host, address+ClientHello SNI, address+client.sni, all five, none}",
    "parse_client_hello (kaitai) is summarised in the ClientTLSLayer contract by its outcomes (incomplete / a ClientHello / ValueError)",
    "make_pipe contract: h11's ReceiveBuffer.maybe_extract_at_most(len(buf)) is summarised as 'returns the whole content, empties the buffer' (real method natively)",
    "laziness of handshake_record_contents (only the records carrying the ClientHello are validated; what follows in the same buffer is not looked at) cannot be stated in T1: the engine runs generators eagerly when a for-loop consumes them, so a lazy and an eager reader are indistinguishable symbolically; it is checked in T2 (ClientHello followed by ChangeCipherSpec / application-data / alert records / garbage, at function level and end to end incl. cuts right behind each record)",
    "tls.get_client_hello (reassembly of the ClientHello from TLS records) has no T1 contract: with symbolic fragment contents the nested slice terms cost 20-70 s of solver time per obligation (tried in three encodings); it is checked in T2 against an RFC 8446 reference on *every* record fragmentation of synthetic handshake streams (<= 9 bytes, complete / truncated / followed by another message, with partial trailing records), on a real OpenSSL ClientHello re-cut into 2-4 records, and end-to-end",
]


class Hello19:
    """ClientHello stand-in: only .sni is read by _ignore_connection"""


def set_ctx_options(vc, opts):
    import mitmproxy.ctx as mctx
    mctx.options = opts


def matches(vc, rule, text, flags=IGNORECASE):
    if vc.mode == "native":
        import re
        return re.search(rule, text, flags) is not None
    from pyvc import libx_addons as X
    return SBool(X.re_search3_t(lift(rule).t, flags, lift(text).t))


def hp(vc, host, port):
    """f"{host}:{port}" """
    if vc.mode == "native":
        return f"{host}:{port}"
    import z3
    from pyvc import lib
    return host + ":" + SStr(lib.int_to_str(port.t))


def _nmd():
    from mitmproxy.addons import next_layer
    return next_layer.NeedsMoreData


def _raise(vc, cls):
    if vc.mode == "native":
        raise cls()
    vc.it.raise_(cls)


SHAPES = {  # which candidate sources are available
    "none": (),
    "address": ("address",),
    "peername+address": ("peername", "address"),
    "peername_only": ("peername",),
    "address+host": ("address", "host"),
    "address+hello_sni": ("address", "hello"),
    "address+client_sni": ("address", "client_sni"),
    "all": ("peername", "address", "host", "hello", "client_sni"),
}
RULE_COUNTS = [(0, 0), (1, 0), (0, 1), (1, 1), (2, 0), (0, 2)]

def _ign_cands():
    """joint assignments for replayable counter-models: exactly one destination source carries the text `target`"""
    out = []
    srcs = ["a_host", "p_host", "host_header", "hello_sni", "client_sni"]
    for k in srcs:
        for tgt in ("target", "target:8080", "TARGET"):
            if ":" in tgt and k != "host_header":
                continue
            base = {x: "other.invalid" for x in srcs}
            base[k] = tgt
            for rule in ("target", r"target:\d+$", r"^target$", r"target:8080$"):
                out.append(dict(base, a_port=80, p_port=443, allow0=rule, allow1=r"nomatch\.invalid", ignore0=rule, ignore1=r"nomatch\.invalid"))
    return out


IGN_CANDS = _ign_cands()


@scenario("_ignore_connection", functions=[NL + "._ignore_connection"], candidates=IGN_CANDS)
def s_ignore(vc):
    n_allow, n_ignore = vc.case("rules(allow,ignore)", RULE_COUNTS)
    shape = vc.case("available", list(SHAPES))
    if shape == "all" and n_allow + n_ignore > 1:
        return                                        # (path budget) the full candidate set is explored with a single rule
    avail = SHAPES[shape]
    host_outcome = vc.case("host_header", ["value", "none", "needs_more_data"]) if "address" in avail else "none"
    hello_outcome = vc.case("client_hello", ["hello", "hello_without_sni", "none", "needs_more_data"]) if "address" in avail else "none"
    if ("host" in avail) != (host_outcome == "value") and host_outcome != "needs_more_data":
        return
    if ("hello" in avail) != (hello_outcome == "hello") and hello_outcome not in ("needs_more_data", "hello_without_sni"):
        return
    if hello_outcome == "hello_without_sni" and "hello" in avail:
        return
    allow = [vc.sym_str(f"allow{i}") for i in range(n_allow)]
    ignore = [vc.sym_str(f"ignore{i}") for i in range(n_ignore)]
    a_host, p_host = vc.sym_str("a_host"), vc.sym_str("p_host")
    a_port, p_port = vc.sym_int("a_port", lo=0, hi=65535), vc.sym_int("p_port", lo=0, hi=65535)
    hh, hsni, csni = vc.sym_str("host_header"), vc.sym_str("hello_sni"), vc.sym_str("client_sni")
    vc.assume(And(len_(hh) > 0, len_(hsni) > 0, len_(csni) > 0))
    mode = vc.case("mode", ["RegularMode", "TransparentMode", "WireGuardMode"])
    client = mk_client(vc, sni=csni if "client_sni" in avail else None,
                       proxy_mode=vc.new(MS + mode, full_spec=mode, data="", custom_listen_host=None, custom_listen_port=None))
    server = mk_server(vc, address=(a_host, a_port) if "address" in avail else None, peername=(p_host, p_port) if "peername" in avail else None)
    ctx = mk_context(vc, client, server)
    if mode == "WireGuardMode" and "address" in avail:
        vc.assume(Not(And(a_host == "10.0.0.53", a_port == 53)))      # documented exemption (see ASSUMPTIONS)
    set_ctx_options(vc, mk_options(vc, ignore_hosts=vc.list(ignore), allow_hosts=vc.list(allow)))
    calls = []

    def host_summary(v, context, dc, ds):
        calls.append("host")
        if host_outcome == "needs_more_data":
            _raise(v, _nmd())
        return v.lift(hh if host_outcome == "value" else None)

    def hello_summary(v, context, dc):
        calls.append("hello")
        if hello_outcome == "needs_more_data":
            _raise(v, _nmd())
        if hello_outcome == "none":
            return v.lift(None)
        return v.new("props.C19:Hello19", sni=hsni if hello_outcome == "hello" else None)

    vc.summary(NL + "._get_host_header", host_summary)
    vc.summary(NL + "._get_client_hello", hello_summary)
    self_ = vc.new(NL)
    out = vc.call(NL + "._ignore_connection", self_, ctx, vc.sym_bytes("data_client"), vc.sym_bytes("data_server"))
    rules_set = n_allow + n_ignore > 0
    # deferral: only when a rule is configured and the destination address is known, the first flight is looked at
    if rules_set and "address" in avail and (host_outcome == "needs_more_data" or hello_outcome == "needs_more_data"):
        vc.ensure("incomplete_first_flight.deferred", (not out.ok) and out.raised_type() is _nmd())
        return
    vc.ensure("total", out.ok)
    if not out.ok:
        return
    if not rules_set:
        vc.ensure("no_rules.not_ignored", vc.eq(out.result, False))
        vc.ensure("no_rules.first_flight_not_inspected", calls == [])
        return
    cands = []
    if "peername" in avail:
        cands.append(hp(vc, p_host, p_port))
    if "address" in avail:
        cands.append(hp(vc, a_host, a_port))
        if host_outcome == "value":
            has_port = matches(vc, PORT_RE, hh, 0)
            cands.append(If(has_port, hh, hp(vc, hh, a_port)) if vc.mode == "sym" else (hh if has_port else hp(vc, hh, a_port)))
        if hello_outcome == "hello":
            cands.append(hp(vc, hsni, a_port))
        if "client_sni" in avail:
            cands.append(hp(vc, csni, a_port))
    if not cands:
        vc.ensure("no_candidate.not_ignored", vc.eq(out.result, False))
        return
    not_allowed = And(*[Not(matches(vc, r, c)) for c in cands for r in allow]) if allow else False
    ignored = Or(*[matches(vc, r, c) for c in cands for r in ignore]) if ignore else False
    res = out.result
    vc.ensure("decision.iff_rules", Iff(vc.eq(res, True), Or(not_allowed, ignored)))
    vc.ensure("decision.is_bool", Or(vc.eq(res, True), vc.eq(res, False)))


# ---------------------------------------------------------------------------------------------
# _next_layer step 1 and next_layer

class Marker19:
    """result of the (summarised) mode rule: stands for 'interception continues'"""


@scenario("_next_layer.step1", functions=[NL + "._next_layer", "mitmproxy.proxy.layers.tcp:TCPLayer.__init__", "mitmproxy.proxy.layers.udp:UDPLayer.__init__"])
def s_next_layer_step1(vc):
    proto = vc.case("transport", ["tcp", "udp"])
    outcome = vc.case("_ignore_connection", ["ignored", "not_ignored", "needs_more_data"])
    show = vc.sym_bool("show_ignored_hosts")
    # the rules apply whatever the state of the client connection: plain, or TLS already terminated with the client
    # (secure web proxy; a second decision below an established client TLS layer)
    client_tls = vc.case("client_tls_established", [False, True])
    client = mk_client(vc, transport_protocol=proto, tls=client_tls, timestamp_tls_setup=1.5 if client_tls else None, sni="proxy.example" if client_tls else None,
                       alpn=vc.case("client_alpn", [None, b"http/1.1"]) if client_tls else None,
                       proxy_mode=vc.new(MS + "RegularMode", full_spec="regular", data="", custom_listen_host=None, custom_listen_port=None))
    server = mk_server(vc, transport_protocol=proto)
    opts = mk_options(vc, show_ignored_hosts=show, rawtcp=True, ignore_hosts=vc.list(["x"]), allow_hosts=vc.list([]))
    top = vc.new("mitmproxy.proxy.layers.modes:HttpProxy", context=None, debug=None, _paused=None, _paused_event_queue=None)
    ctx = mk_context(vc, client, server, opts, layers=[top])
    set_ctx_options(vc, opts)
    marker = vc.new("props.C19:Marker19")

    def ign(v, self_, context, dc, ds):
        if outcome == "needs_more_data":
            _raise(v, _nmd())
        return v.lift(outcome == "ignored")

    vc.summary(NL + "._ignore_connection", ign)
    vc.summary(NL + "._setup_explicit_http_proxy", lambda v, context, dc: marker)
    self_ = vc.new(NL)
    out = vc.call(NL + "._next_layer", self_, ctx, vc.sym_bytes("data_client"), vc.sym_bytes("data_server"))
    if outcome == "needs_more_data":
        vc.ensure("deferred.propagates", (not out.ok) and out.raised_type() is _nmd())
        vc.ensure("deferred.no_layer_created", len_(ctx.layers) == 1)
        return
    vc.ensure("total", out.ok)
    if not out.ok:
        return
    r = out.result
    if outcome == "ignored":
        from mitmproxy.proxy.layers import tcp, udp
        want = tcp.TCPLayer if proto == "tcp" else udp.UDPLayer
        vc.ensure("ignored.raw_relay_layer", isa(r, want))
        if isa(r, want):
            # ignore = not show_ignored_hosts: without a flow nothing is recorded and no hook fires
            vc.ensure("ignored.flow_iff_shown", Iff(show, not isnone(r.flow)) if vc.mode == "native" else _flow_iff(vc, r, show))
            vc.ensure("ignored.same_context", r.context is ctx)
    else:
        vc.ensure("not_ignored.interception_continues", r is marker)


def _flow_iff(vc, r, show):
    """sym: on this path show is decided (the constructor branched on it)"""
    has_flow = not isnone(r.flow)
    return Iff(show, has_flow)


@scenario("next_layer", functions=[NL + ".next_layer"])
def s_next_layer(vc):
    preset = vc.case("layer_already_set", [False, True])
    outcome = vc.case("_next_layer", ["layer", "needs_more_data", "none"])
    client, server = mk_client(vc), mk_server(vc)
    ctx = mk_context(vc, client, server)
    existing = vc.new("props.C19:Marker19")
    chosen = vc.new("props.C19:Marker19")
    ev = vc.new("mitmproxy.proxy.events:DataReceived", connection=client, data=vc.sym_bytes("d"))
    nl = vc.new(LNL, context=ctx, layer=existing if preset else None, events=vc.list([ev]), _ask_on_start=False, _handle=None, debug=None, _paused=None, _paused_event_queue=None)
    calls = []

    def summ(v, self_, context, dc, ds):
        calls.append((dc, ds))
        if outcome == "needs_more_data":
            _raise(v, _nmd())
        return chosen if outcome == "layer" else v.lift(None)

    vc.summary(NL + "._next_layer", summ)
    out = vc.call(NL + ".next_layer", vc.new(NL), nl)
    vc.ensure("total", out.ok)
    if not out.ok:
        return
    if preset:
        vc.ensure("preset.never_overridden", nl.layer is existing)
        vc.ensure("preset.no_decision_attempted", calls == [])
    elif outcome == "layer":
        vc.ensure("decided.layer_set", nl.layer is chosen)
    else:
        vc.ensure("undecided.layer_stays_none", isnone(nl.layer))
    if not preset:
        vc.ensure("decision_sees_all_client_bytes", len(calls) >= 1 and calls[0][0] == ev.data)


# ---------------------------------------------------------------------------------------------
# bytes received before the decision reach the chosen layer in order (layer.NextLayer._handle_event / _ask)

@scenario("nextlayer.replays_buffered_events_in_order", functions=[LNL + "._handle_event", LNL + "._ask"])
def s_replay(vc):
    decide = vc.case("addon_decides_now", [True, False])
    client, server = mk_client(vc), mk_server(vc)
    ctx = mk_context(vc, client, server)
    d1, d2, d3 = vc.sym_bytes("d1"), vc.sym_bytes("d2"), vc.sym_bytes("d3")
    e0 = vc.new("mitmproxy.proxy.events:Start")
    e1 = vc.new("mitmproxy.proxy.events:DataReceived", connection=client, data=d1)
    e2 = vc.new("mitmproxy.proxy.events:DataReceived", connection=server, data=d2)
    e3 = vc.new("mitmproxy.proxy.events:DataReceived", connection=client, data=d3)
    chosen = vc.new("mitmproxy.proxy.layers.tcp:TCPLayer", context=ctx, flow=None, debug=None, _paused=None, _paused_event_queue=None)
    nl = vc.new(LNL, context=ctx, layer=None, events=vc.list([e0, e1, e2]), _ask_on_start=False, _handle=None, debug=None, _paused=None, _paused_event_queue=None)
    got = []

    def child(v, self_, ev):
        got.append((self_, ev))
        return v.gen([v.ghost("child_event", self_, ev)])

    vc.summary("mitmproxy.proxy.layer:Layer.handle_event", child)

    def on_yield(cmd):
        if is_cmd(cmd, "NextLayerHook") and decide:
            cmd.data.layer = chosen

    out = vc.call(LNL + "._handle_event", nl, e3, on_yield=on_yield)
    vc.ensure("total", out.ok)
    if not out.ok:
        return
    hooks = [c for c in out.trace if not isinstance(c, (STuple, tuple)) and is_cmd(c, "NextLayerHook")]
    vc.ensure("asks_once_per_data_event", len(hooks) == 1 and hooks[0].data is nl)
    if decide:
        vc.ensure("replayed.to_chosen_layer_in_order_once", [x[1] for x in got] == [e0, e1, e2, e3] and all(x[0] is chosen for x in got))
        vc.ensure("replayed.data_untouched", And(e1.data == d1, e2.data == d2, e3.data == d3))
        vc.ensure("replayed.buffer_emptied", len_(nl.events) == 0)
        f = nl.fields if vc.mode == "sym" else nl.__dict__
        vc.ensure("later_events_go_to_chosen_layer", f.get("_handle") is not None and f.get("_handle_event") is not None)
    else:
        vc.ensure("undecided.nothing_forwarded", got == [])
        vc.ensure("undecided.events_kept_in_order", vc.eq(nl.events, [e0, e1, e2, e3]) if vc.mode == "native" else [x for x in nl.events.items] == [e0, e1, e2, e3])


# ---------------------------------------------------------------------------------------------
# raw relay without a flow: re-use C29's contracts (exact bytes to the other side, no hook, half-close propagation)

@scenario("TCPLayer(ignore).has_no_flow", functions=["mitmproxy.proxy.layers.tcp:TCPLayer.__init__", "mitmproxy.proxy.layers.udp:UDPLayer.__init__"])
def s_ignore_ctor(vc):
    which = vc.case("layer", ["mitmproxy.proxy.layers.tcp:TCPLayer", "mitmproxy.proxy.layers.udp:UDPLayer"])
    ignore = vc.case("ignore", [True, False])
    ctx = mk_context(vc, mk_client(vc), mk_server(vc), mk_options(vc))
    lyr = vc.construct(which, ctx, ignore=ignore)
    vc.ensure("flow_iff_not_ignored", isnone(lyr.flow) == ignore)
    if not ignore:
        vc.ensure("flow.endpoints", lyr.flow.client_conn is ctx.client and lyr.flow.server_conn is ctx.server)


def _reuse_c29():
    from props import C29
    for s in C29.SCENARIOS:
        if s.name in ("tcp.relay.data", "tcp.relay.close", "tcp.start", "udp.relay.data"):
            SCENARIOS.append(s)


_reuse_c29()


# ---------------------------------------------------------------------------------------------
# ClientTLSLayer: tls_clienthello hook sets ignore_connection => the buffered first flight is replayed untouched to a raw
# relay (no flow, no hook), TLS is never started, later data passes through

CT = "mitmproxy.proxy.layers.tls:ClientTLSLayer"


class Hello19b:
    """parsed ClientHello stand-in (sni / alpn_protocols are what the layer reads)"""


@scenario("client_tls.ignore_connection_passthrough", functions=[CT + ".receive_handshake_data", "mitmproxy.proxy.tunnel:TunnelLayer._handle_event",
                                                                 "mitmproxy.proxy.tunnel:TunnelLayer.event_to_child", "mitmproxy.proxy.tunnel:TunnelLayer._handshake_finished"])
def s_tls_passthrough(vc):
    from mitmproxy.proxy.tunnel import TunnelState
    parse = vc.case("parse_client_hello", ["hello", "incomplete", "error"])
    ignore = vc.case("addon_sets_ignore_connection", [True, False]) if parse == "hello" else False
    with_server_tls = vc.case("below_server_tls_layer", [True, False])
    client = mk_client(vc, tls=True)
    server = mk_server(vc)
    ctx = mk_context(vc, client, server, mk_options(vc))
    buffered, data = vc.sym_bytes("buffered"), vc.sym_bytes("data")
    common = dict(debug=None, _paused=None, _paused_event_queue=None, _event_queue=vc.list([]), command_to_reply_to=None, tunnel_state=TunnelState.ESTABLISHING)
    child0 = vc.new(LNL, context=ctx, layer=None, events=vc.list([]), _ask_on_start=False, _handle=None, debug=None, _paused=None, _paused_event_queue=None)
    lyr = vc.new(CT, context=ctx, conn=client, tunnel_connection=client, child_layer=child0, recv_buffer=bytearray(buffered) if vc.mode == "native" else buffered, server_tls_available=with_server_tls,
                 tls=None, **common)
    parent = vc.new("mitmproxy.proxy.layers.tls:ServerTLSLayer" if with_server_tls else "mitmproxy.proxy.layers.modes:HttpProxy", context=ctx, **(
        dict(conn=server, tunnel_connection=server, child_layer=lyr, tls=None, wait_for_clienthello=True, **common) if with_server_tls else dict(debug=None, _paused=None, _paused_event_queue=None)))
    if vc.mode == "sym":
        ctx.layers.items.extend([parent, lyr])
    else:
        ctx.layers.extend([parent, lyr])
    hello = vc.new("props.C19:Hello19b", sni=vc.sym_str("sni"), alpn_protocols=vc.list([b"h2"]))

    def parse_summary(v, buf):
        if parse == "error":
            _raise(v, ValueError)
        return hello if parse == "hello" else v.lift(None)

    vc.summary("mitmproxy.proxy.layers.tls:parse_client_hello", parse_summary)
    got = []

    def child(v, self_, ev):
        got.append((self_, ev))
        return v.gen([v.ghost("child_event", self_, ev)])

    vc.summary("mitmproxy.proxy.layer:Layer.handle_event", child)
    vc.summary(LNL + ".handle_event", child)
    started_tls = []
    vc.summary("mitmproxy.proxy.layers.tls:TLSLayer.start_tls", lambda v, self_: (started_tls.append(self_), v.gen([]))[1])
    vc.summary(CT + ".start_server_tls", lambda v, self_: v.gen([], None))
    # the TLS engine proper (OpenSSL BIO): only reached when the connection is intercepted
    vc.summary("mitmproxy.proxy.layers.tls:TLSLayer.receive_handshake_data", lambda v, self_, d: (started_tls.append("handshake"), v.gen([], (False, None)))[1])

    def on_yield(cmd):
        if is_cmd(cmd, "TlsClienthelloHook"):
            cmd.data.ignore_connection = ignore

    ev = vc.new("mitmproxy.proxy.events:DataReceived", connection=client, data=data)
    out = vc.call("mitmproxy.proxy.tunnel:TunnelLayer._handle_event", lyr, ev, on_yield=on_yield)
    vc.ensure("total", out.ok)
    if not out.ok:
        return
    cmds = [c for c in out.trace if not isinstance(c, (STuple, tuple))]
    kinds = trace_kinds(cmds)
    if parse == "incomplete":
        vc.ensure("incomplete.silent_and_buffered", kinds == [] and got == [] and lyr.recv_buffer == buffered + data)
        return
    if parse == "error":
        vc.ensure("unparsable.no_data_forwarded", got == [] or all(not isa(e, _dr()) for _, e in got))
        return
    vc.ensure("hook_once", kinds.count("TlsClienthelloHook") == 1)
    if not ignore:
        vc.ensure("intercepted.tls_started_not_relayed", len(started_tls) == 2 and started_tls[1] == "handshake" and not any(isa(e, _dr()) for _, e in got))
        return
    from mitmproxy.proxy.layers import tcp
    ch = lyr.child_layer
    vc.ensure("ignored.child_is_raw_relay_without_flow", isa(ch, tcp.TCPLayer) and isnone(ch.flow))
    vc.ensure("ignored.tls_never_started", started_tls == [])
    data_events = [(l, e) for l, e in got if isa(e, _dr())]
    vc.ensure("ignored.first_flight_replayed_once", len(data_events) == 1)
    if len(data_events) == 1:
        l, e = data_events[0]
        vc.ensure("ignored.replayed_to_the_raw_relay", l is ch)
        vc.ensure("ignored.replayed_bytes_untouched_in_order", And(e.data == buffered + data, e.connection is client))
    vc.ensure("ignored.buffer_cleared", len_(lyr.recv_buffer) == 0)
    vc.ensure("ignored.no_commands_besides_hook", kinds == ["TlsClienthelloHook"])
    # the TLS layers are detached from the real connections: later events of the client/server pass straight through
    vc.ensure("ignored.client_tls_layer_detached", lyr.conn is not client and lyr.tunnel_connection is not client)
    if with_server_tls:
        vc.ensure("ignored.server_tls_layer_detached", parent.conn is not server and parent.tunnel_connection is not server)


def _dr():
    from mitmproxy.proxy import events
    return events.DataReceived


# =============================================================================================
# T2 (bounded)

def ref_host(head: bytes):
    """Reference reader (RFC 9112 §2.1, §3, §5): for a *complete* CRLF-delimited request head returns the value of the first
    Host field (OWS stripped, obs-fold joined), or None when there is none.  Written from the RFC, not from the code."""
    end = head.find(b"\r\n\r\n")
    assert end >= 0
    lines = head[:end].split(b"\r\n")
    fields = []
    for l in lines[1:]:
        if l[:1] in (b" ", b"\t") and fields:
            fields[-1] = (fields[-1][0], fields[-1][1] + b" " + l.strip(b" \t"))
            continue
        name, sep, value = l.partition(b":")
        if not sep:
            continue
        fields.append((name, value.strip(b" \t")))
    for name, value in fields:
        if name.lower() == b"host":
            return value.decode("utf-8", "surrogateescape") or None
    return None


def _heads():
    """(label, head bytes, class) — class: 'plain' expected to equal the reference; others name a recorded finding class or 'gray'"""
    out = []
    hosts = [b"example.com", b"example.com:8080", b"EXAMPLE.com", b"[2001:db8::1]:443", b"10.0.0.1"]
    for h in hosts:
        for name in (b"Host", b"host", b"HOST", b"hOsT"):
            for ows_l, ows_r in ((b" ", b""), (b"\t", b""), (b"  ", b" "), (b" ", b"\t "), (b"", b""), (b"", b" ")):
                cls = "no-ows" if ows_l == b"" else "plain"
                line = name + b":" + ows_l + h + ows_r
                for before, after in (([], []), ([b"User-Agent: x"], []), ([], [b"Accept: */*"]), ([b"X-Host: evil.org", b"Accept: a"], [b"Connection: close"])):
                    if name != b"Host" and (before or after) and h != hosts[0]:
                        continue
                    for target in (b"/", b"http://other.org/", b"*"):
                        if target != b"/" and (h != hosts[0] or name != b"Host"):
                            continue
                        head = b"GET " + target + b" HTTP/1.1\r\n" + b"".join(x + b"\r\n" for x in before + [line] + after) + b"\r\n"
                        out.append((f"{name.decode()}:{ows_l!r}{h.decode()}{ows_r!r}/{len(before)}/{len(after)}/{target.decode()}", head, cls))
    out.append(("no host", b"GET / HTTP/1.1\r\nAccept: */*\r\n\r\n", "plain"))
    out.append(("no headers", b"GET / HTTP/1.0\r\n\r\n", "plain"))
    out.append(("duplicate host", b"GET / HTTP/1.1\r\nHost: first.example\r\nHost: second.example\r\n\r\n", "plain"))
    out.append(("host in value", b"GET / HTTP/1.1\r\nX-Note: Host: evil.org\r\nHost: example.com\r\n\r\n", "plain"))
    out.append(("host in body", b"POST / HTTP/1.1\r\nContent-Length: 21\r\n\r\n\r\nHost: evil.org\r\n\r\n", "plain"))
    out.append(("post with host", b"POST /x HTTP/1.1\r\nHost: example.com\r\nContent-Length: 3\r\n\r\nabc", "plain"))
    out.append(("connect", b"CONNECT example.com:443 HTTP/1.1\r\nHost: example.com:443\r\n\r\n", "plain"))
    out.append(("obs-fold", b"GET / HTTP/1.1\r\nX-A: 1\r\n continued\r\nHost: example.com\r\n\r\n", "plain"))
    out.append(("empty host last", b"GET / HTTP/1.1\r\nAccept: a\r\nHost:\r\n\r\n", "empty-host"))
    out.append(("empty host then field", b"GET / HTTP/1.1\r\nHost: \r\nX-Foo: example.com\r\n\r\n", "empty-host"))
    out.append(("empty host no space then field", b"GET / HTTP/1.1\r\nHost:\r\nX-Foo: example.com\r\n\r\n", "empty-host"))
    out.append(("space before colon", b"GET / HTTP/1.1\r\nHost : example.com\r\n\r\n", "gray"))
    out.append(("bare LF", b"GET / HTTP/1.1\nHost: example.com\n\n", "gray"))
    out.append(("lowercase method", b"get / HTTP/1.1\r\nHost: example.com\r\n\r\n", "plain"))
    return out


def _get_host(data, data_server=b""):
    from mitmproxy.addons import next_layer
    from props import sansio
    ctx = sansio.context_for()
    try:
        return ("value", next_layer.NextLayer._get_host_header(ctx, data, data_server))
    except next_layer.NeedsMoreData:
        return ("more",)


def _client_hello(sni: str, alpn=("http/1.1",)) -> bytes:
    """a real TLS ClientHello record produced by OpenSSL (ssl.MemoryBIO)"""
    import ssl
    c = ssl.SSLContext(ssl.PROTOCOL_TLS_CLIENT)
    c.check_hostname = False
    c.verify_mode = ssl.CERT_NONE
    c.set_alpn_protocols(list(alpn))
    inc, out = ssl.MemoryBIO(), ssl.MemoryBIO()
    o = c.wrap_bio(inc, out, server_hostname=sni)
    try:
        o.do_handshake()
    except ssl.SSLWantReadError:
        pass
    return out.read()


def _refragment(record: bytes, lens):
    """the handshake bytes of one TLS record re-cut into records with the given fragment lengths (the last takes the rest)"""
    assert record[0] == 0x16
    body, ver = record[5:], record[1:3]
    out, pos = b"", 0
    for n in list(lens) + [len(body)]:
        frag = body[pos:pos + n]
        pos += len(frag)
        if frag:
            out += b"\x16" + ver + len(frag).to_bytes(2, "big") + frag
    return out


def ref_client_hello(frags, complete_records=True):
    """RFC 8446 §4/§5.1 reference: the handshake message is the concatenation of the record fragments; it is complete once
    4 + uint24(length field) bytes are there."""
    H = b"".join(frags)
    if len(H) < 4:
        return None
    size = 4 + int.from_bytes(H[1:4], "big")
    return H[:size] if len(H) >= size else None


def _compositions(n):
    """all ways to cut n bytes into non-empty consecutive fragments"""
    if n == 0:
        yield []
        return
    for first in range(1, n + 1):
        for rest in _compositions(n - first):
            yield [first] + rest


def _mk(mode, ignore_hosts=(), allow_hosts=(), dst=None, **kw):
    from mitmproxy.addons import next_layer
    from props.addons_sansio import Proxy
    client_tls = mode.startswith("clienttls+")            # TLS already terminated with the client (secure web proxy / below a client TLS layer)
    p = Proxy(mode.removeprefix("clienttls+"), [next_layer.NextLayer()], transparent_dst=dst, ignore_hosts=list(ignore_hosts), allow_hosts=list(allow_hosts), connection_strategy="lazy", **kw)
    if client_tls:
        p.client.tls = True
        p.client.timestamp_tls_setup = 1.5
        p.client.sni = "proxy.example"
    return p


def _e2e_cases():
    """(label, mode, preamble segments the client sends before the payload, dst for transparent, payload bytes, destination texts)"""
    http = lambda host_line: b"GET /secret HTTP/1.1\r\n" + host_line + b"\r\nUser-Agent: t\r\n\r\n"
    cases = []
    cases.append(("regular CONNECT hostname, http inside", "regular", [b"CONNECT example.com:80 HTTP/1.1\r\nHost: example.com:80\r\n\r\n"], None, http(b"Host: example.com"), "example.com:80"))
    cases.append(("regular CONNECT ip, host header names the site", "regular", [b"CONNECT 93.184.216.34:80 HTTP/1.1\r\n\r\n"], None, http(b"Host: example.com"), "example.com"))
    cases.append(("transparent, Host header", "transparent", [], ("93.184.216.34", 80), http(b"Host: example.com"), "example.com"))
    cases.append(("transparent, host header lower-case name", "transparent", [], ("93.184.216.34", 80), http(b"host: example.com"), "example.com"))
    cases.append(("transparent, Host with tab", "transparent", [], ("93.184.216.34", 80), http(b"Host:\texample.com"), "example.com"))
    cases.append(("transparent, Host without OWS", "transparent", [], ("93.184.216.34", 80), http(b"Host:example.com"), "example.com"))
    cases.append(("transparent, ip only", "transparent", [], ("93.184.216.34", 80), http(b"Host: unrelated.org"), "93.184.216.34:80"))
    cases.append(("reverse, target address", "reverse:http://example.com:8000", [], None, http(b"Host: whatever"), "example.com:8000"))
    cases.append(("socks5 domain", "socks5", [b"\x05\x01\x00", b"\x05\x01\x00\x03\x0bexample.com\x00\x50"], None, http(b"Host: example.com"), "example.com:80"))
    hello = _client_hello("example.com")
    cases.append(("transparent TLS, SNI", "transparent", [], ("93.184.216.34", 443), hello, "example.com"))
    cases.append(("regular CONNECT ip:443, TLS SNI", "regular", [b"CONNECT 93.184.216.34:443 HTTP/1.1\r\n\r\n"], None, hello, "example.com"))
    # TLS 1.3 0-RTT flight in one buffer: ClientHello | ChangeCipherSpec | early application data
    ccs, early = b"\x14\x03\x03\x00\x01\x01", b"\x17\x03\x03\x00\x10" + bytes(range(16))
    cases.append(("transparent TLS, SNI, hello + CCS + early data", "transparent", [], ("93.184.216.34", 443), hello + ccs + early, "example.com"))
    cases.append(("transparent TLS, SNI, hello + CCS", "transparent", [], ("93.184.216.34", 443), hello + ccs, "example.com"))
    cases.append(("regular CONNECT ip:443, TLS SNI, hello + CCS + early data", "regular", [b"CONNECT 93.184.216.34:443 HTTP/1.1\r\n\r\n"], None, hello + ccs + early, "example.com"))
    # TLS already terminated with the client: the rules still apply
    cases.append(("secure web proxy (client TLS), CONNECT hostname, http inside", "clienttls+regular", [b"CONNECT example.com:80 HTTP/1.1\r\nHost: example.com:80\r\n\r\n"], None, http(b"Host: example.com"), "example.com:80"))
    cases.append(("secure web proxy (client TLS), CONNECT ip, Host header names the site", "clienttls+regular", [b"CONNECT 93.184.216.34:80 HTTP/1.1\r\n\r\n"], None, http(b"Host: example.com"), "example.com"))
    cases.append(("transparent below client TLS, Host header", "clienttls+transparent", [], ("93.184.216.34", 443), http(b"Host: example.com"), "example.com"))
    for lens in ([1], [2], [3], [4], [1, 1, 1], [5, 40]):
        cases.append((f"transparent TLS, SNI, hello in records {lens}+rest", "transparent", [], ("93.184.216.34", 443), _refragment(hello, lens), "example.com"))
    return cases


def _run_e2e(mode, pre, dst, payload_segments, rules):
    p = _mk(mode, dst=dst, **rules)
    for seg in pre:
        p.feed(seg)
    base_client = len(p.to_client())
    ok = p.feed_segments(payload_segments)
    return p, base_client, ok


def bounded(tier, seed):
    import itertools
    b = Bounded()
    b.rule = ("(1) NextLayer._get_host_header against an RFC 9112 reference reader on enumerated request heads (field order, name case, OWS none/space/tab/trailing, ports, IPv6, "
              "absolute-form and asterisk targets, duplicates, obs-fold, Host-like text in other fields and in the body) and on every prefix of each head (prefix result must be NeedsMoreData or the final result); "
              "(2) end-to-end sans-io runs of the real mode layers with the real NextLayer addon: proxy mode {regular CONNECT, transparent, reverse, SOCKS5} x destination form {address, Host header, TLS SNI} x "
              "rule {ignore matching, ignore not matching, allow matching, allow not matching} x segmentation of the first flight {whole, every 2-split, 1-byte first segment}: "
              "ignored => byte-exact relay both ways incl. the first flight and no HTTP/TLS hook; not ignored => intercepted; distinct = (case, rule, segmentation); non-trivial = a rule is set")
    b.bound = "enumerated heads (~300) x all prefixes; 11 end-to-end cases x 4 rule settings x splits (quick: <= 12 splits per case)"
    b.exhaustive = False
    # ---- (1) host header extraction
    for label, head, cls in _heads():
        b.case(("host", label), nontrivial=True)
        if cls == "gray":
            try:
                _get_host(head)          # totality only: the RFC leaves the outcome to the recipient
            except Exception as e:
                b.fail("host_header.total", {"head": head.decode("latin-1")}, f"raised {type(e).__name__}: {e}")
            continue
        want = ref_host(head)
        got = _get_host(head)
        inp = {"head": head.decode("latin-1"), "case": label}
        if got != ("value", want):
            suffix = {"no-ows": "[no-ows]", "empty-host": "[empty-host-value]"}.get(cls, "")
            b.fail("host_header.equals_rfc9112_reference" + suffix, inp, f"expected {want!r}, got {got!r}")
            continue
        # prefixes: NeedsMoreData or the final answer (segmentation clause)
        end = head.find(b"\r\n\r\n") + 4
        reported = set()
        for n in range(0, end):
            r = _get_host(head[:n])
            b.case(("host-prefix", label, n), nontrivial=False)
            if r != ("more",) and r != got:
                short = b"HTTP/" not in head[:n]
                name = "host_header.prefix_is_undecided_or_final" + ("[before-request-line-complete]" if short else "")
                if name not in reported:
                    reported.add(name)
                    b.fail(name, dict(inp, prefix_len=n, prefix=head[:n].decode("latin-1")), f"prefix gives {r!r}, whole head gives {got!r}")
    # a server greeting before client data: HTTP host header is not consulted
    b.case(("host", "server-first"), nontrivial=True)
    if _get_host(b"GET / HTTP/1.1\r\nHost: example.com\r\n\r\n", b"220 hello\r\n") != ("value", None):
        b.fail("host_header.ignored_when_server_spoke_first", {}, "")
    # ---- (1b) ClientHello reassembly from TLS records: every fragmentation (RFC 8446 §5.1)
    from mitmproxy.proxy.layers import tls as _tls
    msgs = []
    for body_len in (0, 1, 2, 5):
        full = b"\x01" + body_len.to_bytes(3, "big") + bytes(range(0x41, 0x41 + body_len))
        for stream in {full, full + b"\x02\x00", full[:-1] if body_len else full[:3], full[:2]}:
            msgs.append(stream)
    for stream in msgs:
        for comp in _compositions(len(stream)):
            for tail in (b"", b"\x16\x03", b"\x16\x03\x03\x00\x05ab"):
                frags, pos = [], 0
                for n in comp:
                    frags.append(stream[pos:pos + n])
                    pos += n
                data = b"".join(b"\x16\x03\x03" + len(f).to_bytes(2, "big") + f for f in frags) + tail
                b.case(("reassembly", stream, tuple(comp), tail), nontrivial=len(comp) > 1)
                want = ref_client_hello(frags)
                try:
                    got = _tls.get_client_hello(data)
                except Exception as e:
                    b.fail("client_hello.reassembly_total", {"records": [f.hex() for f in frags], "tail": tail.hex()}, f"raised {type(e).__name__}: {e}")
                    continue
                if got != want:
                    b.fail("client_hello.reassembled_for_every_record_fragmentation", {"records": [f.hex() for f in frags], "tail": tail.hex()},
                           f"expected {want!r}, got {got!r}")
    hello = _client_hello("example.com")
    frag_sets = [[k] for k in (1, 2, 3, 4, 5, 6, 50, len(hello) - 6)] + [[1, 1], [1, 2], [2, 1], [1, 1, 1], [3, 3], [4, 1], [1, 100]]
    if tier == "thorough":
        frag_sets += [[k] for k in range(7, len(hello) - 6)]
    from mitmproxy.addons import next_layer as _nl
    from props import sansio as _sansio
    for lens in frag_sets:
        data = _refragment(hello, lens)
        b.case(("sni-multirecord", tuple(lens)), nontrivial=True)
        for n in sorted(set([len(data)] + ([len(data) - 1, 9, 6] if tier == "quick" else list(range(0, len(data)))))):
            try:
                ch = _nl.NextLayer._get_client_hello(_sansio.context_for(), data[:n])
                r = ("value", ch.sni if ch is not None else None)
            except _nl.NeedsMoreData:
                r = ("more",)
            want = ("value", "example.com") if n == len(data) else ("more",)
            if n < 3:
                continue          # the documented minimum to recognise TLS
            if r != want:
                b.fail("client_hello.sni_from_fragmented_hello", {"fragment_lengths": lens, "prefix_len": n, "total": len(data)}, f"expected {want!r}, got {r!r}")
    # ---- (1c) tunnel bytes pipelined directly behind the CONNECT head (same TCP segment) to an ignored host
    head = b"CONNECT example.com:80 HTTP/1.1\r\nHost: example.com:80\r\n\r\n"
    for payload, lead in itertools.product([b"PING\r\n", b"line\n", b"\x00\x01\r\n\r\n", b"x\r", b"GET / HTTP/1.1\r\nHost: example.com\r\n\r\n", b"abc"], [b"", b"\r\n", b"\n"]):
        for rules in (dict(ignore_hosts=[r"example\.com"]), dict(allow_hosts=[r"nomatch\.invalid"])):
            b.case(("pipelined-behind-connect", payload, lead, tuple(rules)), nontrivial=True)
            inp = {"pipelined": (lead + payload).decode("latin-1"), "rules": rules}
            try:
                p = _mk("regular", **rules)
                p.feed(head + lead + payload)
                got = b"".join(d for _, d in p.all_server_bytes())
                p.feed(b"more\r\n")
                got2 = b"".join(d for _, d in p.all_server_bytes())
            except Exception as e:
                b.fail("e2e.total", inp, f"raised {type(e).__name__}: {e}")
                continue
            # the leading CR/LF run directly behind the CONNECT head may be eaten; nothing else may change
            if got not in (payload, lead + payload) or got2 != got + b"more\r\n":
                b.fail("e2e.bytes_pipelined_behind_connect_relayed_untouched", inp, f"server received {got2!r}")
            if any(h in FLOW_HOOKS for h in _hooks_after_preamble(p, [head])):
                b.fail("e2e.ignored_connection_fires_no_flow_hooks", inp, str(p.hooks()))
    for tail in (b"\x14\x03\x03\x00\x01\x01", b"\x14\x03\x03\x00\x01\x01\x17\x03\x03\x00\x04abcd", b"\x17\x03\x03\x00\x02ab", b"\x15\x03\x03\x00\x02\x02\x28", b"\x00garbage", b"\x17\x03"):
        for lens in ([], [3], [1, 1]):
            data = _refragment(hello, lens) + tail
            b.case(("sni-then-other-records", tuple(lens), tail), nontrivial=True)
            try:
                ch = _nl.NextLayer._get_client_hello(_sansio.context_for(), data)
                r = ("value", ch.sni if ch is not None else None)
            except _nl.NeedsMoreData:
                r = ("more",)
            if r != ("value", "example.com"):
                b.fail("client_hello.sni_unaffected_by_records_behind_the_hello", {"fragment_lengths": lens, "tail": tail.hex()}, f"got {r!r}")
            try:
                got = _tls.get_client_hello(data)
            except Exception as e:
                got = f"raised {type(e).__name__}: {e}"
            if got != hello[5:]:
                b.fail("client_hello.reassembly_ignores_what_follows", {"fragment_lengths": lens, "tail": tail.hex()}, f"got {str(got)[:80]!r}")
    # ---- (2) end to end
    rule_sets = [("ignore.match", lambda d: dict(ignore_hosts=[_rx(d)]), True), ("ignore.nomatch", lambda d: dict(ignore_hosts=[r"nomatch\.invalid"]), False),
                 ("allow.match", lambda d: dict(allow_hosts=[_rx(d)]), False), ("allow.nomatch", lambda d: dict(allow_hosts=[r"nomatch\.invalid"]), True)]
    for (label, mode, pre, dst, payload, dest_text), (rname, mkrules, expect_ignored) in itertools.product(_e2e_cases(), rule_sets):
        splits = [[payload]] + [[payload[:i], payload[i:]] for i in _cut_points(payload, tier)]
        for segs in splits:
            key = (label, rname, tuple(len(s) for s in segs))
            b.case(key, nontrivial=True)
            inp = {"case": label, "mode": mode, "rule": rname, "rules": {k: v for k, v in mkrules(dest_text).items()}, "segments": [len(s) for s in segs]}
            try:
                p, base_client, fed = _run_e2e(mode, pre, dst, segs, mkrules(dest_text))
            except Exception as e:
                import traceback
                b.fail("e2e.total", inp, f"raised {type(e).__name__}: {e} {traceback.format_exc()[-400:]}")
                continue
            after_pre = _hooks_after_preamble(p, pre)          # hooks of the CONNECT / SOCKS5 preamble precede the decision
            # "intercepted" = some flow is created for the connection's payload (HTTP, TLS or raw TCP flow hooks)
            intercepted = any(h in FLOW_HOOKS for h in after_pre)
            relayed = b"".join(d for _, d in p.all_server_bytes())
            cls = _e2e_class(label, segs, payload)
            if cls == "[first-segment-shorter-than-tls-record-header]":
                continue        # the statement excuses "the documented minimum needed to recognise TLS"
            if expect_ignored:
                if intercepted:
                    b.fail("e2e.ignored_connection_not_intercepted" + cls, inp, f"hooks after the decision: {after_pre}")
                    continue
                if not relayed.endswith(payload):
                    b.fail("e2e.ignored_first_flight_relayed_untouched" + cls, inp, f"server received {relayed[-120:]!r}")
                    continue
                # both directions, byte-exact, also afterwards
                more_c, more_s = bytes(range(256)), b"\x00\xffHTTP/1.1 200 OK\r\n\r\n" + bytes(range(255, -1, -1))
                n_before = len(p.to_client())
                p.reply(more_s)
                p.feed(more_c)
                if p.to_client()[n_before:] != more_s or not b"".join(d for _, d in p.all_server_bytes()).endswith(payload + more_c):
                    b.fail("e2e.ignored_relay_is_byte_exact_both_ways" + cls, inp, "later bytes were altered, reordered or dropped")
                if any(h in FLOW_HOOKS for h in _hooks_after_preamble(p, pre)):
                    b.fail("e2e.ignored_connection_fires_no_flow_hooks" + cls, inp, str(_hooks_after_preamble(p, pre)))
            else:
                if not intercepted:
                    b.fail("e2e.other_connections_are_intercepted" + cls, inp, f"hooks: {after_pre}; server got {relayed[-80:]!r}")
    return b


FLOW_HOOKS = ("requestheaders", "request", "tls_clienthello", "tls_start_client", "tls_start_server", "tcp_start", "tcp_message", "udp_start", "udp_message")


def _rx(dest_text):
    import re
    return re.escape(dest_text.split(":")[0]) if not dest_text[0].isdigit() else re.escape(dest_text)


def _cut_points(payload, tier):
    n = len(payload)
    if tier == "thorough":
        return list(range(1, n))
    rec_ends = []
    if payload[:1] == b"\x16":      # TLS: also cut right behind every record
        o = 0
        while o + 5 <= n:
            o += 5 + int.from_bytes(payload[o + 3:o + 5], "big")
            rec_ends.append(o)
    pts = sorted(set(rec_ends + [1, 2, 3, 4, 5, n // 2, n - 1] + [payload.find(b"Host") + k for k in (0, 4, 5, 6)] + [payload.find(b"\r\n") + 1, payload.find(b"\r\n") + 2]))
    return [i for i in pts if 0 < i < n][:16]


def _hooks_after_preamble(p, pre):
    names = p.hooks()
    if pre and pre[0].startswith(b"CONNECT"):
        i = names.index("http_connected") if "http_connected" in names else (names.index("http_connect") if "http_connect" in names else -1)
        return names[i + 1:]
    if pre:   # socks5
        return names
    return names


def _e2e_class(label, segs, payload):
    """recorded-finding classes of the end-to-end check"""
    if len(segs) > 1 and payload[:1].isalpha() and b"HTTP/" not in segs[0]:
        return "[first-segment-shorter-than-request-line]"
    if "without OWS" in label:
        return "[no-ows]"
    if len(segs) > 1 and payload[:1] == b"\x16" and len(segs[0]) < 6:
        return "[first-segment-shorter-than-tls-record-header]"
    return ""


# ---------------------------------------------------------------------------------------------
# CONNECT to an ignored host: bytes the client pipelined directly behind the CONNECT head are "bytes received before the
# decision".  Http1Connection.make_pipe hands them on: the property allows dropping the *leading* CR/LF run (superfluous
# newlines after the CONNECT head, RFC 9112 §2.2 robustness) — every other byte, in particular trailing CR/LF, is payload.

H1S = "mitmproxy.proxy.layers.http._http1:Http1Server"
import h11._receivebuffer as _h11rb  # noqa: E402

_H11_EXTRACT = [_h11rb.ReceiveBuffer.maybe_extract_at_most]      # boxed original (native summaries patch the class attribute)


@scenario("make_pipe.hands_on_pipelined_tunnel_bytes", functions=[H1S + ".make_pipe", H1S + ".passthrough"])
def s_make_pipe(vc):
    from props.httpstream import mk_request
    newlines = vc.case("superfluous_newlines", [b"", b"\r\n", b"\n", b"\r\n\r\n", b"\r"])
    body = vc.sym_bytes("tunnel_bytes")
    if vc.mode == "sym":
        import z3
        S = z3.ReSort(z3.StringSort())
        first_ok = z3.Diff(z3.AllChar(S), z3.Union(z3.Re("\r"), z3.Re("\n")))
        vc.assume(SBool(z3.InRe(body.t, z3.Union(z3.Re(""), z3.Concat(first_ok, z3.Star(z3.AllChar(S)))))))   # payload does not start with CR/LF
    else:
        vc.assume(body[:1] not in (b"\r", b"\n"))
    buffered = (SBytes(newlines) if vc.mode == "sym" else newlines) + body
    client = mk_client(vc)
    ctx = mk_context(vc, client, mk_server(vc))
    sid = vc.sym_int("stream_id", lo=1)
    buf = vc.new("h11._receivebuffer:ReceiveBuffer", _data=bytearray(buffered) if vc.mode == "native" else buffered, _next_line_search=0, _multiple_lines_search=0)
    lay = vc.new(H1S, context=ctx, conn=client, stream_id=sid, buf=buf, debug=None, _paused=None, _paused_event_queue=None,
                 request=mk_request(vc), response=None, request_done=True, response_done=True)
    def extract_all(v, self_, count):
        """h11 ReceiveBuffer.maybe_extract_at_most(len(buf)): the whole content (None when empty), buffer emptied afterwards
        (h11 deletes a bytearray slice in place, which the engine's immutable-bytes model of bytearray cannot express)"""
        if v.mode == "native":
            return _H11_EXTRACT[0](self_, count)
        d = self_._data
        self_._data = SBytes(b"")
        if v.branch(len_(d) == 0):
            return v.lift(None)
        return d

    vc.summary("h11._receivebuffer:ReceiveBuffer.maybe_extract_at_most", extract_all)
    out = vc.call(H1S + ".make_pipe", lay)
    vc.ensure("total", out.ok)
    if not out.ok:
        return
    tr = out.trace
    if vc.branch(len_(body) == 0):
        vc.ensure("nothing_pipelined.nothing_handed_on", len(tr) == 0)
    else:
        vc.ensure("pipelined.one_data_event", len(tr) == 1 and is_cmd(tr[0], "ReceiveHttp") and is_cmd(tr[0].event, "RequestData"))
        if len(tr) == 1 and is_cmd(tr[0], "ReceiveHttp"):
            vc.ensure("pipelined.every_payload_byte_in_order", tr[0].event.data == body)
            vc.ensure("pipelined.same_stream", tr[0].event.stream_id == sid)
    st = (lay.fields if vc.mode == "sym" else lay.__dict__).get("state")
    vc.ensure("later_bytes_pass_through", st is not None and (st.func.qualname.endswith(".passthrough") if vc.mode == "sym" else getattr(st, "__name__", "") == "passthrough"))
    vc.ensure("buffer_drained", len_(lay.buf._data) == 0)
