"""C53 — Client replay runs queued flows sequentially and cleans up.

T1: ClientPlayback.check (decision table), start_replay / stop_replay (post-state contracts incl. Flow.backup/revert from their
real source over an abstract snapshot), ClientPlayback.playback as a single-coroutine path property under the suspension
model (props/C10.py, DESIGN §5.3), ReplayHandler.handle_hook / replay (completion signalling).
T2: the real ClientPlayback + ReplayHandler + HttpLayer on a real asyncio loop with a fake upstream (bounded).
"""
from pyvc.api import *
from props.prelude import *

CLAIM = "other"
EXPLANATION = ("T1 proves the queueing rules (check/start_replay/stop_replay for every flow kind and flag combination) and, for all schedules of the playback "
               "coroutine, that with concurrency 1 a replay is started only after the previous one has completed, in queue order (one known finding: a flow that "
               "already has a backup is reverted to that older backup by stop_replay). That every replay ends with a response or an error and that requests "
               "do not overlap at the server depends on the proxy core, the HTTP layer and task scheduling: checked bounded on the real stack (T2).")
CP = "mitmproxy.addons.clientplayback:ClientPlayback"
RH = "mitmproxy.addons.clientplayback:ReplayHandler"
ASSUMPTIONS = [
    "asyncio.Queue is modelled by props.C53:QueueStub (FIFO list; get() suspends; get_nowait raises QueueEmpty when empty; task_done counts)",
    "Flow.get_state / set_state are abstracted to a snapshot of the ghost field `version` plus (response, error, is_replay): revert restores exactly what backup saved",
    "mitmproxy.ctx.master.addons.trigger / handle_lifecycle are environment calls (recorded / suspension point)",
    "ReplayHandler construction (proxy core set-up) is abstracted in the playback contract; its real code runs in T2",
    "suspension-point model: other tasks act only at awaits; they may put flows on the queue (start_replay) or drain it (stop_replay) at any await of playback",
    "playback itself is cancelled only at shutdown (ClientPlayback.done)",
]


# ---------------------------------------------------------------------------------------------
# stubs

class QueueStub:
    """asyncio.Queue stand-in."""

    def put_nowait(self, x):
        self.items.append(x)
        self.unfinished = self.unfinished + 1

    def get_nowait(self):
        import asyncio
        if len(self.items) == 0:
            raise asyncio.QueueEmpty()
        return self.items.pop(0)

    def get(self):
        return queue_get_point(self)

    def task_done(self):
        if self.unfinished <= 0:
            raise ValueError("task_done() called too many times")
        self.unfinished = self.unfinished - 1

    def qsize(self):
        return len(self.items)


def queue_get_point(q):  # summarised: suspension point
    raise NotImplementedError


class AddonsStub:
    def trigger(self, hook):
        self.triggered.append(hook)

    def handle_lifecycle(self, hook):
        return lifecycle_point(self, hook)


def lifecycle_point(addons, hook):  # summarised: suspension point
    raise NotImplementedError


class MasterStub:
    pass


class Snapshot:
    """abstract Flow.get_state() result"""


class EventStub:
    def set(self):
        self.flag = True

    def is_set(self):
        return self.flag

    def wait(self):
        return event_wait_point(self)


def event_wait_point(ev):
    raise NotImplementedError


class TaskStub:
    def cancel(self, msg=None):
        self.cancel_requests = self.cancel_requests + 1
        return True


class HandlerStub:
    """what playback needs of a ReplayHandler"""

    def replay(self):
        return replay_point(self)


def replay_point(h):
    raise NotImplementedError


KINDS = ["http", "tcp", "udp", "dns"]
FLOW_CLS = {"http": "mitmproxy.http:HTTPFlow", "tcp": "mitmproxy.tcp:TCPFlow", "udp": "mitmproxy.udp:UDPFlow", "dns": "mitmproxy.dns:DNSFlow"}


def _set_ctx(vc, **opts):
    import mitmproxy.ctx as mctx
    addons = vc.new("props.C53:AddonsStub", triggered=vc.list([]))
    mctx.master = vc.new("props.C53:MasterStub", addons=addons)
    mctx.options = mk_options(vc, **opts)
    if vc.mode == "native":
        import logging
        logging.getLogger("mitmproxy.addons.clientplayback").setLevel(logging.CRITICAL + 1)   # keep replays quiet
    return addons


def _flow_summaries(vc):
    """Flow.backup / Flow.revert run from their real source; the (de)serialisation they call is abstracted to a snapshot."""

    def get_state(v, f):
        return v.new("props.C53:Snapshot", version=f.version, response=f.response, error=f.error, is_replay=f.is_replay)

    def set_state(v, f, snap):
        f.version, f.response, f.error, f.is_replay = snap.version, snap.response, snap.error, snap.is_replay
        return v.lift(None)

    for c in set(FLOW_CLS.values()) | {"mitmproxy.flow:Flow"}:
        vc.summary(c + ".get_state", get_state)
        vc.summary(c + ".set_state", set_state)


def mk_flow(vc, tag, kind="http", live=False, intercepted=False, has_request=True, content=b"body", websocket=False, has_backup=False, response=True, error=False):
    f = dict(id=tag, live=live, intercepted=intercepted, version=vc.sym_int(f"{tag}.version"), is_replay=None, error=None, _backup=None,
             marked="", comment="", metadata=vc.dict([]), client_conn=None, server_conn=None, timestamp_created=1.0, _resume_event=None)
    if error:
        f["error"] = vc.new("mitmproxy.flow:Error", msg="earlier error", timestamp=3.0)
    if kind == "http":
        req = None
        if has_request:
            req = vc.new("mitmproxy.http:Request", data=vc.new("mitmproxy.http:RequestData", content=content, trailers=None))
        f.update(request=req, websocket=vc.new("mitmproxy.websocket:WebSocketData", messages=vc.list([])) if websocket else None,
                 response=vc.new("mitmproxy.http:Response", data=vc.new("mitmproxy.http:ResponseData", content=b"old", status_code=200)) if response else None)
    else:
        f.update(response=None)
    fl = vc.new(FLOW_CLS[kind], **f)
    if has_backup:
        fl._backup = vc.new("props.C53:Snapshot", version=vc.sym_int(f"{tag}.backup_version"), response=None, error=None, is_replay=None)
    return fl


def mk_cp(vc, queued=(), inflight=None):
    q = vc.new("props.C53:QueueStub", items=vc.list(list(queued)), unfinished=len(queued) + (1 if inflight is not None else 0))
    return vc.new(CP, queue=q, inflight=inflight, options=None, replay_tasks=set(), playback_task=None), q


# ---------------------------------------------------------------------------------------------
# check: decision table

def spec_unreplayable(kind, live, is_inflight, intercepted, has_request, has_content, websocket):
    """The statement's list: live (incl. the flow being replayed right now), intercepted, non-HTTP, missing request/content, WebSocket."""
    return Or(live, is_inflight, intercepted, kind != "http", not has_request, not has_content, websocket)


@scenario("check.decision_table", functions=[CP + ".check"])
def s_check(vc):
    kind = vc.case("kind", KINDS)
    live, intercepted = vc.sym_bool("live"), vc.sym_bool("intercepted")
    is_inflight = vc.case("is_the_inflight_flow", [False, True])
    has_request = vc.case("has_request", [True, False]) if kind == "http" else True
    has_content = vc.case("has_content", [True, False]) if kind == "http" and has_request else True
    websocket = vc.case("websocket", [False, True]) if kind == "http" else False
    content = vc.sym_bytes("content")      # any bytes incl. empty: b"" is *present* content
    f = mk_flow(vc, "f", kind, live, intercepted, has_request, content if has_content else None, websocket)
    other = mk_flow(vc, "other")
    cp, q = mk_cp(vc, inflight=f if is_inflight else vc.case("other_inflight", [None, other]))
    out = vc.call(CP + ".check", cp, f)
    vc.ensure("no_exception", out.ok)
    if not out.ok:
        return
    bad = spec_unreplayable(kind, live, is_inflight, intercepted, has_request, has_content, websocket)
    vc.ensure("reason_iff_unreplayable", Iff(bad, Not(isnone(out.result))))
    if not isnone(out.result):
        vc.ensure("reason_is_a_nonempty_message", len_(out.result) > 0)
    vc.ensure("pure", And(len_(q.items) == 0, vc.eq(f.live, live), vc.eq(f.intercepted, intercepted)))


# ---------------------------------------------------------------------------------------------
# start_replay / stop_replay

def _variant(vc, tag):
    """one submitted flow of an arbitrary replayability class; returns (flow, replayable?)"""
    v = vc.case(tag, ["ok", "ok_no_response", "ok_empty_body", "ok_with_error", "live", "intercepted", "tcp", "dns", "no_request", "no_content", "websocket"])
    kw = dict(ok={}, ok_no_response=dict(response=False), ok_empty_body=dict(content=b""), ok_with_error=dict(error=True), live=dict(live=True), intercepted=dict(intercepted=True), tcp=dict(kind="tcp"), dns=dict(kind="dns"),
              no_request=dict(has_request=False), no_content=dict(content=None), websocket=dict(websocket=True))[v]
    return mk_flow(vc, tag, **kw), v.startswith("ok")


def _queue_items(vc, q):
    return list(q.items.items) if vc.mode == "sym" else list(q.items)


@scenario("start_replay.queues_exactly_the_replayable_in_order", functions=[CP + ".start_replay", CP + ".check", "mitmproxy.flow:Flow.backup"])
def s_start(vc):
    addons = _set_ctx(vc)
    _flow_summaries(vc)
    a, a_ok = _variant(vc, "a")
    b, b_ok = _variant(vc, "b")
    c = mk_flow(vc, "c")
    already = mk_flow(vc, "queued_before")
    cp, q = mk_cp(vc, queued=[already])
    pre = {id(f): (f.version, f.response, f.error, f.is_replay, f._backup) for f in (a, b, c)}
    out = vc.call(CP + ".start_replay", cp, vc.list([a, b, c]))
    vc.ensure("no_exception", out.ok)
    expect = [already] + [f for f, ok in ((a, a_ok), (b, b_ok), (c, True)) if ok]
    items = _queue_items(vc, q)
    vc.ensure("queue.exactly_the_replayable_flows_in_submission_order", len(items) == len(expect) and all(x is y for x, y in zip(items, expect)))
    vc.ensure("queue.unfinished_count", q.unfinished == len(expect))
    for f, ok in ((a, a_ok), (b, b_ok), (c, True)):
        tag = "queued" if ok else "skipped"
        ver, resp, err, isrep, bk = pre[id(f)]
        if ok:
            vc.ensure("queued.marked_as_replay", vc.eq(f.is_replay, "request"))
            vc.ensure("queued.response_and_error_cleared", And(isnone(f.response), isnone(f.error)))
            vc.ensure("queued.backed_up", not isnone(f._backup))
            if not isnone(f._backup):
                vc.ensure("queued.backup_holds_pre_replay_state", And(f._backup.version == ver, f._backup.response is resp, f._backup.error is err, isnone(f._backup.is_replay)))
        else:
            vc.ensure("skipped.untouched", And(f.version == ver, f.response is resp, f.error is err, isnone(f.is_replay), f._backup is bk))
    trig = addons.triggered.items if vc.mode == "sym" else addons.triggered
    upd = [x for x in (trig[0].flows.items if vc.mode == "sym" else trig[0].flows)] if len(trig) == 1 else None
    vc.ensure("update_hook.exactly_the_queued_flows", upd is not None and len(upd) == len(expect) - 1 and all(x is y for x, y in zip(upd, expect[1:])))


@scenario("stop_replay.empties_queue_and_restores", functions=[CP + ".stop_replay", CP + ".start_replay", "mitmproxy.flow:Flow.backup", "mitmproxy.flow:Flow.revert"])
def s_stop(vc):
    """start_replay ; [the first flow may already have been taken by playback] ; stop_replay  ==> every still-queued flow is back in its
    pre-replay state, the queue is empty and consistent, the in-flight flow is left alone."""
    addons = _set_ctx(vc)
    _flow_summaries(vc)
    a_has_backup = vc.case("a_has_backup_from_an_earlier_edit", [False, True])
    a = mk_flow(vc, "a", has_backup=a_has_backup, response=vc.case("a_has_response", [True, False]), error=vc.case("a_has_error", [False, True]))
    b = mk_flow(vc, "b")
    bad = mk_flow(vc, "bad", live=True)
    taken = vc.case("first_flow_taken_by_playback", [False, True])
    cp, q = mk_cp(vc)
    flows = [b, bad, a] if taken else [a, bad, b]
    pre = {id(f): (f.version, f.response, f.error, f.is_replay) for f in (a, b, bad)}
    out0 = vc.call(CP + ".start_replay", cp, vc.list(flows))
    if taken:
        cp.inflight = q.get_nowait() if vc.mode == "native" else q.items.items.pop(0)
    # the user may have looked at the flows meanwhile, not edited them (they are queued for replay)
    out = vc.call(CP + ".stop_replay", cp)
    vc.ensure("no_exception", out0.ok and out.ok)
    vc.ensure("queue.empty", len(_queue_items(vc, q)) == 0)
    vc.ensure("queue.only_inflight_unfinished", q.unfinished == (1 if taken else 0))
    for f in ([a] if taken else [a, b]):
        ver, resp, err, isrep = pre[id(f)]
        restored = And(f.version == ver, f.response is resp, f.error is err, isnone(f.is_replay))
        if f is a:
            vc.ensure_kf("still_queued.restored_to_pre_replay_state", restored, "KF-C53-1", a_has_backup)
        else:
            vc.ensure("still_queued.restored_to_pre_replay_state.b", restored)
        vc.ensure("still_queued.no_longer_marked", isnone(f.is_replay))
    if taken:
        vc.ensure("inflight.left_alone", And(vc.eq(b.is_replay, "request"), isnone(b.response), cp.inflight is b))
    ver, resp, err, isrep = pre[id(bad)]
    vc.ensure("never_queued.untouched", And(bad.version == ver, bad.response is resp, isnone(bad.is_replay)))
    trig = addons.triggered.items if vc.mode == "sym" else addons.triggered
    last = (trig[-1].flows.items if vc.mode == "sym" else trig[-1].flows) if trig else []
    exp = [a] if taken else [a, b]
    vc.ensure("update_hook.reverted_flows", len(trig) == 2 and len(last) == len(exp) and all(x is y for x, y in zip(last, exp)))


# ---------------------------------------------------------------------------------------------
# playback: with concurrency 1 the next flow is taken from the queue only after the previous replay() has completed

def _playback_body(vc, inductive):
    import asyncio
    _set_ctx(vc, client_replay_concurrency=1)
    flows = [mk_flow(vc, f"f{i}") for i in range(3)]
    cp, q = mk_cp(vc)
    cp.options = None
    st = dict(active=[], started=[], finished=[], taken=[], n_get=0, done_at_get=[])
    made = []

    def mk_handler(v, flow, options):
        h = v.new("props.C53:HandlerStub", flow=flow)
        made.append(h)
        return h

    vc.summary(RH, mk_handler)
    vc.summary("props.C53:queue_get_point", lambda v, q_: v.awaitable("queue.get", q_))
    vc.summary("props.C53:replay_point", lambda v, h: v.awaitable("replay", h))
    vc.summary("mitmproxy.utils.asyncio_utils:create_task", lambda v, coro, **k: vc.unreachable("concurrency_1_never_spawns_a_replay_task") or v.lift(None))

    def on_yield(item):
        kind = item[1]
        if kind == "queue.get":
            # the coroutine is idle here: no replay may be in progress, and every flow taken so far is accounted for
            vc.ensure("idle_when_waiting_for_the_queue", len(st["active"]) == 0)
            vc.ensure("inflight_cleared_between_replays", isnone(cp.inflight))
            vc.ensure("task_done_once_per_taken_flow", q.unfinished == st.get("unfinished_expected", 0))
            if st["n_get"] >= len(flows) or (not inductive and vc.branch(vc.fresh_bool("shutdown"))):
                return vc.throw(asyncio.CancelledError)       # ClientPlayback.done() at shutdown
            f = flows[st["n_get"]]
            st["n_get"] += 1
            st["taken"].append(f)
            q.unfinished = q.unfinished + 1     # it had been put on the queue by start_replay
            st["unfinished_expected"] = 0
            return f
        if kind == "replay":
            h = item[2]
            st["active"].append(h.flow)
            st["started"].append(h.flow)
            vc.ensure("replays_the_flow_just_taken", h.flow is st["taken"][-1])
            vc.ensure("inflight_is_the_replayed_flow", cp.inflight is h.flow)
            vc.ensure("one_replay_at_a_time", len(st["active"]) == 1)
            vc.ensure("previous_replays_all_finished", st["finished"] == st["started"][:-1])
            # while the replay runs, other tasks may call check()/start_replay()/stop_replay(); they do not touch inflight
            r = vc.case(f"replay_outcome#{len(st['started'])}", ["completes", "crashes"])   # one label per replay (native lookup is by label)
            st["active"].remove(h.flow)
            st["finished"].append(h.flow)
            if r == "crashes":
                return vc.throw(RuntimeError, "layer bug")
            return None
        vc.unreachable("unexpected_suspension." + kind)

    if inductive and vc.mode == "sym":
        def inv(it, env, idx):
            return And(isnone(cp.inflight), q.unfinished == 0)

        def havoc(it, env):
            # an arbitrary later iteration: some flows were replayed completely before
            st["active"] = []
            st["started"] = list(st["finished"])
            st["unfinished_expected"] = 0

        inv.havoc = havoc
        vc.invariant(CP + ".playback", 1, inv)
    out = vc.call(CP + ".playback", cp, on_yield=on_yield)
    vc.ensure("ends_only_by_cancellation", (not out.ok) and out.raised_type() is asyncio.CancelledError)
    vc.ensure("order.started_in_queue_order", len(st["started"]) == len(st["taken"]) and all(a is b for a, b in zip(st["started"], st["taken"])))
    vc.ensure("one_handler_per_taken_flow", len(made) == len(st["taken"]))


@scenario("playback.sequential", functions=[CP + ".playback"])
def s_playback(vc):
    """Inductive (loop invariant: inflight is None and nothing unfinished at the loop head)."""
    _playback_body(vc, True)


@scenario("playback.sequential.unrolled", functions=[CP + ".playback"], max_unroll=4)
def s_playback_unrolled(vc):
    """First iterations without the invariant (reachable schedules; failures replay on the real coroutine)."""
    _playback_body(vc, False)


# ---------------------------------------------------------------------------------------------
# ReplayHandler: replay() returns only after `done`; `done` is set only by a response/error hook, after the upstream
# connection handlers were cancelled and awaited

@scenario("replay_handler.completion_signalling", functions=[RH + ".handle_hook", RH + ".replay"])
def s_handle_hook(vc):
    import asyncio
    addons = _set_ctx(vc)
    vc.summary("props.C53:lifecycle_point", lambda v, a, hook: v.awaitable("lifecycle", hook))
    vc.summary("props.C53:event_wait_point", lambda v, ev: v.awaitable("done.wait", ev))
    vc.summary("mitmproxy.flow:Flow.wait_for_resume", lambda v, f: v.awaitable("wait_for_resume", f))
    vc.summary("asyncio.tasks:wait", lambda v, tasks, **k: v.awaitable("wait", tasks))
    which = vc.case("hook", ["request", "response", "error", "responseheaders", "server_connect"])
    n_tr = vc.case("upstream_handlers", [0, 1, 2])
    flow = mk_flow(vc, "f")
    ref = {"request": "mitmproxy.proxy.layers.http._hooks:HttpRequestHook", "response": "mitmproxy.proxy.layers.http._hooks:HttpResponseHook", "error": "mitmproxy.proxy.layers.http._hooks:HttpErrorHook",
           "responseheaders": "mitmproxy.proxy.layers.http._hooks:HttpResponseHeadersHook"}
    if which == "server_connect":
        hook = vc.new("mitmproxy.proxy.server_hooks:ServerConnectHook", data=vc.new("mitmproxy.proxy.server_hooks:ServerConnectionHookData", server=mk_server(vc), client=mk_client(vc)), blocking=True)
    else:
        hook = vc.new(ref[which], flow=flow, blocking=True)
    tasks = [vc.new("props.C53:TaskStub", cancel_requests=0) for _ in range(n_tr)]
    conns = [mk_server(vc, f"s{i}") for i in range(n_tr)]
    done = vc.new("props.C53:EventStub", flag=False)
    h = vc.new(RH, flow=flow, done=done, transports=vc.dict([(c, vc.new("mitmproxy.proxy.server:ConnectionIO", handler=t, reader=None, writer=None)) for c, t in zip(conns, tasks)]))
    log = []

    def on_yield(item):
        log.append(item[1])
        vc.ensure("done_not_set_while_the_hook_is_still_being_handled", vc.eq(done.flag, False))
        if vc.branch(vc.fresh_bool("cancelled")):
            log.append("cancelled")
            return vc.throw(asyncio.CancelledError)
        if item[1] == "wait":
            ts = item[2].items if vc.mode == "sym" else list(item[2])
            vc.ensure("waits_for_exactly_the_upstream_handlers", len(ts) == len(tasks) and all(a is b for a, b in zip(ts, tasks)))
            vc.ensure("all_cancelled_before_waiting", And(*[t.cancel_requests == 1 for t in tasks]))
        return None

    out = vc.call(RH + ".handle_hook", h, hook, on_yield=on_yield)
    final = which in ("response", "error")
    if "cancelled" in log:
        vc.ensure("cancelled.propagates", (not out.ok) and out.raised_type() is asyncio.CancelledError)
        vc.ensure("cancelled.done_not_set", vc.eq(done.flag, False))
    else:
        vc.ensure("no_exception", out.ok)
        vc.ensure("done_iff_response_or_error_hook", vc.eq(done.flag, final))
        vc.ensure("addons_first", log[:1] == ["lifecycle"])
        vc.ensure("flow_hooks_wait_for_resume", ("wait_for_resume" in log) == (which != "server_connect"))
        vc.ensure("upstream_closed_iff_final_and_any", ("wait" in log) == (final and n_tr > 0))
        if not final:
            vc.ensure("non_final.handlers_untouched", And(*[t.cancel_requests == 0 for t in tasks]) if tasks else True)


@scenario("replay_handler.replay_waits_for_done", functions=[RH + ".replay"])
def s_replay(vc):
    import asyncio
    vc.summary("props.C53:event_wait_point", lambda v, ev: v.awaitable("done.wait", ev))
    vc.summary("mitmproxy.proxy.server:ConnectionHandler.server_event", lambda v, self_, ev: v.awaitable("server_event", ev))
    done = vc.new("props.C53:EventStub", flag=False)
    h = vc.new(RH, done=done)
    log = []

    def on_yield(item):
        log.append(item[1] if item[1] != "server_event" else "server_event:" + (item[2].cls.__name__ if vc.mode == "sym" else type(item[2]).__name__))
        if item[1] == "done.wait":
            done.flag = True     # Event.wait returns only once the event is set
        return None

    out = vc.call(RH + ".replay", h, on_yield=on_yield)
    vc.ensure("no_exception", out.ok)
    vc.ensure("starts_the_layer_then_waits_for_done", log == ["server_event:Start", "done.wait"])


# ---------------------------------------------------------------------------------------------
# a replay ends only through a response/error hook of the HTTP layer, and the layer is paused on its OpenConnection command until the
# proxy core answers it: ConnectionHandler.open_connection (inherited by ReplayHandler) must tell the layer exactly once on every
# path that is not cancelled - in particular when an addon vetoes the connection in server_connect

@scenario("open_connection.layer_is_told_exactly_once", functions=["mitmproxy.proxy.server:ConnectionHandler.open_connection"])
def s_open_connection_completes(vc):
    from props import C09
    outcome = vc.case("outcome", ["vetoed_in_server_connect", "connected", "refused", "no_address"])
    proto = vc.case("proto", ["tcp", "udp"])
    h, cmd, server, client, sem, task = C09._open_setup(vc, address=None if outcome == "no_address" else C09.ADDR, proto=proto)
    env = C09.OpenEnv(vc, h, cmd, server, sem, "ok" if outcome in ("connected", "vetoed_in_server_connect", "no_address") else "connection refused",
                      hook_sets_error="killed by an addon" if outcome == "vetoed_in_server_connect" else None, allow_cancel=False)
    out = vc.call("mitmproxy.proxy.server:ConnectionHandler.open_connection", h, cmd, on_yield=env)
    vc.ensure("no_exception", out.ok)
    vc.ensure("layer_told_exactly_once", len(env.completed) == 1)
    if len(env.completed) == 1:
        vc.ensure("reply_is_an_error_iff_not_connected", isnone(env.completed[0]) == (outcome == "connected"))
        if outcome != "connected":
            vc.ensure("error_reply_is_a_nonempty_message", Not(isnone(env.completed[0])) and vc.truthy(env.completed[0]))
    if outcome == "vetoed_in_server_connect":
        vc.ensure("veto.no_connection_attempt", "connect" not in env.log)
        vc.ensure("veto.error_hook_then_completion", env.log == ["hook:ServerConnectHook", "hook:ServerConnectErrorHook", "server_event:OpenConnectionCompleted"])


# =============================================================================================
# T2: real ClientPlayback + ReplayHandler + HttpLayer on a real asyncio loop (no wall-clock), fake upstream

BEHAVIOURS = ["ok", "refuse", "eof", "reset", "garbage", "veto"]     # veto: an addon sets data.server.error in server_connect (e.g. Proxyserver's self-connect guard)
BAD_KINDS = ["live", "intercepted", "tcp", "no_content", "websocket", "dns"]


def _t2_flow(i, edited_before=False, empty_body=False):
    from mitmproxy.test import tflow
    f = tflow.tflow(live=False, resp=True)
    f.request.host, f.request.port = f"h{i}.test", 80
    f.request.path = f"/p{i}"
    f.request.content = b"" if empty_body else b"data%d" % i
    if edited_before:
        f.backup()                      # what the UI does before an edit
        f.request.path = f"/p{i}-edited"
    return f


def _t2_bad_flow(kind):
    from mitmproxy.test import tflow
    if kind == "tcp":
        return tflow.ttcpflow()
    if kind == "dns":
        return tflow.tdnsflow()
    if kind == "websocket":
        f = tflow.twebsocketflow()
        f.live = False
        return f
    f = tflow.tflow(live=kind == "live", resp=True)
    f.request.path = "/bad"
    if kind == "intercepted":
        f.intercept()
    if kind == "no_content":
        f.request.content = None
    return f


def _t2_snap(f):
    from mitmproxy import http
    if not isinstance(f, http.HTTPFlow):
        return (type(f).__name__, f.is_replay, f.error is None)
    return (f.request.get_state() if f.request else None, f.response.get_state() if f.response else None, f.error.get_state() if f.error else None, f.is_replay, f.websocket is None)


def _t2_replay_run(behaviours, bad=None, bad_pos=0, action=None, action_at=0, edited=(), empty=()):
    """behaviours[i]: what the fake upstream does for replayable flow i. bad: kind of an unreplayable flow inserted at bad_pos of the submission.
    action in {None, "stop", "submit_late", "resubmit_inflight"} performed while flow number action_at is in flight at the server."""
    import asyncio
    import logging
    from mitmproxy.addons import clientplayback
    from mitmproxy.addons.proxyserver import Proxyserver
    from mitmproxy.test import taddons
    n = len(behaviours)
    flows = [_t2_flow(i, edited_before=i in edited, empty_body=i in empty) for i in range(n)]
    late = n - 1 if action == "submit_late" and n > 1 else None     # the last flow is submitted while an earlier one is in flight
    obs = dict(arrivals=[], overlaps=[], finished=[], activity=0, pending=[], writers=[], handlers=[], hang=False, crash=None, qsize_after_submit=None, log=[])
    by_path = {f"/p{i}": i for i in range(n)}
    by_path.update({f"/p{i}-edited": i for i in range(n)})

    class Rec:
        def server_connect(self, data):
            host = data.server.address[0] if data.server.address else ""
            i = int(host[1:].split(".")[0]) if host.startswith("h") and host.endswith(".test") else None
            obs["activity"] += 1
            if i is not None and behaviours[i] == "veto":
                data.server.error = "Request destination unknown / vetoed by an addon."

        def response(self, f):
            obs["finished"].append(id(f))
            obs["activity"] += 1

        def error(self, f):
            obs["finished"].append(id(f))
            obs["activity"] += 1

    class W:
        def __init__(self, host):
            self.host, self.closed, self.buf, self.reader = host, False, b"", None
            obs["writers"].append(self)

        def close(self):
            self.closed = True
            obs["activity"] += 1

        def is_closing(self):
            return self.closed

        def write(self, d):
            obs["activity"] += 1
            first = not self.buf
            self.buf += d
            if first:
                path = d.split(b" ")[1].decode() if d.count(b" ") >= 2 else "?"
                idx = by_path.get(path, path)
                unfinished = [j for j in obs["arrivals"] if isinstance(j, int) and id(flows[j]) not in obs["finished"]]
                if unfinished:
                    obs["overlaps"].append((idx, unfinished))
                obs["arrivals"].append(idx)
                obs["pending"].append((idx, self.reader))

        def write_eof(self):
            pass

        async def drain(self):
            await asyncio.sleep(0)

        def get_extra_info(self, k, d=None):
            return {"peername": ("10.9.9.9", 80), "sockname": ("10.0.0.2", 50000)}.get(k, d)

    class R:
        def __init__(self):
            self.q = asyncio.Queue()

        async def read(self, n_):
            x = await self.q.get()
            obs["activity"] += 1
            if isinstance(x, BaseException):
                raise x
            return x

    async def fake_open(host, port, local_addr=None):
        obs["activity"] += 1
        await asyncio.sleep(0)
        i = int(host[1:].split(".")[0]) if host.startswith("h") and host.endswith(".test") else None
        if i is None:
            obs["arrivals"].append(f"connect:{host}")     # an unreplayable flow reached the network
        elif behaviours[i] == "refuse":
            raise ConnectionRefusedError("refused")
        r, w = R(), W(host)
        w.reader = r
        return r, w

    class Handler(clientplayback.ReplayHandler):
        def __init__(self, *a, **k):
            super().__init__(*a, **k)
            obs["handlers"].append(self)

    async def settle(limit=600):
        quiet, last = 0, -1
        for _ in range(limit):
            await asyncio.sleep(0)
            if obs["activity"] == last:
                quiet += 1
                if quiet >= 15:
                    return
            else:
                quiet, last = 0, obs["activity"]

    pre, post_stop = {}, {}
    bad_flow = _t2_bad_flow(bad) if bad else None

    async def main():
        cp = clientplayback.ClientPlayback()
        with taddons.context(cp, Proxyserver(), Rec()) as tctx:
            tctx.configure(cp, client_replay_concurrency=1)
            orig_open, orig_h = asyncio.open_connection, clientplayback.ReplayHandler
            asyncio.open_connection, clientplayback.ReplayHandler = fake_open, Handler
            try:
                cp.running()
                first = [f for i, f in enumerate(flows) if i != late]
                if bad_flow is not None:
                    first.insert(min(bad_pos, len(first)), bad_flow)
                for f in flows + ([bad_flow] if bad_flow is not None else []):
                    pre[id(f)] = _t2_snap(f)
                cp.start_replay(first)
                obs["qsize_after_submit"] = cp.queue.qsize()
                obs["count_after_submit"] = cp.count()
                served = 0
                acted = False
                for _round in range(3 * n + 6):
                    await settle()
                    if not obs["pending"]:
                        if cp.queue._unfinished_tasks == 0:
                            if action == "submit_late" and late is not None and not acted:
                                acted = True          # nothing ever reached the server (refused): submit once the queue is idle
                                cp.start_replay([flows[late]])
                                obs["activity"] += 1
                                continue
                            break
                        continue
                    idx, reader = obs["pending"].pop(0)
                    if action and not acted and served == action_at:
                        acted = True
                        if action == "stop":
                            still = [f for f in list(cp.queue._queue)]
                            cp.stop_replay()
                            obs["stopped"] = [flows.index(f) for f in still]
                            for f in still:
                                post_stop[id(f)] = _t2_snap(f)
                        elif action == "submit_late" and late is not None:
                            cp.start_replay([flows[late]])
                        elif action == "resubmit_inflight" and isinstance(idx, int):
                            before = cp.queue.qsize()
                            cp.start_replay([flows[idx]])      # `f == self.inflight` => must be refused
                            obs["resubmit_qsize_delta"] = cp.queue.qsize() - before
                        obs["activity"] += 1
                        await settle()
                    served += 1
                    beh = behaviours[idx] if isinstance(idx, int) else "ok"
                    if beh == "ok":
                        reader.q.put_nowait(b"HTTP/1.1 200 OK\r\nContent-Length: 2\r\n\r\nok")
                    elif beh == "eof":
                        reader.q.put_nowait(b"")
                    elif beh == "reset":
                        reader.q.put_nowait(ConnectionResetError("reset"))
                    elif beh == "garbage":
                        reader.q.put_nowait(b"\x00\x01 not http\r\n\r\n")
                    obs["activity"] += 1
                await settle()
                obs["hang"] = cp.queue._unfinished_tasks != 0 or cp.inflight is not None
                obs["unfinished"] = cp.queue._unfinished_tasks
                await cp.done()
                await settle(60)
                obs["pending_tasks"] = sorted(x.get_coro().__qualname__ for x in asyncio.all_tasks() if x is not asyncio.current_task() and not x.done())
            finally:
                asyncio.open_connection, clientplayback.ReplayHandler = orig_open, orig_h
                for x in asyncio.all_tasks():
                    if x is not asyncio.current_task():
                        x.cancel()
                await settle(40)

    logging.disable(logging.CRITICAL)
    try:
        asyncio.run(main())
    except BaseException as e:   # noqa
        obs["crash"] = f"{type(e).__name__}: {e}"
    finally:
        logging.disable(logging.NOTSET)
    obs.update(flows=flows, bad_flow=bad_flow, pre=pre, post_stop=post_stop, late=late)
    return obs


def _t2_replay_check(b, obs, inp, behaviours, action, edited=()):
    flows, n = obs["flows"], len(behaviours)
    if obs["crash"]:
        b.fail("replay.harness_completes", inp, obs["crash"])
        return
    if obs["hang"]:
        b.fail("replay.queue_drains", inp, f"unfinished={obs.get('unfinished')} arrivals={obs['arrivals']}")
    stopped = obs.get("stopped", [])
    replayed = [i for i in range(n) if i not in stopped]
    # sequential, in queue order: a request reaches the server only after every earlier replay has finished
    if obs["overlaps"]:
        b.fail("replay.no_overlap_at_the_server", inp, f"request {obs['overlaps'][0][0]} arrived while {obs['overlaps'][0][1]} unfinished")
    arrived = [a for a in obs["arrivals"] if isinstance(a, int)]
    expect_order = [i for i in replayed if behaviours[i] not in ("refuse", "veto")]
    if arrived != expect_order:
        b.fail("replay.arrival_order_is_queue_order", inp, f"arrived {obs['arrivals']} expected {expect_order}")
    if [a for a in obs["arrivals"] if not isinstance(a, int)]:
        b.fail("replay.unreplayable_never_reaches_the_network", inp, str(obs["arrivals"]))
    for i in replayed:
        f = flows[i]
        if f.response is None and f.error is None:
            b.fail("replay.every_replayed_flow_ends_with_response_or_error", inp, f"flow {i} ({behaviours[i]}): no response, no error")
        if id(f) not in obs["finished"]:
            b.fail("replay.response_or_error_hook_fired", inp, f"flow {i} ({behaviours[i]})")
        if behaviours[i] == "ok" and (f.response is None or f.response.status_code != 200 or f.response.content != b"ok"):
            b.fail("replay.ok_exchange_records_the_new_response", inp, f"flow {i}: {f.response!r} {f.error!r}")
        if behaviours[i] != "ok" and f.error is None:
            b.fail("replay.failed_exchange_records_an_error", inp, f"flow {i} ({behaviours[i]}): {f.response!r}")
        if f.is_replay != "request":
            b.fail("replay.marked_as_replay", inp, f"flow {i}: is_replay={f.is_replay!r}")
    for i in stopped:
        f = flows[i]
        if obs["post_stop"].get(id(f)) != obs["pre"][id(f)]:
            b.fail("stop.restores_pre_replay_state" + ("[KF-C53-1]" if i in edited else ""), inp, f"flow {i}: path before {obs['pre'][id(f)][0]['path'] if obs['pre'][id(f)][0] else None} after {obs['post_stop'][id(f)][0]['path'] if obs['post_stop'][id(f)][0] else None}")
        if i in arrived:
            b.fail("stop.still_queued_flows_are_not_replayed", inp, f"flow {i} arrived after stop")
    if obs["bad_flow"] is not None:
        bf = obs["bad_flow"]
        if _t2_snap(bf) != obs["pre"][id(bf)]:
            b.fail("unreplayable.left_untouched", inp, f"{obs['pre'][id(bf)]} -> {_t2_snap(bf)}")
    n_first = n - (1 if obs["late"] is not None else 0)
    if obs["qsize_after_submit"] != n_first:
        b.fail("submit.queues_exactly_the_replayable", inp, f"qsize {obs['qsize_after_submit']} expected {n_first}")
    if action == "resubmit_inflight" and obs.get("resubmit_qsize_delta"):
        b.fail("submit.inflight_flow_is_not_queued_again", inp, f"queue grew by {obs['resubmit_qsize_delta']}")
    if [w for w in obs["writers"] if not w.closed]:
        b.fail("replay.no_upstream_socket_left_open", inp, f"{len([w for w in obs['writers'] if not w.closed])} unclosed")
    if obs.get("pending_tasks"):
        b.fail("replay.no_task_left_running", inp, str(obs["pending_tasks"]))


def bounded(tier, seed):
    import itertools
    import random
    b = Bounded()
    b.rule = ("real ClientPlayback (running/playback/start_replay/stop_replay/check) + real ReplayHandler + real HttpLayer under a real asyncio loop, asyncio.open_connection replaced by a "
              "scripted upstream; queues of 1..3 replayable flows x upstream behaviour per flow {200 response, connect refused, EOF before response, reset, non-HTTP reply, connection vetoed by an addon in server_connect} x an unreplayable flow "
              "{live, intercepted, TCP, DNS, missing content, WebSocket} inserted at any position x an action while flow k is at the server {none, replay.client.stop, late submission of the last flow, "
              "re-submission of the in-flight flow} x a flow that was edited (has a backup) before submission; checked: arrival order = queue order, no request arrives before all earlier replays fired their "
              "response/error hook, every replayed flow ends with response or error, unreplayable flows never reach the network and stay untouched, stopped flows equal their pre-replay snapshot and are not replayed, "
              "no socket/task left. distinct = (behaviours, bad flow, action); non-trivial = >= 2 flows or an action")
    b.bound = "queues <= 3: every combination with <= 2 flows and at most one of {unreplayable flow, action}; a seeded sample (quick 250, thorough 10000 of ~30000) of the rest"
    b.exhaustive = False
    rnd = random.Random(seed)
    cases = []
    for n in (1, 2, 3):
        for beh in itertools.product(BEHAVIOURS, repeat=n):
            acts = [(None, 0)] + [(a, k) for a in ("stop", "submit_late", "resubmit_inflight") for k in range(n)]
            for act, k in acts:
                if act == "submit_late" and (n == 1 or k >= n - 1):
                    continue
                bads = [(None, 0)] + [(bk, p) for bk in BAD_KINDS for p in range(n + 1)]
                for bad, p in bads:
                    cases.append((beh, bad, p, act, k, ()))
    full = [c for c in cases if len(c[0]) <= 2 and (c[1] is None or c[3] is None)]
    fullset = set(full)
    rest = [c for c in cases if c not in fullset]
    rnd.shuffle(rest)
    chosen = full + rest[:10000 if tier == "thorough" else 250]
    # flows that were edited before being submitted (they carry a backup): stop must still restore the pre-replay state
    chosen += [(("ok", "ok"), None, 0, "stop", 0, (1,)), (("ok", "ok", "ok"), None, 0, "stop", 0, (1, 2)), (("ok", "ok"), None, 0, "stop", 0, ())]
    for beh, bad, p, act, k, edited in chosen:
        empty = (len(beh) - 1,) if (len(beh) + (k if act else 0)) % 3 == 0 else ()     # some flows have an empty (but present) body: replayable
        inp = {"upstream": list(beh), "unreplayable": bad, "unreplayable_at": p, "action": act, "while_flow_at_server": k, "edited_before": list(edited), "empty_body": list(empty)}
        obs = _t2_replay_run(beh, bad, p, act, k, edited, empty)
        b.case((beh, bad, p, act, k, edited), nontrivial=len(beh) > 1 or act is not None)
        _t2_replay_check(b, obs, inp, beh, act, edited)
    return b
