"""Stand-in for OpenSSL.SSL.Connection used by the T1 scenarios of C13-C15 (interpreted like repository code in proof
mode, a plain Python object natively).

Trusted pyOpenSSL contract it encodes: the connection is a pair of in-order byte pipes.
  * bio_write(data) hands ciphertext to OpenSSL (recorded in `inbox`, in call order);
  * recv(n) returns the next chunk of decrypted plaintext, or raises WantReadError (nothing more for now), ZeroReturnError
    (close_notify received) or SSL.Error; the sequence of outcomes is the script `plain` (bytes | control code);
  * sendall(data) takes plaintext (recorded in `sent`) and makes ciphertext available: `outbox` gets the ghost chunk
    ("enc", data) -- TLS record protection itself is OpenSSL's business (bounded check T2);
  * bio_read(n) returns the next pending ciphertext chunk of `outbox` or raises WantReadError when nothing is pending;
  * do_handshake() follows the script `handshake` ("want" | "ok" | an SSL.Error instance).
"""
from OpenSSL import SSL

WANT, ZERO, ERROR = 0, 1, 2


class ScriptedSSL:
    def __init__(self, plain=(), outbox=(), handshake=(), shutdown=0):
        self.inbox = []
        self.plain = list(plain)
        self.outbox = list(outbox)
        self.sent = []
        self.handshake = list(handshake)
        self.shutdown = shutdown
        self.app_data = None
        self.alpn = None

    def __bool__(self):
        return True

    def bio_write(self, data):
        self.inbox.append(data)
        return len(data)

    def recv(self, n):
        if len(self.plain) == 0:
            raise SSL.WantReadError()
        x = self.plain.pop(0)
        if isinstance(x, int):
            if x == ZERO:
                self.shutdown = SSL.RECEIVED_SHUTDOWN
                raise SSL.ZeroReturnError()
            if x == ERROR:
                raise SSL.Error([("SSL routines", "", "sslv3 alert certificate unknown")])
            raise SSL.WantReadError()
        return x

    def bio_read(self, n):
        if len(self.outbox) == 0:
            raise SSL.WantReadError()
        return self.outbox.pop(0)

    def sendall(self, data):
        self.sent.append(data)
        self.outbox.append(data)
        return len(data)

    def do_handshake(self):
        if len(self.handshake) == 0:
            raise SSL.WantReadError()
        x = self.handshake.pop(0)
        if isinstance(x, str):
            if x == "ok":
                return None
            raise SSL.WantReadError()
        raise x

    def get_shutdown(self):
        return self.shutdown

    def get_peer_cert_chain(self):
        return []

    def get_peer_certificate(self):
        return None

    def get_alpn_proto_negotiated(self):
        return self.alpn if self.alpn is not None else b""

    def get_cipher_name(self):
        return "TLS_AES_256_GCM_SHA384"

    def get_protocol_version_name(self):
        return "TLSv1.3"


def mk_ssl(vc, plain=(), outbox=(), handshake=(), shutdown=0):
    return vc.new("props.tlsstub:ScriptedSSL", inbox=vc.list([]), plain=vc.list(list(plain)), outbox=vc.list(list(outbox)), sent=vc.list([]),
                  handshake=vc.list(list(handshake)), shutdown=shutdown, app_data=None, alpn=None)
