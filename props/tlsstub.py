"""Stand-in for OpenSSL.SSL.Connection used by the T1 scenarios of C13-C15 (interpreted like repository code in proof
mode, a plain Python object natively).

Trusted pyOpenSSL contract it encodes: the connection is a pair of in-order byte pipes.
  * bio_write(data) hands ciphertext to OpenSSL (recorded in `inbox`, in call order);
  * recv(n) returns the next chunk of decrypted plaintext, or raises WantReadError (nothing more for now), ZeroReturnError
    (close_notify received) or SSL.Error; the sequence of outcomes is the script `plain` (bytes | control code);
  * sendall(data) takes plaintext (recorded in `sent`) and makes ciphertext available: `outbox` gets the ghost chunk
    ("enc", data) -- TLS record protection itself is OpenSSL's business (bounded check T2);
  * bio_read(n) returns the next pending ciphertext chunk of `outbox` or raises WantReadError when nothing is pending;
  * do_handshake() follows the script `handshake` ("want" | "ok" | an SSL.Error instance).
"""
from OpenSSL import SSL

WANT, ZERO, ERROR = 0, 1, 2


class ScriptedSSL:
    def __init__(self, plain=(), outbox=(), handshake=(), shutdown=0):
        self.inbox = []
        self.plain = list(plain)
        self.outbox = list(outbox)
        self.sent = []
        self.handshake = list(handshake)
        self.shutdown = shutdown
        self.app_data = None
        self.alpn = None
        self.send_fail = None

    def __bool__(self):
        return True

    def bio_write(self, data):
        self.inbox.append(data)
        return len(data)

    def recv(self, n):
        if len(self.plain) == 0:
            raise SSL.WantReadError()
        x = self.plain.pop(0)
        if isinstance(x, int):
            if x == ZERO:
                self.shutdown = SSL.RECEIVED_SHUTDOWN
                raise SSL.ZeroReturnError()
            if x == ERROR:
                raise SSL.Error([("SSL routines", "", "sslv3 alert certificate unknown")])
            raise SSL.WantReadError()
        return x

    def bio_read(self, n):
        if len(self.outbox) == 0:
            raise SSL.WantReadError()
        return self.outbox.pop(0)

    def sendall(self, data):
        if self.send_fail is not None:
            raise self.send_fail(-1, "Unexpected EOF")
        self.sent.append(data)
        self.outbox.append(data)
        return len(data)

    def do_handshake(self):
        if len(self.handshake) == 0:
            raise SSL.WantReadError()
        x = self.handshake.pop(0)
        if isinstance(x, str):
            if x == "ok":
                return None
            raise SSL.WantReadError()
        raise x

    def get_shutdown(self):
        return self.shutdown

    def get_peer_cert_chain(self):
        return []

    def get_peer_certificate(self):
        return None

    def get_alpn_proto_negotiated(self):
        return self.alpn if self.alpn is not None else b""

    def get_cipher_name(self):
        return "TLS_AES_256_GCM_SHA384"

    def get_protocol_version_name(self):
        return "TLSv1.3"


def mk_ssl(vc, plain=(), outbox=(), handshake=(), shutdown=0, send_fail=None):
    return vc.new("props.tlsstub:ScriptedSSL", inbox=vc.list([]), plain=vc.list(list(plain)), outbox=vc.list(list(outbox)), sent=vc.list([]),
                  handshake=vc.list(list(handshake)), shutdown=shutdown, app_data=None, alpn=None, send_fail=send_fail)


# ---------------------------------------------------------------------------------------------
# cryptography stand-ins for C16/C17 (what mitmproxy.certs reads from / writes to cryptography objects)


class StubAttr:
    def __init__(self, value):
        self.value = value


class StubName:
    """x509.Name stand-in: attributes by OID"""

    def __init__(self, attrs):
        self.attrs = attrs  # list of (oid, value)

    def get_attributes_for_oid(self, oid):
        return [StubAttr(v) for o, v in self.attrs if o == oid]


class StubExt:
    def __init__(self, value):
        self.value = value


class StubExtensions:
    def __init__(self, by_class):
        self.by_class = by_class  # list of (extension class, value)

    def get_extension_for_class(self, cls):
        from cryptography import x509

        for c, v in self.by_class:
            if c is cls:
                return StubExt(v)
        raise x509.ExtensionNotFound("no such extension", None)


class StubPublicKey:
    def __init__(self, ident):
        self.ident = ident


class StubX509:
    """x509.Certificate stand-in"""

    def __init__(self, subject, extensions, pubkey):
        self.subject = subject
        self.extensions = extensions
        self.pubkey = pubkey

    def public_key(self):
        return self.pubkey


class StubDistPoint:
    def __init__(self, full_name):
        self.full_name = full_name


class RecordingBuilder:
    """x509.CertificateBuilder stand-in: records every call (effect trace); sign() returns a ghost certificate"""

    def __init__(self):
        self.calls = []
        self.extensions = []

    def issuer_name(self, name):
        self.calls.append(("issuer_name", name))
        return self

    def subject_name(self, name):
        self.calls.append(("subject_name", name))
        return self

    def public_key(self, key):
        self.calls.append(("public_key", key))
        return self

    def serial_number(self, n):
        self.calls.append(("serial_number", n))
        return self

    def not_valid_before(self, t):
        self.calls.append(("not_valid_before", t))
        return self

    def not_valid_after(self, t):
        self.calls.append(("not_valid_after", t))
        return self

    def add_extension(self, ext, critical):
        self.calls.append(("add_extension", ext, critical))
        self.extensions.append((ext, critical))
        return self

    def sign(self, private_key, algorithm):
        self.calls.append(("sign", private_key, algorithm))
        return SignedGhost(self)


class SignedGhost:
    def __init__(self, builder):
        self.builder = builder


class SymTime:
    """datetime stand-in in proof mode: days since an arbitrary epoch"""

    def __init__(self, days):
        self.days = days

    def __add__(self, delta):
        return SymTime(self.days + delta.days)


def mk_stub_x509(vc, attrs=(), exts=(), pubkey=None):
    me = "props.tlsstub"
    return vc.new(f"{me}:StubX509", subject=vc.new(f"{me}:StubName", attrs=vc.list([(o, v) for o, v in attrs])),
                  extensions=vc.new(f"{me}:StubExtensions", by_class=vc.list([(c, v) for c, v in exts])),
                  pubkey=pubkey if pubkey is not None else vc.new(f"{me}:StubPublicKey", ident="pk"))


# ---------------------------------------------------------------------------------------------
# stand-in for the `OpenSSL.SSL` module as used by TlsConfig.tls_start_server (C15): every FFI call lands in one trace


class FakeLib:
    def __init__(self, trace, rc):
        self.trace = trace
        self.rc = rc

    def SSL_get0_param(self, ssl):
        self.trace.append(("SSL_get0_param", ssl))
        return ("param-of", ssl)

    def X509_VERIFY_PARAM_set_hostflags(self, param, flags):
        self.trace.append(("set_hostflags", param, flags))

    def X509_VERIFY_PARAM_set1_host(self, param, name, n):
        self.trace.append(("set1_host", param, name, n))
        return self.rc

    def X509_VERIFY_PARAM_set1_ip(self, param, ip, n):
        self.trace.append(("set1_ip", param, ip, n))
        return self.rc


class FakeConn:
    def __init__(self, trace, ctx):
        self.trace = trace
        self.ctx = ctx
        self._ssl = ("ssl-of", ctx)

    def __bool__(self):
        return True

    def set_tlsext_host_name(self, name):
        self.trace.append(("set_tlsext_host_name", name))

    def set_alpn_protos(self, protos):
        self.trace.append(("set_alpn_protos", protos))

    def set_connect_state(self):
        self.trace.append(("set_connect_state",))


class FakeSSLModule:
    def __init__(self, trace, rc):
        self.trace = trace
        self._lib = FakeLib(trace, rc)

    def Connection(self, ctx):
        self.trace.append(("Connection", ctx))
        return FakeConn(self.trace, ctx)

    def _openssl_assert(self, ok):
        if not ok:
            raise SSL.Error([("x509", "", "openssl assertion failed")])


def mk_fake_ssl_module(vc, rc):
    me = "props.tlsstub"
    trace = vc.list([])
    mod = vc.new(f"{me}:FakeSSLModule", trace=trace, _lib=vc.new(f"{me}:FakeLib", trace=trace, rc=rc))
    return mod, trace


def patch_global(vc, modname, name, value):
    """make the module-level name `modname.name` evaluate to `value` for the code under contract (both modes; restored
    after a native run, per path in proof mode)"""
    if vc.mode == "sym":
        vc.ex.module_globals[(modname, name)] = vc.lift(value)
    else:
        import importlib

        m = importlib.import_module(modname)
        vc._patches.append((m, name, getattr(m, name), True))
        setattr(m, name, value)


class FakeContext:
    """OpenSSL.SSL.Context stand-in for net.tls._create_ssl_context / create_proxy_server_context"""

    def __init__(self, trace, method):
        self.trace = trace
        self.method = method
        self._context = ("ctx-ptr", method)
        self.fail_load = False

    def set_options(self, o):
        self.trace.append(("set_options", o))

    def set_cipher_list(self, c):
        self.trace.append(("set_cipher_list", c))

    def set_tmp_ecdh(self, c):
        self.trace.append(("set_tmp_ecdh", c))

    def set_keylog_callback(self, c):
        self.trace.append(("set_keylog_callback", c))

    def set_verify(self, mode, cb):
        self.trace.append(("set_verify", mode, cb))

    def load_verify_locations(self, cafile, capath):
        self.trace.append(("load_verify_locations", cafile, capath))
        if self.fail_load:
            raise SSL.Error([("x509", "", "no such file")])

    def use_privatekey_file(self, f):
        self.trace.append(("use_privatekey_file", f))

    def use_certificate_chain_file(self, f):
        self.trace.append(("use_certificate_chain_file", f))


class FakeCtxLib:
    def __init__(self, trace):
        self.trace = trace

    def SSL_CTX_set_min_proto_version(self, ctx, v):
        self.trace.append(("min_proto", ctx, v))
        return 1

    def SSL_CTX_set_max_proto_version(self, ctx, v):
        self.trace.append(("max_proto", ctx, v))
        return 1

    def SSL_CTX_set_post_handshake_auth(self, ctx, v):
        self.trace.append(("post_handshake_auth", ctx, v))


class FakeSSLModuleCtx:
    Error = SSL.Error
    VERIFY_NONE = SSL.VERIFY_NONE
    VERIFY_PEER = SSL.VERIFY_PEER

    def __init__(self, trace, fail_load):
        self.trace = trace
        self._lib = FakeCtxLib(trace)
        self.fail_load = fail_load

    def Context(self, method):
        c = FakeContext(self.trace, method)
        c.fail_load = self.fail_load
        self.trace.append(("Context", method))
        return c


class StreamSSL:
    """ScriptedSSL variant for inductive contracts: `plain` is a (symbolic-length) list of plaintext chunks that recv() returns
    in order; when it is exhausted recv() ends with `end` (WANT / ZERO / ERROR)."""

    def __init__(self, plain, end, outbox=()):
        self.inbox = []
        self.plain = plain
        self.end = end
        self.outbox = list(outbox)
        self.sent = []
        self.shutdown = 0

    def __bool__(self):
        return True

    def bio_write(self, data):
        self.inbox.append(data)
        return len(data)

    def recv(self, n):
        if len(self.plain) == 0:
            if self.end == ZERO:
                self.shutdown = SSL.RECEIVED_SHUTDOWN
                raise SSL.ZeroReturnError()
            if self.end == ERROR:
                raise SSL.Error([("SSL routines", "", "sslv3 alert certificate unknown")])
            raise SSL.WantReadError()
        return self.plain.pop(0)

    def bio_read(self, n):
        if len(self.outbox) == 0:
            raise SSL.WantReadError()
        return self.outbox.pop(0)

    def sendall(self, data):
        self.sent.append(data)
        self.outbox.append(data)
        return len(data)

    def get_shutdown(self):
        return self.shutdown
