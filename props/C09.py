"""C09 — Connection lifecycle events pair up and per-destination concurrency is bounded.

Suspension-point model (DESIGN.md §5.3, worked example props/C10.py). Every `await` of the coroutines under contract is
handed to the contract's `on_yield`, which plays the environment: it produces the await's result (hook finished, connect
succeeded / OSError, bytes read / EOF, ...) or raises asyncio.CancelledError there. Rely condition: the tasks running
`open_connection` / `handle_connection` may be cancelled at ANY await (the code itself does so in close_connection,
drain_writers, on_timeout and at the end of handle_client, ReplayHandler.handle_hook); the client handler task
(handle_client) is only cancelled by event-loop shutdown, which is outside the statement's quantifier.

"A hook fires" = `handle_hook(hook)` is called with it (the coroutine reaches that await).
"""
from pyvc.api import *
from props.prelude import *

CLAIM = "other"
EXPLANATION = ("T1 proves, for all schedules and cancellation points of the single coroutines open_connection / handle_connection / "
               "handle_client / close_connection / on_timeout, the per-coroutine pairing clauses and 'OPEN only while the per-address semaphore is held' "
               "(two recorded known findings KF-C09-1/2 excepted: cancellation before the try/finally loses the outcome / disconnect hook). "
               "The global clauses (no resources remain after client_disconnected, <= 5 concurrently open per address across tasks) need a multi-task argument and are "
               "checked bounded on the real asyncio ConnectionHandler with fake streams and fault injection at every await position (T2).")
CH = "mitmproxy.proxy.server:ConnectionHandler"
ASSUMPTIONS = [
    "rely: other tasks touch this coroutine's connection only by cancelling its task (any await) and, inside hooks, by setting connection.error / client.error",
    "asyncio.Semaphore(5) is trusted: `async with sem` holds one of five permits between a completed __aenter__ and __aexit__; acquiring may suspend and be cancelled (then no permit is held); release does not suspend",
    "asyncio.open_connection / mitmproxy_rs.udp.open_udp_connection are suspension points that return a (reader, writer) pair, raise OSError, or are cancelled",
    "Connection.transport_protocol is 'tcp' or 'udp' (its declared Literal type)",
    "the client handler task (handle_client) itself is not cancelled (only event-loop shutdown does that) and handle_hook does not raise (addon errors are caught by the addon manager)",
    "logging (ConnectionHandler.log), human.format_address, time.time are opaque",
    "asyncio.wait(tasks) returns only when every task in the list is done; Task.cancel() requests cancellation (delivered at the task's current/next await)",
]


# ---------------------------------------------------------------------------------------------
# stubs (interpreted like repository code; the same classes are used natively)

def hook_point(h, hook):  # summarised: suspension point "the addons handle this hook"
    raise NotImplementedError


def sem_acquire_point(sem):  # summarised: suspension point inside Semaphore.acquire
    raise NotImplementedError


from mitmproxy.proxy import server as _server


class HandlerStub(_server.ConnectionHandler):
    """Concrete ConnectionHandler: handle_hook is abstract in the class under contract."""

    async def handle_hook(self, hook):
        return await hook_point(self, hook)


class SemStub:
    """asyncio.Semaphore / asyncio.Lock stand-in: `held` counts permits held through this object."""

    async def __aenter__(self):
        await sem_acquire_point(self)
        self.held = self.held + 1
        return None

    async def __aexit__(self, et, e, tb):
        self.held = self.held - 1


class StreamStub:
    """StreamReader/StreamWriter/mitmproxy_rs.Stream stand-in."""

    def get_extra_info(self, name, default=None):
        if name == "peername":
            return self.peername
        if name == "sockname":
            return self.sockname
        return default

    def close(self):
        self.closed = self.closed + 1
        if self.close_fails:
            raise OSError("close failed")

    def is_closing(self):
        return self.closed > 0

    def read(self, n):
        return read_point(self, n)

    def write_eof(self):
        self.eof = self.eof + 1
        if self.eof_fails:
            raise OSError("write_eof failed")


def read_point(stream, n):  # summarised: suspension point
    raise NotImplementedError


class TaskStub:
    """asyncio.Task stand-in."""

    def cancel(self, msg=None):
        self.cancel_requests = self.cancel_requests + 1
        return True

    def cancelled(self):
        return self.was_cancelled

    def exception(self):
        return self.exc


def _cancelled():
    import asyncio
    return asyncio.CancelledError


def _stream(vc, **kw):
    f = dict(peername=("93.184.216.34", 443), sockname=("10.0.0.2", 50000), closed=0, close_fails=False, eof=0, eof_fails=False)
    f.update(kw)
    return vc.new("props.C09:StreamStub", **f)


def _common_summaries(vc):
    vc.summary(CH + ".log", lambda v, self_, *a, **k: v.lift(None))
    vc.summary("mitmproxy.utils.human:format_address", lambda v, a: v.lift("addr"))
    vc.summary("time:time", lambda v: v.lift(100.0))
    vc.summary("props.C09:hook_point", lambda v, h, hook: v.awaitable("hook", hook))
    vc.summary("props.C09:sem_acquire_point", lambda v, sem: v.awaitable("sem_acquire", sem))
    vc.summary("props.C09:read_point", lambda v, s, n: v.awaitable("read", s))
    vc.summary(CH + ".server_event", lambda v, self_, ev: v.awaitable("server_event", ev))


def hook_name(vc, hook):
    return hook.cls.__name__ if vc.mode == "sym" else type(hook).__name__


# ---------------------------------------------------------------------------------------------
# open_connection

ADDR = ("example.com", 443)


def _open_setup(vc, address=ADDR, proto="tcp"):
    _common_summaries(vc)
    client = mk_client(vc)
    server = mk_server(vc, address=address, transport_protocol=proto)
    sem = vc.new("props.C09:SemStub", held=0)
    task = vc.new("props.C09:TaskStub", cancel_requests=0, was_cancelled=False, exc=None)
    h = vc.new("props.C09:HandlerStub", client=client, transports=vc.dict([(server, vc.new("mitmproxy.proxy.server:ConnectionIO", handler=task, reader=None, writer=None))]),
               max_conns=vc.dict([(address, sem)] if address else []))
    cmd = vc.new("mitmproxy.proxy.commands:OpenConnection", connection=server, blocking=True)
    vc.summary("_asyncio:current_task", lambda v: task)
    vc.summary("asyncio.streams:open_connection", lambda v, *a, **k: v.awaitable("connect", "tcp"))
    vc.summary("mitmproxy_rs.udp:open_udp_connection", lambda v, *a, **k: v.awaitable("connect", "udp"))
    vc.summary(CH + ".handle_connection", lambda v, self_, conn: v.awaitable("handle_connection", conn))
    return h, cmd, server, client, sem, task


class OpenEnv:
    """The environment of one open_connection run: records what happened at each suspension point and checks the
    point-wise obligations there."""

    def __init__(self, vc, h, cmd, server, sem, connect_result, hook_sets_error=None, allow_cancel=True):
        from mitmproxy.connection import ConnectionState
        self.S = ConnectionState
        self.vc, self.h, self.cmd, self.server, self.sem = vc, h, cmd, server, sem
        self.connect_result = connect_result
        self.hook_sets_error = hook_sets_error
        self.allow_cancel = allow_cancel
        self.log = []            # names of suspension points, in order
        self.hooks = []          # hook class names in firing order
        self.completed = []      # reply of each OpenConnectionCompleted event
        self.cancelled_at = []   # suspension point names at which CancelledError was delivered
        self.stream = None

    def point_obligations(self, where):
        """At every suspension point other tasks can observe the connection: OPEN (or half-open) only under the semaphore."""
        vc = self.vc
        st = self.server.state
        vc.ensure("open_only_while_semaphore_held", Implies(Not(vc.eq(st, self.S.CLOSED)), self.sem.held == 1))
        io = self._io()
        vc.ensure("socket_registered_only_while_semaphore_held", Implies(self.sem.held == 0, io is None or isnone(io.writer) or io.writer.closed > 0))

    def _io(self):
        tr = self.h.transports
        if self.vc.mode == "sym":
            for k, v in tr.items:
                if k is self.server:
                    return v
            return None
        return tr.get(self.server)

    def __call__(self, item):
        vc = self.vc
        assert item[0] == "await"
        kind = item[1]
        name = kind
        if kind == "hook":
            name = "hook:" + hook_name(vc, item[2])
            self.hooks.append(hook_name(vc, item[2]))
        elif kind == "server_event":
            ev = item[2]
            name = "server_event:" + hook_name(vc, ev)
            if hook_name(vc, ev) == "OpenConnectionCompleted":
                vc.ensure("completion.for_this_command", ev.command is self.cmd)
                self.completed.append(ev.reply)
        self.log.append(name)
        self.point_obligations(name)
        if self.allow_cancel and kind != "server_event" and vc.branch(vc.fresh_bool("cancelled")):
            self.cancelled_at.append(name)
            if kind == "handle_connection":
                self.handle_connection_effect(cancelled=True)
            return vc.throw(_cancelled())
        if kind == "hook" and name == "hook:ServerConnectHook" and self.hook_sets_error is not None:
            self.server.error = self.hook_sets_error
        if kind == "connect":
            if self.connect_result == "ok":
                self.stream = _stream(vc)
                return (self.stream, self.stream) if item[2] == "tcp" else self.stream
            return vc.throw(OSError, self.connect_result)
        if kind == "handle_connection":
            self.handle_connection_effect()
        return None

    def handle_connection_effect(self, cancelled=False):
        """Postcondition of handle_connection (proved separately below): writer closed, transports entry removed, state no longer
        readable (CLOSED; or still CAN_WRITE when it was cancelled while waiting half-closed)."""
        vc = self.vc
        half = cancelled and vc.case("handle_connection_cancelled_while_half_closed", [False, True])
        self.stream.closed = self.stream.closed + 1
        if vc.mode == "sym":
            self.h.transports.items[:] = [(k, v) for k, v in self.h.transports.items if k is not self.server]
        else:
            self.h.transports.pop(self.server, None)
        self.server.state = self.S.CAN_WRITE if half else self.S.CLOSED


def _pairing_obligations(vc, env, out):
    hooks = env.hooks
    n_connect = hooks.count("ServerConnectHook")
    n_ok = hooks.count("ServerConnectedHook")
    n_err = hooks.count("ServerConnectErrorHook")
    n_disc = hooks.count("ServerDisconnectedHook")
    vc.ensure("server_connect.at_most_once", n_connect <= 1)
    vc.ensure("outcome_hooks.only_after_server_connect", (n_ok + n_err + n_disc == 0) or (n_connect == 1 and hooks[0] == "ServerConnectHook"))
    vc.ensure("outcome_hooks.not_both", n_ok + n_err <= 1)
    early = [p for p in env.cancelled_at if p in ("hook:ServerConnectHook", "sem_acquire")]
    vc.ensure_kf("server_connect.then_exactly_one_outcome", n_connect == 0 or n_ok + n_err == 1, "KF-C09-1", len(early) > 0)
    late = [p for p in env.cancelled_at if p == "hook:ServerConnectedHook"]
    vc.ensure_kf("server_connected.then_exactly_one_disconnected", n_disc == n_ok and (n_ok == 0 or hooks.index("ServerConnectedHook") < hooks.index("ServerDisconnectedHook")), "KF-C09-2", len(late) > 0)
    vc.ensure("server_disconnected.is_last_hook", n_disc == 0 or hooks[-1] == "ServerDisconnectedHook")
    vc.ensure_kf("exit.no_socket_left_registered", env._io() is None or isnone(env._io().writer) or env._io().writer.closed > 0, "KF-C09-2", len(late) > 0)
    vc.ensure("exit.semaphore_released", env.sem.held == 0)
    vc.ensure_kf("exit.not_open", Not(flag_has(env.server.state, env.S.CAN_READ)), "KF-C09-2", len(late) > 0)
    vc.ensure("cancellation_propagates_or_completes", out.ok or out.raised_type() is _cancelled())
    vc.ensure("normal_return_only_if_not_cancelled_in_connection", out.ok or len(env.cancelled_at) > 0)


@scenario("open_connection.pairing", functions=[CH + ".open_connection"])
def s_open(vc):
    """All paths of open_connection x cancellation at every await: hook pairing, OPEN only under the semaphore, completion event."""
    proto = vc.case("proto", ["tcp", "udp"])
    connect = vc.case("connect", ["ok", "refused", ""])
    killed = vc.case("server_connect_hook_sets_error", [None, "killed by addon"])
    h, cmd, server, client, sem, task = _open_setup(vc, proto=proto)
    env = OpenEnv(vc, h, cmd, server, sem, connect, hook_sets_error=killed)
    out = vc.call(CH + ".open_connection", h, cmd, on_yield=env)
    _pairing_obligations(vc, env, out)
    # the layer is told the outcome exactly once unless the task is cancelled before it could
    vc.ensure("completion.at_most_once", len(env.completed) <= 1)
    if not env.cancelled_at:
        vc.ensure("completion.exactly_once_when_not_cancelled", len(env.completed) == 1)
        ok = connect == "ok" and killed is None
        vc.ensure("completion.reply_none_iff_connected", isnone(env.completed[0]) == ok if env.completed else False)
        vc.ensure("connected_iff_success", ("ServerConnectedHook" in env.hooks) == ok)
        if killed is not None:
            vc.ensure("killed.no_connect_attempt", "connect" not in env.log and "sem_acquire" not in env.log)
        if connect != "ok" and killed is None:
            vc.ensure("failure.error_recorded", not isnone(server.error) and vc.truthy(server.error))
    if "hook:ServerConnectedHook" in env.log:
        i = env.log.index("hook:ServerConnectedHook")
        vc.ensure("connected.after_successful_connect", "connect" in env.log[:i] and connect == "ok")


@scenario("open_connection.no_address", functions=[CH + ".open_connection"])
def s_open_noaddr(vc):
    h, cmd, server, client, sem, task = _open_setup(vc, address=None)
    env = OpenEnv(vc, h, cmd, server, sem, "ok")
    out = vc.call(CH + ".open_connection", h, cmd, on_yield=env)
    vc.ensure("no_hooks", env.hooks == [])
    vc.ensure("no_connect", "connect" not in env.log)
    vc.ensure("completed_with_error", len(env.completed) == 1 and not isnone(env.completed[0]))
    vc.ensure("state_closed", vc.eq(server.state, env.S.CLOSED))
