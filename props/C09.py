"""C09 — Connection lifecycle events pair up and per-destination concurrency is bounded.

Suspension-point model (DESIGN.md §5.3, worked example props/C10.py). Every `await` of the coroutines under contract is
handed to the contract's `on_yield`, which plays the environment: it produces the await's result (hook finished, connect
succeeded / OSError, bytes read / EOF, ...) or raises asyncio.CancelledError there. Rely condition: the tasks running
`open_connection` / `handle_connection` may be cancelled at ANY await (the code itself does so in close_connection,
drain_writers, on_timeout and at the end of handle_client, ReplayHandler.handle_hook); the client handler task
(handle_client) is only cancelled by event-loop shutdown, which is outside the statement's quantifier.

"A hook fires" = `handle_hook(hook)` is called with it (the coroutine reaches that await).

`await self.server_event(...)` is recorded as an event of the trace but is NOT a cancellation point: scenario
server_event.atomic_and_registers_tasks proves that the critical section under `_server_event_lock` contains no suspension
point for any command, so the lock is never held across a suspension, is therefore never contended, and (trusted
asyncio.Lock contract) acquiring it does not suspend; asyncio delivers CancelledError only at an await that actually
suspended. (With a non-default *eager task factory* tasks created inside server_event run re-entrantly and this argument does
not apply; that configuration is outside the contract.)
"""
from pyvc.api import *
from props.prelude import *

CLAIM = "other"
EXPLANATION = ("T1 proves, for all schedules and cancellation points of the single coroutines open_connection / handle_connection / "
               "handle_client / close_connection / on_timeout, the per-coroutine pairing clauses and 'OPEN only while the per-address semaphore is held' "
               "(two recorded known findings KF-C09-1/2 excepted: cancellation before the try/finally loses the outcome / disconnect hook). "
               "The global clauses (no resources remain after client_disconnected, <= 5 concurrently open per address across tasks) need a multi-task argument and are "
               "checked bounded on the real asyncio ConnectionHandler with fake streams and fault injection at every await position (T2).")
CH = "mitmproxy.proxy.server:ConnectionHandler"
ASSUMPTIONS = [
    "rely: other tasks touch this coroutine's connection only by cancelling its task (any await) and, inside hooks, by setting connection.error / client.error",
    "asyncio.Semaphore(5) is trusted: `async with sem` holds one of five permits between a completed __aenter__ and __aexit__; acquiring may suspend and be cancelled (then no permit is held); release does not suspend",
    "asyncio.open_connection / mitmproxy_rs.udp.open_udp_connection are suspension points that return a (reader, writer) pair, raise OSError, or are cancelled",
    "Connection.transport_protocol is 'tcp' or 'udp' (its declared Literal type)",
    "the client handler task (handle_client) itself is not cancelled (only event-loop shutdown does that) and handle_hook does not raise (addon errors are caught by the addon manager)",
    "logging (ConnectionHandler.log), human.format_address, time.time are opaque",
    "server_event never suspends (proved: no suspension point inside its lock; trusted: an uncontended asyncio.Lock is acquired without suspending; default, non-eager task factory), so it is not a cancellation point",
    "handle_connection's effect inside open_connection is its own proved postcondition (writer closed, transports entry removed, not readable; CancelledError re-raised)",
    "T2: 'resources' = unclosed sockets, running tasks, transports entries with an open socket or a running handler; stale transports placeholders of failed/cancelled connection attempts (no socket, finished task) are not counted",
    "asyncio.wait(tasks) returns only when every task in the list is done; Task.cancel() requests cancellation (delivered at the task's current/next await)",
]


# ---------------------------------------------------------------------------------------------
# stubs (interpreted like repository code; the same classes are used natively)

def hook_point(h, hook):  # summarised: suspension point "the addons handle this hook"
    raise NotImplementedError


def sem_acquire_point(sem):  # summarised: suspension point inside Semaphore.acquire
    raise NotImplementedError


from mitmproxy.proxy import server as _server


class HandlerStub(_server.ConnectionHandler):
    """Concrete ConnectionHandler: handle_hook is abstract in the class under contract."""

    async def handle_hook(self, hook):
        return await hook_point(self, hook)


class SemStub:
    """asyncio.Semaphore / asyncio.Lock stand-in: `held` counts permits held through this object."""

    async def acquire(self):
        await sem_acquire_point(self)
        self.held = self.held + 1
        return True

    def release(self):
        self.held = self.held - 1

    async def __aenter__(self):
        await self.acquire()
        return None

    async def __aexit__(self, et, e, tb):
        self.release()


class StreamStub:
    """StreamReader/StreamWriter/mitmproxy_rs.Stream stand-in."""

    def get_extra_info(self, name, default=None):
        if name == "peername":
            return self.peername
        if name == "sockname":
            return self.sockname
        return default

    def close(self):
        self.closed = self.closed + 1
        if self.close_fails:
            raise OSError("close failed")

    def is_closing(self):
        return self.closed > 0

    def read(self, n):
        return read_point(self, n)

    def write(self, data):
        self.written = self.written + data

    def write_eof(self):
        self.eof = self.eof + 1
        if self.eof_fails:
            raise OSError("write_eof failed")


def read_point(stream, n):  # summarised: suspension point
    raise NotImplementedError


class TaskStub:
    """asyncio.Task stand-in."""

    def cancel(self, msg=None):
        self.cancel_requests = self.cancel_requests + 1
        return True

    def cancelled(self):
        return self.was_cancelled

    def exception(self):
        return self.exc


def _cancelled():
    import asyncio
    return asyncio.CancelledError


def _stream(vc, **kw):
    f = dict(peername=("93.184.216.34", 443), sockname=("10.0.0.2", 50000), closed=0, close_fails=False, eof=0, eof_fails=False, written=b"")
    f.update(kw)
    return vc.new("props.C09:StreamStub", **f)


def _log_summaries(vc):
    vc.summary(CH + ".log", lambda v, self_, *a, **k: v.lift(None))
    vc.summary("mitmproxy.connection:Server.__str__", lambda v, self_: v.lift("Server(...)"))
    vc.summary("mitmproxy.connection:Client.__str__", lambda v, self_: v.lift("Client(...)"))


def _common_summaries(vc):
    _log_summaries(vc)
    vc.summary("mitmproxy.utils.human:format_address", lambda v, a: v.lift("addr"))
    vc.summary("time:time", lambda v: v.lift(100.0))
    vc.summary("props.C09:hook_point", lambda v, h, hook: v.awaitable("hook", hook))
    vc.summary("props.C09:sem_acquire_point", lambda v, sem: v.awaitable("sem_acquire", sem))
    vc.summary("props.C09:read_point", lambda v, s, n: v.awaitable("read", s))
    vc.summary(CH + ".server_event", lambda v, self_, ev: v.awaitable("server_event", ev))


def hook_name(vc, hook):
    return hook.cls.__name__ if vc.mode == "sym" else type(hook).__name__


# ---------------------------------------------------------------------------------------------
# open_connection

ADDR = ("example.com", 443)


ADDR2 = ("redirected.example", 8443)
_OTHER_SEMS = {}     # id(handler) -> semaphores of the addresses this connection does NOT end up connecting to


def _open_setup(vc, address=ADDR, proto="tcp", rewrite_to=None):
    """rewrite_to: the address an addon assigns to data.server.address in the server_connect hook (legal: the hook exists for this).
    Returns `sem` = the semaphore of the address actually connected to (the address at connect time)."""
    _common_summaries(vc)
    client = mk_client(vc)
    server = mk_server(vc, address=address, transport_protocol=proto)
    sem_orig = vc.new("props.C09:SemStub", held=0)
    sem_new = vc.new("props.C09:SemStub", held=0)
    sem = sem_new if rewrite_to else sem_orig
    _OTHER_SEMS.clear()
    task = vc.new("props.C09:TaskStub", cancel_requests=0, was_cancelled=False, exc=None)
    h = vc.new("props.C09:HandlerStub", client=client, transports=vc.dict([(server, vc.new("mitmproxy.proxy.server:ConnectionIO", handler=task, reader=None, writer=None))]),
               max_conns=vc.dict(([(address, sem_orig)] if address else []) + [(ADDR2, sem_new)]))
    _OTHER_SEMS[id(h)] = [sem_orig if rewrite_to else sem_new]
    cmd = vc.new("mitmproxy.proxy.commands:OpenConnection", connection=server, blocking=True)
    vc.summary("_asyncio:current_task", lambda v: task)
    vc.summary("asyncio.streams:open_connection", lambda v, *a, **k: v.awaitable("connect", "tcp", a[0], a[1]))
    vc.summary("mitmproxy_rs.udp:open_udp_connection", lambda v, *a, **k: v.awaitable("connect", "udp", a[0], a[1]))
    vc.summary(CH + ".handle_connection", lambda v, self_, conn: v.awaitable("handle_connection", conn))
    return h, cmd, server, client, sem, task


class OpenEnv:
    """The environment of one open_connection run: records what happened at each suspension point and checks the
    point-wise obligations there."""

    def __init__(self, vc, h, cmd, server, sem, connect_result, hook_sets_error=None, allow_cancel=True, hook_rewrites_address=None):
        from mitmproxy.connection import ConnectionState
        self.S = ConnectionState
        self.vc, self.h, self.cmd, self.server, self.sem = vc, h, cmd, server, sem
        self.other_sems = _OTHER_SEMS.get(id(h), [])
        self.hook_rewrites_address = hook_rewrites_address
        self.connected_to = None
        self.connect_result = connect_result
        self.hook_sets_error = hook_sets_error
        self.allow_cancel = allow_cancel
        self.log = []            # names of suspension points, in order
        self.hooks = []          # hook class names in firing order
        self.completed = []      # reply of each OpenConnectionCompleted event
        self.cancelled_at = []   # suspension point names at which CancelledError was delivered
        self.stream = None

    def point_obligations(self, where):
        """At every suspension point other tasks can observe the connection: OPEN (or half-open) only under the semaphore."""
        vc = self.vc
        st = self.server.state
        vc.ensure("open_only_while_semaphore_held", Implies(Not(vc.eq(st, self.S.CLOSED)), self.sem.held == 1))
        io = self._io()
        vc.ensure("socket_registered_only_while_semaphore_held", Implies(self.sem.held == 0, io is None or isnone(io.writer) or io.writer.closed > 0))
        # the permit must be the one of the address actually connected to (the address at connect time), never another address's
        vc.ensure("no_permit_of_another_address_held", And(*[s.held == 0 for s in self.other_sems]) if self.other_sems else True)

    def _io(self):
        tr = self.h.transports
        if self.vc.mode == "sym":
            for k, v in tr.items:
                if k is self.server:
                    return v
            return None
        return tr.get(self.server)

    def __call__(self, item):
        vc = self.vc
        assert item[0] == "await"
        kind = item[1]
        name = kind
        if kind == "hook":
            name = "hook:" + hook_name(vc, item[2])
            self.hooks.append(hook_name(vc, item[2]))
        elif kind == "server_event":
            ev = item[2]
            name = "server_event:" + hook_name(vc, ev)
            if hook_name(vc, ev) == "OpenConnectionCompleted":
                vc.ensure("completion.for_this_command", ev.command is self.cmd)
                self.completed.append(ev.reply)
        self.log.append(name)
        self.point_obligations(name)
        if kind == "connect":
            conc = lambda x: x.concrete() if hasattr(x, "concrete") else x
            self.connected_to = (conc(item[3]), conc(item[4]))
            vc.ensure("connect.to_the_address_set_by_the_hook", self.connected_to == tuple(self.hook_rewrites_address or ADDR))
            vc.ensure("connect.holds_the_permit_of_the_connected_address", self.sem.held == 1)
        if self.allow_cancel and kind != "server_event" and vc.branch(vc.fresh_bool("cancelled")):
            self.cancelled_at.append(name)
            if kind == "handle_connection":
                self.handle_connection_effect(cancelled=True)
            return vc.throw(_cancelled())
        if kind == "hook" and name == "hook:ServerConnectHook" and self.hook_sets_error is not None:
            self.server.error = self.hook_sets_error
        if kind == "hook" and name == "hook:ServerConnectHook" and self.hook_rewrites_address is not None:
            self.server.address = self.hook_rewrites_address      # an addon redirects the connection
        if kind == "connect":
            if self.connect_result == "ok":
                self.stream = _stream(vc)
                return (self.stream, self.stream) if item[2] == "tcp" else self.stream
            return vc.throw(OSError, self.connect_result)
        if kind == "handle_connection":
            self.handle_connection_effect()
        return None

    def handle_connection_effect(self, cancelled=False):
        """Postcondition of handle_connection (proved separately below): writer closed, transports entry removed, state no longer
        readable (CLOSED; or still CAN_WRITE when it was cancelled while waiting half-closed)."""
        vc = self.vc
        half = cancelled and vc.case("handle_connection_cancelled_while_half_closed", [False, True])
        self.stream.closed = self.stream.closed + 1
        if vc.mode == "sym":
            self.h.transports.items[:] = [(k, v) for k, v in self.h.transports.items if k is not self.server]
        else:
            self.h.transports.pop(self.server, None)
        self.server.state = self.S.CAN_WRITE if half else self.S.CLOSED


def _pairing_obligations(vc, env, out):
    hooks = env.hooks
    n_connect = hooks.count("ServerConnectHook")
    n_ok = hooks.count("ServerConnectedHook")
    n_err = hooks.count("ServerConnectErrorHook")
    n_disc = hooks.count("ServerDisconnectedHook")
    vc.ensure("server_connect.at_most_once", n_connect <= 1)
    vc.ensure("outcome_hooks.only_after_server_connect", (n_ok + n_err + n_disc == 0) or (n_connect == 1 and hooks[0] == "ServerConnectHook"))
    vc.ensure("outcome_hooks.not_both", n_ok + n_err <= 1)
    early = [p for p in env.cancelled_at if p in ("hook:ServerConnectHook", "sem_acquire")]
    vc.ensure_kf("server_connect.then_exactly_one_outcome", n_connect == 0 or n_ok + n_err == 1, "KF-C09-1", len(early) > 0)
    late = [p for p in env.cancelled_at if p == "hook:ServerConnectedHook"]
    vc.ensure("server_connected.then_exactly_one_disconnected", n_disc == n_ok and (n_ok == 0 or hooks.index("ServerConnectedHook") < hooks.index("ServerDisconnectedHook")))  # was recorded finding KF-C09-2, repaired in /repo (see known_findings.d/C09.json)
    vc.ensure("server_disconnected.is_last_hook", n_disc == 0 or hooks[-1] == "ServerDisconnectedHook")
    vc.ensure("exit.no_socket_left_registered", env._io() is None or isnone(env._io().writer) or env._io().writer.closed > 0)  # was recorded finding KF-C09-2, repaired in /repo (see known_findings.d/C09.json)
    vc.ensure("exit.semaphore_released", env.sem.held == 0)
    vc.ensure("exit.no_permit_of_another_address_held", And(*[s.held == 0 for s in env.other_sems]) if env.other_sems else True)
    vc.ensure("exit.not_open", Not(flag_has(env.server.state, env.S.CAN_READ)))  # was recorded finding KF-C09-2, repaired in /repo (see known_findings.d/C09.json)
    vc.ensure("cancellation_propagates_or_completes", out.ok or out.raised_type() is _cancelled())
    vc.ensure("normal_return_only_if_not_cancelled_in_connection", out.ok or len(env.cancelled_at) > 0)


@scenario("open_connection.pairing", functions=[CH + ".open_connection"])
def s_open(vc):
    """All paths of open_connection x cancellation at every await: hook pairing, OPEN only under the semaphore, completion event."""
    proto = vc.case("proto", ["tcp", "udp"])
    connect = vc.case("connect", ["ok", "refused", ""])
    killed = vc.case("server_connect_hook_sets_error", [None, "killed by addon"])
    rewrite = vc.case("server_connect_hook_rewrites_address", [None, ADDR2])
    h, cmd, server, client, sem, task = _open_setup(vc, proto=proto, rewrite_to=rewrite)
    env = OpenEnv(vc, h, cmd, server, sem, connect, hook_sets_error=killed, hook_rewrites_address=rewrite)
    out = vc.call(CH + ".open_connection", h, cmd, on_yield=env)
    _pairing_obligations(vc, env, out)
    # the layer is told the outcome exactly once unless the task is cancelled before it could
    vc.ensure("completion.at_most_once", len(env.completed) <= 1)
    if not env.cancelled_at:
        vc.ensure("completion.exactly_once_when_not_cancelled", len(env.completed) == 1)
        ok = connect == "ok" and killed is None
        vc.ensure("completion.reply_none_iff_connected", isnone(env.completed[0]) == ok if env.completed else False)
        vc.ensure("connected_iff_success", ("ServerConnectedHook" in env.hooks) == ok)
        if killed is not None:
            vc.ensure("killed.no_connect_attempt", "connect" not in env.log and "sem_acquire" not in env.log)
        if connect != "ok" and killed is None:
            vc.ensure("failure.error_recorded", not isnone(server.error) and vc.truthy(server.error))
    if "hook:ServerConnectedHook" in env.log:
        i = env.log.index("hook:ServerConnectedHook")
        vc.ensure("connected.after_successful_connect", "connect" in env.log[:i] and connect == "ok")


@scenario("open_connection.no_address", functions=[CH + ".open_connection"])
def s_open_noaddr(vc):
    h, cmd, server, client, sem, task = _open_setup(vc, address=None)
    env = OpenEnv(vc, h, cmd, server, sem, "ok")
    out = vc.call(CH + ".open_connection", h, cmd, on_yield=env)
    vc.ensure("no_hooks", env.hooks == [])
    vc.ensure("no_connect", "connect" not in env.log)
    vc.ensure("completed_with_error", len(env.completed) == 1 and not isnone(env.completed[0]))
    vc.ensure("state_closed", vc.eq(server.state, env.S.CLOSED))


# ---------------------------------------------------------------------------------------------
# handle_connection: reads until EOF/error/cancellation, always tells the layer and releases the transport

class ForeverEvent:
    """asyncio.Event() that nobody sets: wait() only ends by cancellation."""

    def wait(self):
        return forever_point(self)


def forever_point(ev):  # summarised: suspension point
    raise NotImplementedError


# drain() failures the environment may produce: *every* OSError is a write error, not only ConnectionError subclasses
# (ETIMEDOUT -> TimeoutError, EHOSTUNREACH -> plain OSError, EPIPE/ECONNRESET -> ConnectionError subclasses)
WRITE_ERRORS = [("BrokenPipeError", (32, "Broken pipe")), ("ConnectionResetError", (104, "Connection reset by peer")), ("TimeoutError", (110, "Connection timed out")),
                ("OSError", (113, "No route to host")), ("PermissionError", (1, "Operation not permitted"))]


def _write_error(vc, label="write_error_class"):
    import builtins
    name, args = vc.case(label, WRITE_ERRORS)
    return getattr(builtins, name), args


def _hc_setup(vc, proto, state, inline_drain=False):
    _common_summaries(vc)
    client = mk_client(vc)
    conn = mk_server(vc, transport_protocol=proto, state=state, timestamp_start=2.0)
    stream = _stream(vc, close_fails=vc.case("writer_close_raises_oserror", [False, True]))
    task = vc.new("props.C09:TaskStub", cancel_requests=0, was_cancelled=False, exc=None)
    other = mk_server(vc, "other", address=("other.example", 80))
    io2 = vc.new("mitmproxy.proxy.server:ConnectionIO", handler=None, reader=None, writer=None)
    if inline_drain:
        # drain_writers runs from its real source inside handle_connection; the *other* connection's socket is the one that fails
        stream = vc.new("props.C09:DrainStream", peername=("93.184.216.34", 443), sockname=("10.0.0.2", 50000), closed=0, close_fails=False, eof=0, eof_fails=False, written=b"")
        ow = vc.new("props.C09:DrainStream", peername=None, sockname=None, closed=0, close_fails=False, eof=0, eof_fails=False, written=b"")
        io2 = vc.new("mitmproxy.proxy.server:ConnectionIO", handler=vc.new("props.C09:TaskStub", cancel_requests=0, was_cancelled=False, exc=None), reader=ow, writer=ow)
        vc.summary("props.C09:drain_point", lambda v, s: v.awaitable("drain_io", s))
    else:
        vc.summary(CH + ".drain_writers", lambda v, self_: v.awaitable("drain"))
    io = vc.new("mitmproxy.proxy.server:ConnectionIO", handler=task, reader=stream, writer=stream)
    h = vc.new("props.C09:HandlerStub", client=client, transports=vc.dict([(other, io2), (conn, io)]), _drain_lock=vc.new("props.C09:SemStub", held=0))
    vc.summary("asyncio.locks:Event", lambda v: v.new("props.C09:ForeverEvent"))
    vc.summary("props.C09:forever_point", lambda v, ev: v.awaitable("wait_forever"))
    return h, conn, stream, other


def _tr_keys(vc, h):
    return [k for k, _ in h.transports.items] if vc.mode == "sym" else list(h.transports.keys())


def _handle_connection_body(vc, inductive, inline_drain=False):
    from mitmproxy.connection import ConnectionState as S
    import asyncio
    proto = vc.case("proto", ["tcp", "udp"])
    st0 = vc.case("initial_state", [S.OPEN, S.CAN_READ])     # CAN_READ: we already half-closed our side
    h, conn, stream, other = _hc_setup(vc, proto, st0, inline_drain)
    reads, delivered, closed_events, log, cancelled_at, write_failed = [], [], [], [], [], []
    werr = _write_error(vc) if inline_drain else None

    def on_yield(item):
        kind = item[1]
        log.append(kind if kind != "server_event" else "ev:" + hook_name(vc, item[2]))
        if kind == "server_event":          # atomic (see server_event.atomic): not a cancellation point
            ev = item[2]
            if hook_name(vc, ev) == "DataReceived":
                vc.ensure("data.for_this_connection", ev.connection is conn)
                delivered.append(ev.data)
            else:
                vc.ensure("only_data_and_close_events", hook_name(vc, ev) == "ConnectionClosed" and ev.connection is conn)
                closed_events.append(conn.state)
                vc.ensure("closed_event.state_not_readable", Not(flag_has(conn.state, S.CAN_READ)))
                vc.ensure("closed_event.transport_still_registered", conn in _tr_keys(vc, h) and stream.closed == 0)
            return None
        if vc.branch(vc.fresh_bool("cancelled")):
            cancelled_at.append(kind)
            return vc.throw(asyncio.CancelledError, "closed by command")
        if kind == "read":
            # one label per read: natively vc.case looks its choice up by label, so a repeated label would replay the last choice for every read
            r = vc.case(f"read_result#{log.count('read')}", ["data", "eof", "oserror"])
            if r == "data":
                d = vc.fresh_bytes("chunk")
                vc.assume(len_(d) > 0)
                reads.append(d)
                return d
            if r == "eof":
                return b""
            return vc.throw(ConnectionResetError, "reset")
        if kind == "wait_forever":
            vc.assume(False)   # nobody sets this event: the wait can only be cancelled
        if kind == "drain_io" and vc.branch(vc.fresh_bool("write_error")):
            write_failed.append(item[2])
            return vc.throw(werr[0], *werr[1])      # flushing a socket fails (any OSError): must not escape from the reader of another connection
        return None

    if inductive and vc.mode == "sym":
        def inv(it, env, idx):
            return And(stream.closed == 0, vc.eq(conn.state, st0))

        def havoc(it, env):
            # an arbitrary earlier iteration: some chunks were read and delivered 1:1, nothing else changed
            del reads[:], delivered[:]

        inv.havoc = havoc
        inv.pinned = {"cancelled": NONE}     # `cancelled` is None at every loop head (each assignment is followed by break)
        vc.invariant(CH + ".handle_connection", 1, inv)
    out = vc.call(CH + ".handle_connection", h, conn, on_yield=on_yield)
    vc.ensure("exit.transport_removed", conn not in _tr_keys(vc, h))
    vc.ensure("exit.other_transports_untouched", other in _tr_keys(vc, h) and len(_tr_keys(vc, h)) == 1)
    vc.ensure("exit.writer_closed_exactly_once", stream.closed == 1)
    vc.ensure("exit.layer_told_exactly_once", len(closed_events) == 1)
    vc.ensure("exit.nothing_read_or_delivered_after_close_event", "ev:ConnectionClosed" in log and not [k for k in log[log.index("ev:ConnectionClosed") + 1:] if k in ("read", "drain", "drain_io", "ev:DataReceived", "ev:ConnectionClosed")])
    vc.ensure("exit.every_chunk_delivered_once_in_order", len(delivered) == len(reads) and all(a is b for a, b in zip(delivered, reads)))
    vc.ensure("exit.not_readable", Not(flag_has(conn.state, S.CAN_READ)))
    if cancelled_at:
        vc.ensure("cancel.reraised", (not out.ok) and out.raised_type() is asyncio.CancelledError)
        if cancelled_at[0] in ("read", "drain", "drain_io", "sem_acquire"):
            vc.ensure("cancel.state_closed", vc.eq(conn.state, S.CLOSED))
    else:
        vc.ensure("no_cancel.returns_normally", out.ok)
    if not cancelled_at or cancelled_at[0] == "wait_forever":
        vc.ensure("peer_close.half_close_only_for_tcp", vc.eq(closed_events[0], (st0 & ~S.CAN_READ) if proto == "tcp" else S.CLOSED) if closed_events else False)
    if "wait_forever" in log:
        vc.ensure("keeps_waiting_only_when_writable", proto == "tcp" and st0 == S.OPEN and vc.eq(closed_events[0], S.CAN_WRITE))


@scenario("handle_connection.cleanup", functions=[CH + ".handle_connection"])
def s_handle_connection(vc):
    """Inductive over the read loop (invariant: not cancelled, writer open, state unchanged)."""
    _handle_connection_body(vc, True)


@scenario("handle_connection.cleanup.write_errors", functions=[CH + ".handle_connection", CH + ".drain_writers"], max_unroll=1)
def s_handle_connection_write_errors(vc):
    """handle_connection with the real drain_writers inlined: flushing any socket (this connection's or another one's) may fail with any
    OSError (BrokenPipe/ConnectionReset/Timeout/EHOSTUNREACH/...). Same exit obligations: the reader is not torn down by somebody
    else's write error - it always tells the layer, closes its writer and releases its transport."""
    _handle_connection_body(vc, False, inline_drain=True)


@scenario("handle_connection.cleanup.unrolled", functions=[CH + ".handle_connection"], max_unroll=3)
def s_handle_connection_unrolled(vc):
    """Same obligations on the first iterations without the invariant: failures here replay on the real coroutine."""
    _handle_connection_body(vc, False)


# ---------------------------------------------------------------------------------------------
# drain_writers: a write error on any transport cancels that transport's handler (=> its cleanup path runs)

def drain_point(stream):  # summarised: suspension point
    raise NotImplementedError


class DrainStream(StreamStub):
    def drain(self):
        return drain_point(self)


@scenario("drain_writers.write_error_cancels_handler", functions=[CH + ".drain_writers"])
def s_drain(vc):
    import asyncio
    _common_summaries(vc)
    vc.summary("props.C09:drain_point", lambda v, s: v.awaitable("drain", s))
    client = mk_client(vc)
    server = mk_server(vc)
    lock = vc.new("props.C09:SemStub", held=0)
    f = dict(peername=None, sockname=None, closed=0, close_fails=False, eof=0, eof_fails=False, written=b"")
    w1, w2 = vc.new("props.C09:DrainStream", **f), vc.new("props.C09:DrainStream", **f)
    t1 = vc.new("props.C09:TaskStub", cancel_requests=0, was_cancelled=False, exc=None)
    t2 = vc.new("props.C09:TaskStub", cancel_requests=0, was_cancelled=False, exc=None)
    opening = mk_server(vc, "opening")
    h = vc.new("props.C09:HandlerStub", client=client, _drain_lock=lock, transports=vc.dict([
        (client, vc.new("mitmproxy.proxy.server:ConnectionIO", handler=t1, reader=w1, writer=w1)),
        (opening, vc.new("mitmproxy.proxy.server:ConnectionIO", handler=vc.new("props.C09:TaskStub", cancel_requests=0, was_cancelled=False, exc=None), reader=None, writer=None)),
        (server, vc.new("mitmproxy.proxy.server:ConnectionIO", handler=t2, reader=w2, writer=w2)),
    ]))
    failed, cancelled_at = [], []
    werr = _write_error(vc)     # every OSError subclass drain() can raise, not only ConnectionError

    def on_yield(item):
        if vc.branch(vc.fresh_bool("cancelled")):
            cancelled_at.append(item[1])
            return vc.throw(asyncio.CancelledError)
        if item[1] == "drain":
            if vc.branch(vc.fresh_bool("write_error")):
                failed.append(item[2])
                return vc.throw(werr[0], *werr[1])
        return None

    out = vc.call(CH + ".drain_writers", h, on_yield=on_yield)
    vc.ensure("lock_released", lock.held == 0)
    vc.ensure("only_cancellation_escapes", out.ok == (not cancelled_at) and (out.ok or out.raised_type() is asyncio.CancelledError))
    vc.ensure("write_error.cancels_exactly_that_handler", And(t1.cancel_requests == (1 if w1 in failed else 0), t2.cancel_requests == (1 if w2 in failed else 0)))
    if not cancelled_at:
        vc.ensure("no_write_error_escapes", out.ok)
        vc.ensure("every_writer_drained", [x for x in out.trace if x[1] == "drain"] and [x[2] for x in out.trace if x[1] == "drain"] == [w1, w2])


# ---------------------------------------------------------------------------------------------
# server_event: the critical section contains no suspension point (=> its lock is never contended => server_event does not
# suspend => it is not a cancellation point for its callers); OpenConnection registers the task before anyone else runs

def create_task_point(coro, name, keep_ref, client):
    raise NotImplementedError


class LayerStub:
    def handle_event(self, event):
        return layer_point(self, event)


def layer_point(layer, event):
    raise NotImplementedError


class CoroStub:
    """a coroutine object that has been created but not started (argument of create_task)"""


class WatchdogStub:
    def register_activity(self):
        self.activity = self.activity + 1

    def watch(self):
        return self.watch_coro


@scenario("server_event.atomic_and_registers_tasks", functions=[CH + ".server_event", CH + ".close_connection"])
def s_server_event(vc):
    from mitmproxy.connection import ConnectionState as S
    _log_summaries(vc)
    vc.summary("props.C09:sem_acquire_point", lambda v, sem: v.awaitable("sem_acquire", sem))
    client = mk_client(vc)
    server = mk_server(vc, state=S.OPEN, timestamp_start=2.0)
    fresh = mk_server(vc, "fresh")
    gone = mk_server(vc, "gone")
    w = _stream(vc)
    t_srv = vc.new("props.C09:TaskStub", cancel_requests=0, was_cancelled=False, exc=None)
    t_cli = vc.new("props.C09:TaskStub", cancel_requests=0, was_cancelled=False, exc=None)
    lock = vc.new("props.C09:SemStub", held=0)
    kind = vc.case("command", ["open", "send", "send_gone", "close", "close_gone", "half_close", "hook", "wakeup", "log", "bogus", "layer_raises"])
    data = vc.sym_bytes("data")
    mk = lambda ref, **f: vc.new(ref, **f)
    cmds = {
        "open": [mk("mitmproxy.proxy.commands:OpenConnection", connection=fresh, blocking=True)],
        "send": [mk("mitmproxy.proxy.commands:SendData", connection=server, data=data, blocking=False)],
        "send_gone": [mk("mitmproxy.proxy.commands:SendData", connection=gone, data=data, blocking=False)],
        "close": [mk("mitmproxy.proxy.commands:CloseConnection", connection=server, blocking=False)],
        "close_gone": [mk("mitmproxy.proxy.commands:CloseConnection", connection=gone, blocking=False)],
        "half_close": [mk("mitmproxy.proxy.commands:CloseTcpConnection", connection=server, half_close=True, blocking=False)],
        "hook": [mk("mitmproxy.proxy.server_hooks:ClientConnectedHook", client=client, blocking=True)],
        "wakeup": [mk("mitmproxy.proxy.commands:RequestWakeup", delay=1.0, blocking=False)],
        "log": [mk("mitmproxy.proxy.commands:Log", message="m", level=20, blocking=False)],
        "bogus": [mk("mitmproxy.proxy.commands:Command", blocking=False)],
        "layer_raises": [],
    }[kind]
    created, coros = [], []

    def create_task(v, coro, **kw):
        t = v.new("props.C09:TaskStub", cancel_requests=0, was_cancelled=False, exc=None, coro=coro)
        created.append(t)
        return t

    def layer_events(v, layer, event):
        if kind == "layer_raises":
            v.raise_(RuntimeError, "layer bug")
        return v.gen(cmds)

    vc.summary("mitmproxy.utils.asyncio_utils:create_task", create_task)
    vc.summary("props.C09:layer_point", layer_events)
    for m in ("open_connection", "wakeup", "hook_task"):
        vc.summary(CH + "." + m, (lambda m: lambda v, self_, c: coros.append((m, c)) or v.new("props.C09:CoroStub", n=len(coros) - 1))(m))
    wd = vc.new("props.C09:WatchdogStub", activity=0)
    h = vc.new("props.C09:HandlerStub", client=client, _server_event_lock=lock, timeout_watchdog=wd, layer=vc.new("props.C09:LayerStub"), wakeup_timer=set(),
               transports=vc.dict([(client, vc.new("mitmproxy.proxy.server:ConnectionIO", handler=t_cli, reader=w, writer=w)),
                                   (server, vc.new("mitmproxy.proxy.server:ConnectionIO", handler=t_srv, reader=w, writer=w))]))
    held_at = []

    def on_yield(item):
        held_at.append(item[1])
        vc.ensure("suspends_only_before_the_critical_section", And(item[1] == "sem_acquire", lock.held == 0))

    out = vc.call(CH + ".server_event", h, vc.new("mitmproxy.proxy.events:Start"), on_yield=on_yield)
    vc.ensure("no_exception_escapes", out.ok)
    vc.ensure("critical_section_has_no_suspension_point", held_at == ["sem_acquire"])
    vc.ensure("lock_released", lock.held == 0)
    vc.ensure("activity_registered", wd.activity == 1)
    keys = _tr_keys(vc, h)
    if kind == "open":
        io = [v for k, v in (h.transports.items if vc.mode == "sym" else h.transports.items()) if k is fresh]
        vc.ensure("open.task_created_and_registered", len(created) == 1 and len(io) == 1 and io[0].handler is created[0] and (io[0].writer is None or isnone(io[0].writer)))
        vc.ensure("open.task_runs_open_connection", len(created) == 1 and len(coros) == 1 and coros[0][0] == "open_connection" and coros[0][1] is cmds[0] and hook_name(vc, created[0].coro) == "CoroStub")
    else:
        vc.ensure("transports_unchanged", len(keys) == 2)
    if kind == "close":
        vc.ensure("close.state_closed_and_handler_cancelled", And(vc.eq(server.state, S.CLOSED), t_srv.cancel_requests == 1, t_cli.cancel_requests == 0))
    if kind == "half_close":
        vc.ensure("half_close.eof_written_still_readable_handler_kept", And(w.eof == 1, vc.eq(server.state, S.CAN_READ), t_srv.cancel_requests == 0))
    if kind in ("send_gone", "close_gone"):
        vc.ensure("gone.ignored", And(t_srv.cancel_requests == 0, t_cli.cancel_requests == 0, vc.eq(server.state, S.OPEN)))
    if kind == "wakeup":
        timers = h.wakeup_timer.items if vc.mode == "sym" else list(h.wakeup_timer)
        vc.ensure("wakeup.timer_registered_for_cancellation", len(created) == 1 and len(timers) == 1 and timers[0] is created[0])


# ---------------------------------------------------------------------------------------------
# close_connection / on_timeout

@scenario("close_connection.closed_implies_handler_cancelled", functions=[CH + ".close_connection"])
def s_close_connection(vc):
    from mitmproxy.connection import ConnectionState as S
    _log_summaries(vc)
    half = vc.case("half_close", [False, True])
    st0 = vc.case("state", [S.OPEN, S.CAN_WRITE, S.CAN_READ, S.CLOSED])
    eof_fails = vc.case("write_eof_raises", [False, True])
    closing = vc.case("writer_already_closing", [False, True])
    client = mk_client(vc)
    server = mk_server(vc, state=st0, timestamp_start=2.0)
    w = _stream(vc, eof_fails=eof_fails, closed=1 if closing else 0)
    t = vc.new("props.C09:TaskStub", cancel_requests=0, was_cancelled=False, exc=None)
    t_cli = vc.new("props.C09:TaskStub", cancel_requests=0, was_cancelled=False, exc=None)
    h = vc.new("props.C09:HandlerStub", client=client, transports=vc.dict([(client, vc.new("mitmproxy.proxy.server:ConnectionIO", handler=t_cli, reader=w, writer=w)), (server, vc.new("mitmproxy.proxy.server:ConnectionIO", handler=t, reader=w, writer=w))]))
    out = vc.call(CH + ".close_connection", h, server, half)
    vc.ensure("no_exception", out.ok)
    vc.ensure("other_handlers_untouched", t_cli.cancel_requests == 0)
    if not half:
        vc.ensure("full_close.state_closed", vc.eq(server.state, S.CLOSED))
    elif not (st0 & S.CAN_WRITE):
        vc.ensure("half_close.noop_when_not_writable", And(vc.eq(server.state, st0), w.eof == 0, t.cancel_requests == 0))
    else:
        vc.ensure("half_close.eof_written_unless_closing", w.eof == (0 if closing else 1))
        vc.ensure("half_close.state", vc.eq(server.state, S.CLOSED if (eof_fails and not closing) else st0 & ~S.CAN_WRITE))
    # the clause the lifecycle pairing relies on: whoever makes a connection CLOSED also cancels its handler task, so that
    # handle_connection / open_connection run their cleanup (server_disconnected, transports.pop, writer.close)
    became_closed = st0 != S.CLOSED or not half
    if vc.branch(vc.eq(server.state, S.CLOSED)) and became_closed:
        vc.ensure("closed.handler_cancel_requested_once", t.cancel_requests == 1)
    else:
        vc.ensure("not_closed.handler_not_cancelled", t.cancel_requests == 0)


@scenario("on_timeout.cancels_client_handler", functions=[CH + ".on_timeout"])
def s_on_timeout(vc):
    _log_summaries(vc)
    present = vc.case("client_transport_present", [True, False])
    proto = vc.case("proto", ["tcp", "udp"])
    client = mk_client(vc, transport_protocol=proto)
    server = mk_server(vc)
    w = _stream(vc)
    t_cli = vc.new("props.C09:TaskStub", cancel_requests=0, was_cancelled=False, exc=None)
    t_srv = vc.new("props.C09:TaskStub", cancel_requests=0, was_cancelled=False, exc=None)
    items = [(server, vc.new("mitmproxy.proxy.server:ConnectionIO", handler=t_srv, reader=w, writer=w))]
    if present:
        items.insert(0, (client, vc.new("mitmproxy.proxy.server:ConnectionIO", handler=t_cli, reader=w, writer=w)))
    h = vc.new("props.C09:HandlerStub", client=client, transports=vc.dict(items))
    out = vc.call(CH + ".on_timeout", h, on_yield=lambda item: vc.unreachable("on_timeout_does_not_suspend"))
    vc.ensure("no_exception", out.ok)
    vc.ensure("client_handler_cancelled_iff_present", t_cli.cancel_requests == (1 if present else 0))
    vc.ensure("server_handlers_left_to_handle_client", t_srv.cancel_requests == 0)


# ---------------------------------------------------------------------------------------------
# handle_client: client_connected once, client_disconnected once after it; refused clients never reach the layer;
# afterwards every remaining handler is cancelled and awaited

def _task(vc, **kw):
    f = dict(cancel_requests=0, was_cancelled=False, exc=None)
    f.update(kw)
    return vc.new("props.C09:TaskStub", **f)


@scenario("handle_client.lifecycle", functions=[CH + ".handle_client"])
def s_handle_client(vc):
    from mitmproxy.connection import ConnectionState as S
    _common_summaries(vc)
    refused = vc.case("client_connected_hook_sets_error", [False, True])
    outcome = vc.case("client_handler_outcome", ["returned", "cancelled", "crashed"])
    remaining = vc.case("transports_left_when_client_handler_ends", ["none", "server_open", "server_opening_and_open", "client_entry_still_there"])
    n_timers = vc.case("pending_wakeup_timers", [0, 2])
    client = mk_client(vc)
    cw = _stream(vc)
    cio = vc.new("mitmproxy.proxy.server:ConnectionIO", handler=None, reader=cw, writer=cw)
    timers = [_task(vc) for _ in range(n_timers)]
    wd = vc.new("props.C09:WatchdogStub", activity=0, watch_coro=vc.new("props.C09:CoroStub", n=0))
    h = vc.new("props.C09:HandlerStub", client=client, timeout_watchdog=wd, wakeup_timer=set(timers), transports=vc.dict([(client, cio)]))
    created, log = [], []
    hc_coro = vc.new("props.C09:CoroStub", n=1)

    def create_task(v, coro, **kw):
        t = _task(v, coro=coro)
        created.append(t)
        log.append("create_task")
        return t

    vc.summary("mitmproxy.utils.asyncio_utils:create_task", create_task)
    vc.summary("mitmproxy.utils.asyncio_utils:set_current_task_debug_info", lambda v, **k: v.lift(None))
    vc.summary(CH + ".handle_connection", lambda v, self_, conn: hc_coro)
    vc.summary("asyncio.tasks:wait", lambda v, tasks, **k: v.awaitable("wait", tasks))
    s1, s2 = mk_server(vc, "s1"), mk_server(vc, "s2", address=("other.example", 80))
    t1, t2 = _task(vc), _task(vc)
    sw = _stream(vc)
    waited = []
    at_disconnect = {}

    def set_transports(items):
        if vc.mode == "sym":
            h.transports.items[:] = items
        else:
            h.transports.clear()
            h.transports.update(items)

    def on_yield(item):
        kind = item[1]
        if kind == "hook":
            name = hook_name(vc, item[2])
            log.append(name)
            vc.ensure("hook.about_this_client", item[2].client is client)
            if name == "ClientConnectedHook" and refused:
                client.error = "Client connection from 8.8.8.8 killed by block_global option."
            if name == "ClientDisconnectedHook":
                at_disconnect["watch_cancelled"] = created[0].cancel_requests if created else None
                at_disconnect["timers"] = [t.cancel_requests for t in timers]
                at_disconnect["timestamp_end"] = client.timestamp_end
            return None
        if kind == "server_event":
            log.append("ev:" + hook_name(vc, item[2]))
            return None
        if kind == "wait":
            tasks = item[2].items if vc.mode == "sym" else list(item[2])
            waited.append(list(tasks))
            log.append("wait")
            if len(waited) == 1:
                # the client's handler task has ended; meanwhile other tasks have opened / closed upstream connections
                hd = created[1]
                hd.was_cancelled = outcome == "cancelled"
                hd.exc = vc.construct("builtins:RuntimeError", "boom") if outcome == "crashed" else None
                items = {"none": [], "server_open": [(s1, vc.new("mitmproxy.proxy.server:ConnectionIO", handler=t1, reader=sw, writer=sw))],
                         "server_opening_and_open": [(s1, vc.new("mitmproxy.proxy.server:ConnectionIO", handler=t1, reader=None, writer=None)), (s2, vc.new("mitmproxy.proxy.server:ConnectionIO", handler=t2, reader=sw, writer=sw))],
                         "client_entry_still_there": [(client, cio)]}[remaining]
                set_transports(items)
            return None
        vc.unreachable("unexpected_suspension_point." + kind)

    out = vc.call(CH + ".handle_client", h, on_yield=on_yield)
    vc.ensure("no_exception_escapes", out.ok)
    hooks = [x for x in log if x.endswith("Hook")]
    vc.ensure("hooks.connected_once_then_disconnected_once", hooks == ["ClientConnectedHook", "ClientDisconnectedHook"])
    vc.ensure("watchdog.started_first_and_cancelled_before_disconnect_hook", len(created) >= 1 and created[0].coro is wd.watch_coro and vc.eq(at_disconnect.get("watch_cancelled"), 1))
    vc.ensure("wakeup_timers.all_cancelled_before_disconnect_hook", And(*[c == 1 for c in at_disconnect.get("timers", [0])]) if timers else True)
    left = h.wakeup_timer.items if vc.mode == "sym" else list(h.wakeup_timer)
    vc.ensure("wakeup_timers.set_emptied", len(left) == 0)
    vc.ensure("timestamp_end.set_before_disconnect_hook", not isnone(at_disconnect.get("timestamp_end")))
    if refused:
        vc.ensure("refused.never_reaches_the_layer", not [x for x in log if x.startswith("ev:")])
        vc.ensure("refused.no_connection_handler_task", len(created) == 1)
        vc.ensure("refused.client_socket_closed_once", cw.closed == 1)
        vc.ensure("refused.client_transport_removed", len(_tr_keys(vc, h)) == 0)
        vc.ensure("refused.nothing_awaited", waited == [])
    else:
        vc.ensure("accepted.layer_started_once_before_reading", log[:4] == ["create_task", "ClientConnectedHook", "ev:Start", "create_task"] and log.count("ev:Start") == 1)
        vc.ensure("accepted.client_handler_registered_and_awaited", len(created) == 2 and created[1].coro is hc_coro and cio.handler is created[1] and len(waited) >= 1 and waited[0] == [created[1]])
        expect = {"none": [], "server_open": [t1], "server_opening_and_open": [t1, t2], "client_entry_still_there": [created[1]] if len(created) == 2 else []}[remaining]
        i = log.index("ClientDisconnectedHook") if "ClientDisconnectedHook" in log else -1
        vc.ensure("after_disconnect.every_remaining_handler_cancelled", And(*[t.cancel_requests == 1 for t in expect]) if expect else True)
        vc.ensure("after_disconnect.every_remaining_handler_awaited", (waited[1:] == [expect]) if expect else len(waited) == 1)
        vc.ensure("after_disconnect.order", log[i + 1:] == (["wait"] if expect else []))


# =============================================================================================
# T2: the real ConnectionHandler under a real (deterministic, no wall-clock) asyncio loop with fake streams;
# faults are injected at every await position of a canonical exchange

class _T2Env:
    """One in-process run. Instrumented await positions call `await env.reach(label)`; when the chosen position is reached
    the fault is performed and the reaching task stays suspended there for a few loop turns, so that a cancellation caused by
    the fault is delivered at exactly that await."""

    def __init__(self, faults, connect_fail=(), refuse=False, redirect_to=None):
        self.redirect_to = redirect_to    # an addon rewrites data.server.address to this in every server_connect hook
        self.faults = dict(faults)        # label -> fault kind
        self.connect_fail = set(connect_fail)
        self.refuse = refuse
        self.trace, self.done_labels, self.hooks, self.layer_events = [], [], [], []
        self.cancelled_at = {}            # key -> label at which CancelledError surfaced
        self.counts = {}
        self.writers = []                 # every fake socket ever created
        self.max_open = {}
        self.readers = {}
        self.fired = []
        self.activity = 0
        self.servers = {}
        self.h = None

    def label(self, base):
        n = self.counts.get(base, 0)
        self.counts[base] = n + 1
        return base if n == 0 else f"{base}#{n}"

    async def reach(self, base, key=None):
        import asyncio
        lab = self.label(base)
        self.trace.append(lab)
        self.activity += 1
        try:
            if lab in self.faults and lab not in self.fired:
                self.fired.append(lab)
                self.do_fault(self.faults[lab])
                for _ in range(6):
                    await asyncio.sleep(0)
            else:
                await asyncio.sleep(0)
        except asyncio.CancelledError:
            if key is not None:
                self.cancelled_at.setdefault(key, lab)
            raise
        self.done_labels.append(lab)
        return lab

    def do_fault(self, kind):
        import asyncio
        self.activity += 1
        k, _, arg = kind.partition(":")
        if k == "cancel":             # the layer closes that upstream connection (close_connection -> handler.cancel)
            asyncio.ensure_future(self.h.server_event(_Inject("close", arg)))
        elif k == "client_eof":
            self.readers["client"].q.put_nowait(b"")
        elif k == "client_reset":
            self.readers["client"].q.put_nowait(ConnectionResetError("reset by peer"))
        elif k == "timeout":
            asyncio.ensure_future(self.h.on_timeout())
        elif k == "server_eof":
            if arg in self.readers:
                self.readers[arg].q.put_nowait(b"")
        elif k == "server_reset":
            if arg in self.readers:
                self.readers[arg].q.put_nowait(ConnectionResetError("reset by peer"))
        elif k in ("write_error", "write_timeout", "write_unreachable"):
            for w in self.writers:
                if w.key == arg:
                    w.fail = {"write_error": BrokenPipeError(32, "Broken pipe"), "write_timeout": TimeoutError(110, "Connection timed out"),
                              "write_unreachable": OSError(113, "No route to host")}[k]
        else:
            raise AssertionError(kind)

    def note_open(self):
        per = {}
        for w in self.writers:
            if not w.closed and w.key != "client":
                per[w.addr] = per.get(w.addr, 0) + 1
        for a, n in per.items():
            self.max_open[a] = max(self.max_open.get(a, 0), n)


class _Inject:
    def __init__(self, what, arg):
        self.what, self.arg = what, arg


def _t2_classes():
    import asyncio
    from mitmproxy.proxy import server, events, commands, layer
    from mitmproxy.connection import ConnectionState

    class W:
        def __init__(self, env, key, addr):
            self.env, self.key, self.addr, self.closed, self.fail, self.data, self.eof = env, key, addr, False, False, b"", False
            env.writers.append(self)
            env.note_open()

        def close(self):
            self.closed = True
            self.env.activity += 1

        def is_closing(self):
            return self.closed

        def write(self, d):
            self.data += d
            self.env.activity += 1

        def write_eof(self):
            self.eof = True

        async def drain(self):
            await self.env.reach(f"drain:{self.key}", self.key)
            if self.fail:
                raise self.fail

        def get_extra_info(self, k, d=None):
            return {"peername": (self.addr[0], self.addr[1]), "sockname": ("10.0.0.2", 50000)}.get(k, d)

    class R:
        def __init__(self, env, key):
            self.env, self.key, self.q = env, key, asyncio.Queue()
            env.readers[key] = self

        async def read(self, n):
            await self.env.reach(f"read:{self.key}", self.key)
            x = await self.q.get()
            self.env.activity += 1
            if isinstance(x, BaseException):
                raise x
            return x

    class ScriptLayer:
        """A multiplexing layer reduced to its connection management: opens all upstreams at Start (concurrently, like
        HTTP/2 streams do), relays, closes everything when the client goes away, closes an upstream when it goes away."""

        def __init__(self, env, context, servers):
            self.env, self.context, self.servers = env, context, servers
            self.completed = {}

        def handle_event(self, event):
            env = self.env
            env.layer_events.append(type(event).__name__ if not isinstance(event, _Inject) else f"inject:{event.what}:{event.arg}")
            client = self.context.client
            if isinstance(event, _Inject):
                yield commands.CloseConnection(env.servers[event.arg])
            elif isinstance(event, events.Start):
                for s in self.servers:
                    yield commands.OpenConnection(s)
            elif isinstance(event, events.OpenConnectionCompleted):
                self.completed[id(event.command.connection)] = event.reply
            elif isinstance(event, events.DataReceived):
                if event.connection is client:
                    for s in self.servers:
                        if s.state & ConnectionState.CAN_WRITE:
                            yield commands.SendData(s, event.data)
                else:
                    yield commands.SendData(client, event.data)
            elif isinstance(event, events.ConnectionClosed):
                if event.connection is client:
                    for s in self.servers:
                        yield commands.CloseConnection(s)
                    yield commands.CloseConnection(client)
                else:
                    yield commands.CloseConnection(event.connection)

    class H(server.ConnectionHandler):
        env = None

        async def handle_hook(self, hook):
            env = self.env
            (data,) = hook.args()
            srv = getattr(data, "server", None)
            key = "client"
            if srv is not None and hasattr(data, "client"):
                if not [k for k, s in env.servers.items() if s is srv]:
                    env.servers[f"s{len(env.servers) + 1}"] = srv      # a connection created by a real layer
                key = [k for k, s in env.servers.items() if s is srv][0]
            if hook.name == "next_layer":
                from mitmproxy.proxy import layers
                from mitmproxy.proxy.layers.http import HTTPMode
                data.layer = layers.HttpLayer(data.context, HTTPMode.regular)
            if hook.name == "client_connected" and env.refuse:
                data.error = "refused by block_global"
            if hook.name == "server_connect" and env.redirect_to is not None:
                data.server.address = env.redirect_to
            env.hooks.append((hook.name, key))
            await env.reach(f"hook:{hook.name}:{key}", key)

    return W, R, ScriptLayer, H


def _t2_run(addrs, faults=(), connect_fail=(), refuse=False, script=("client_data", "server_data", "client_eof"), http=False, redirect_to=None):
    """Run one exchange on the real handler. addrs: upstream addresses, in the order the layer opens them.
    http=True: the handler keeps its real NextLayer -> real HttpLayer (regular proxy mode); the client sends one GET."""
    import asyncio
    from mitmproxy.proxy import server, context
    from mitmproxy.connection import Server
    from props import sansio
    W, R, ScriptLayer, H = _t2_classes()
    env = _T2Env(faults, connect_fail, refuse, redirect_to)
    res = {}

    async def settle(limit=400):
        quiet, last = 0, -1
        for _ in range(limit):
            await asyncio.sleep(0)
            if env.activity == last:
                quiet += 1
                if quiet >= 12:
                    return
            else:
                quiet, last = 0, env.activity

    async def main():
        opts = _T2_OPTS[0] if _T2_OPTS else _T2_OPTS.append(sansio.make_options()) or _T2_OPTS[0]
        client = sansio.make_client()
        ctx = context.Context(client, opts)
        h = H(ctx)
        h.env = env
        env.h = h
        for i, a in enumerate(addrs):
            env.servers[f"s{i + 1}"] = Server(address=a)
        servers = list(env.servers.values())
        if http:
            from mitmproxy.proxy import mode_specs
            client.proxy_mode = mode_specs.ProxyMode.parse("regular")
            env.servers.clear()
        else:
            h.layer = ScriptLayer(env, ctx, servers)
        cr, cw = R(env, "client"), W(env, "client", ("127.0.0.1", 51234))
        h.transports[client] = server.ConnectionIO(handler=None, reader=cr, writer=cw)

        async def fake_open(host, port, local_addr=None):
            me = asyncio.current_task()
            key = [k for k, s in env.servers.items() if s in h.transports and h.transports[s].handler is me][0]
            await env.reach(f"connect:{key}", key)
            if key in env.connect_fail:
                raise ConnectionRefusedError(f"connect to {host} refused")
            return R(env, key), W(env, key, (host, port))

        orig = asyncio.open_connection
        asyncio.open_connection = fake_open
        try:
            t = asyncio.ensure_future(h.handle_client())
            await settle()
            for step in script:
                if t.done():
                    break
                if step == "client_data":
                    cr.q.put_nowait(b"GET http://example.com/ HTTP/1.1\r\nHost: example.com\r\n\r\n" if http else b"ping")
                elif step == "server_data":
                    for k, r in list(env.readers.items()):
                        if k != "client":
                            r.q.put_nowait(b"HTTP/1.1 200 OK\r\nContent-Length: 2\r\n\r\nok" if http else b"pong-" + k.encode())
                elif step == "client_eof":
                    cr.q.put_nowait(b"")
                env.activity += 1
                await settle()
            res["needed_timeout"] = False
            if not t.done():
                # last legitimate environment event: the inactivity timeout
                res["needed_timeout"] = True
                await h.on_timeout()
                await settle()
            res["hang"] = not t.done()
            if not t.done():
                t.cancel()
                await settle()
            res["crash"] = None if t.cancelled() or not t.done() or t.exception() is None else repr(t.exception())
            await settle()
            res["pending_tasks"] = sorted(x.get_coro().__qualname__ for x in asyncio.all_tasks() if x is not asyncio.current_task() and not x.done())
            for x in asyncio.all_tasks():
                if x is not asyncio.current_task():
                    x.cancel()
            await settle(50)
        finally:
            asyncio.open_connection = orig
        res["transports"] = [(("client" if c is client else ([k for k, s in env.servers.items() if s is c] or ["upstream-without-hooks"])[0]), io.writer is not None and not io.writer.closed, io.handler is not None and not io.handler.done()) for c, io in h.transports.items()]
        res["states"] = {k: s.state for k, s in env.servers.items()}

    import logging
    logging.disable(logging.CRITICAL)
    try:
        asyncio.run(main())
    finally:
        logging.disable(logging.NOTSET)
    res["env"] = env
    return res


_T2_OPTS = []


def _t2_check(b, res, inp, expect_started=True):
    """The statement's clauses evaluated on one finished run."""
    env = res["env"]
    hooks = env.hooks
    if res["hang"]:
        b.fail("t2.handle_client_terminates", inp, f"trace tail {env.trace[-6:]}")
    if res["crash"]:
        b.fail("t2.handle_client_no_exception", inp, res["crash"])
    names = [n for n, k in hooks if k == "client"]
    if names.count("client_connected") != 1 or names.count("client_disconnected") != 1 or hooks[0][0] != "client_connected" or names.index("client_connected") > names.index("client_disconnected"):
        b.fail("t2.client_hooks_pair_up", inp, str(hooks))
    for key in env.servers:
        ns = [n for n, k in hooks if k == key]
        last = [l for l in env.trace if l.endswith(":" + key) or (":" + key + "#") in l]
        at = env.cancelled_at.get(key)
        # class predicates of the recorded findings (narrow): where was the open_connection task when it was cancelled
        kf1 = ns == ["server_connect"] and (at == f"hook:server_connect:{key}" or (at is None and last[-1:] == [f"hook:server_connect:{key}"]))
        kf2 = "server_connected" in ns and at == f"hook:server_connected:{key}"
        if ns.count("server_connect") > 1:
            b.fail("t2.server_connect_at_most_once", inp, str(ns))
        if ns and ns[0] != "server_connect":
            b.fail("t2.server_hooks_start_with_connect", inp, str(ns))
        if "server_connect" in ns and ns.count("server_connected") + ns.count("server_connect_error") != 1:
            b.fail("t2.connect_then_exactly_one_outcome" + ("[KF-C09-1]" if kf1 else ""), inp, f"{key}: {ns} cancelled at {at}")
        ok = ns.count("server_connected")
        if ns.count("server_disconnected") != ok or (ok and ns.index("server_connected") > ns.index("server_disconnected")):
            b.fail("t2.connected_then_exactly_one_disconnected" + ("[KF-C09-2]" if kf2 else ""), inp, f"{key}: {ns} cancelled at {at}")
        leaked = [w for w in env.writers if w.key == key and not w.closed]
        if leaked:
            b.fail("t2.no_open_socket_after_client_disconnected" + ("[KF-C09-2]" if kf2 else ""), inp, f"{key}: writer never closed; hooks {ns}")
    if [w for w in env.writers if w.key == "client" and not w.closed]:
        b.fail("t2.client_socket_closed", inp, "client writer open after handle_client returned")
    if res["pending_tasks"]:
        b.fail("t2.no_task_left_running", inp, str(res["pending_tasks"]))
    live = [t for t in res["transports"] if t[1] or t[2]]
    if live and not any(t[1] for t in live if ("server_connected", t[0]) in hooks and env.cancelled_at.get(t[0]) == f"hook:server_connected:{t[0]}"):
        b.fail("t2.no_live_transport_after_client_disconnected", inp, str(res["transports"]))
    for a, n in env.max_open.items():
        if n > 5:
            b.fail("t2.at_most_five_open_per_address", inp, f"{a}: {n} open at the same time")
    started = "Start" in env.layer_events
    if expect_started is not None and started != expect_started:
        b.fail("t2.refused_client_never_reaches_layer" if not expect_started else "t2.accepted_client_is_started", inp, str(env.layer_events[:4]))


def bounded(tier, seed):
    import itertools
    import random
    b = Bounded()
    b.rule = ("real ConnectionHandler (handle_client/open_connection/handle_connection/server_event/close_connection/drain_writers/on_timeout) under a real asyncio loop, fake "
              "stream readers/writers, asyncio.open_connection replaced, a scripted multiplexing layer opening 1-2 upstream connections (same or different address); canonical exchange "
              "open -> client data -> server data -> client EOF; at EVERY await position of the canonical run (hooks, connect, read, drain) one fault of {layer closes upstream i (cancel), client EOF, client reset, "
              "inactivity timeout, upstream EOF/reset, write error {EPIPE, ETIMEDOUT (TimeoutError), EHOSTUNREACH (plain OSError)} on client/upstream} is injected (plus ordered pairs of faults at two positions, subsampled by the seed: 500 per configuration, thorough 30000), x connect refusal per upstream; "
              "plus: real HttpLayer exchange with an addon blocking in each hook and the client leaving; refused client; 7 concurrent connections to one address with cancellation while waiting for the semaphore; 7 connections to distinct origins that an addon redirects to one address in server_connect (bound applies to the address connected to). "
              "checked: hook pairing per connection, no unclosed socket / running task / live transport after handle_client returns, <= 5 open per address, termination, refused => no Start. "
              "distinct = (upstreams, connect failures, faults); non-trivial = a fault fired")
    b.bound = "<= 2 upstream connections per exchange (7 in the semaphore family), <= 2 faults per run (single faults exhaustive over positions x kinds, pairs sampled)"
    b.exhaustive = False
    rnd = random.Random(seed)
    A1, A2 = ("example.com", 443), ("other.example", 80)
    configs = [((A1,), ()), ((A1,), ("s1",)), ((A1, A1), ()), ((A1, A2), ()), ((A1, A1), ("s2",)), ((A1, A2), ("s1",))]
    for addrs, cf in configs:
        base = _t2_run(addrs, connect_fail=cf)
        inp0 = {"upstreams": [list(a) for a in addrs], "connect_refused": list(cf), "faults": {}}
        b.case(("base", addrs, cf), nontrivial=True)
        _t2_check(b, base, inp0)
        positions = list(dict.fromkeys(base["env"].trace))
        keys = [f"s{i + 1}" for i in range(len(addrs))]
        kinds = ["client_eof", "client_reset", "timeout", "write_error:client", "write_timeout:client", "write_unreachable:client"] + [
            f"{k}:{key}" for key in keys for k in ("cancel", "server_eof", "server_reset", "write_error", "write_timeout", "write_unreachable")]
        singles = [(p, k) for p in positions for k in kinds]
        for p, k in singles:
            res = _t2_run(addrs, faults={p: k}, connect_fail=cf)
            b.case((addrs, cf, p, k), nontrivial=bool(res["env"].fired))
            _t2_check(b, res, dict(inp0, faults={p: k}))
        if True:
            pairs = [(s1, s2) for s1 in singles for s2 in singles if s1[0] != s2[0]]
            rnd.shuffle(pairs)
            for (p1, k1), (p2, k2) in pairs[:30000 if tier == "thorough" else 500]:
                res = _t2_run(addrs, faults={p1: k1, p2: k2}, connect_fail=cf)
                b.case((addrs, cf, p1, k1, p2, k2), nontrivial=len(res["env"].fired) == 2)
                _t2_check(b, res, dict(inp0, faults={p1: k1, p2: k2}))
    # the real NextLayer/HttpLayer stack: one proxied GET, faults at every await position incl. every HTTP hook
    base = _t2_run((), http=True)
    b.case(("http", "base"), nontrivial=True)
    _t2_check(b, base, {"layer": "real HttpLayer, regular mode, GET http://example.com/", "faults": {}}, expect_started=None)
    if ("response", "client") not in base["env"].hooks or b"200 OK" not in base["env"].writers[0].data:
        b.fail("t2.http_family_completes_an_exchange", {"layer": "real HttpLayer"}, str(base["env"].hooks))
    for p in dict.fromkeys(base["env"].trace):
        for k in ("client_eof", "client_reset", "timeout", "write_error:client", "write_timeout:client", "server_eof:s1", "server_reset:s1", "write_error:s1", "write_timeout:s1", "write_unreachable:s1"):
            res = _t2_run((), faults={p: k}, http=True)
            b.case(("http", p, k), nontrivial=bool(res["env"].fired))
            _t2_check(b, res, {"layer": "real HttpLayer, regular mode, GET http://example.com/", "faults": {p: k}}, expect_started=None)
    # refused clients never reach the layer
    for addrs in ((A1,), (A1, A2)):
        res = _t2_run(addrs, refuse=True)
        b.case(("refused", addrs), nontrivial=True)
        _t2_check(b, res, {"refused": True, "upstreams": [list(a) for a in addrs]}, expect_started=False)
        if res["env"].hooks != [("client_connected", "client"), ("client_disconnected", "client")]:
            b.fail("t2.refused_client_hooks", {"refused": True}, str(res["env"].hooks))
    # per-address bound: 7 connection attempts to one address, two wait in the semaphore; cancel the waiting / the open ones
    seven = (A1,) * 7
    base = _t2_run(seven, script=("client_data",))
    b.case(("seven", "base"), nontrivial=True)
    _t2_check(b, base, {"upstreams": "7 x example.com:443", "faults": {}})
    if base["env"].max_open.get(A1, 0) != 5:
        b.fail("t2.semaphore_family_reaches_the_bound", {"upstreams": "7 x example.com:443"}, f"max open {base['env'].max_open}")
    for victim in ("s1", "s6", "s7"):
        for at in ("read:s5", "hook:server_connected:s5", "read:client#1"):
            res = _t2_run(seven, faults={at: f"cancel:{victim}"}, script=("client_data", "client_eof"))
            b.case(("seven", victim, at), nontrivial=bool(res["env"].fired))
            _t2_check(b, res, {"upstreams": "7 x example.com:443", "faults": {at: f"cancel:{victim}"}})
    # the bound is per address *actually connected to*: an addon redirects connections to distinct origins to one address in server_connect
    origins = tuple((f"origin{i}.example", 443) for i in range(7))
    TARGET = ("one-backend.example", 8443)
    for label, addrs in (("7 distinct origins", origins), ("4 origins + 3 x the target itself", origins[:4] + (TARGET,) * 3)):
        desc = {"upstreams": label, "server_connect_hook_redirects_to": list(TARGET)}
        base = _t2_run(addrs, script=("client_data",), redirect_to=TARGET)
        b.case(("redirected", label, "base"), nontrivial=True)
        _t2_check(b, base, dict(desc, faults={}))
        if base["env"].max_open.get(TARGET, 0) != 5 or [a for a in base["env"].max_open if a != TARGET]:
            b.fail("t2.redirected_family_reaches_the_bound_at_the_target_only", desc, f"max open {base['env'].max_open}")
        for victim in ("s1", "s6", "s7"):
            for at in ("read:s5", "hook:server_connected:s5", "read:client#1", "hook:server_connect:s7"):
                res = _t2_run(addrs, faults={at: f"cancel:{victim}"}, script=("client_data", "client_eof"), redirect_to=TARGET)
                b.case(("redirected", label, victim, at), nontrivial=bool(res["env"].fired))
                _t2_check(b, res, dict(desc, faults={at: f"cancel:{victim}"}))
    # two connections rewritten to the same address, every single fault
    for addrs in ((A1, A2),):
        base = _t2_run(addrs, redirect_to=TARGET)
        _t2_check(b, base, {"upstreams": [list(a) for a in addrs], "server_connect_hook_redirects_to": list(TARGET), "faults": {}})
        b.case(("redirected2", "base"), nontrivial=True)
        for p in dict.fromkeys(base["env"].trace):
            for k in ("client_eof", "timeout", "cancel:s1", "cancel:s2", "server_eof:s1", "write_timeout:s2"):
                res = _t2_run(addrs, faults={p: k}, redirect_to=TARGET)
                b.case(("redirected2", p, k), nontrivial=bool(res["env"].fired))
                _t2_check(b, res, {"upstreams": [list(a) for a in addrs], "server_connect_hook_redirects_to": list(TARGET), "faults": {p: k}})
    return b
