"""C02 — HTTP/1 behaviour does not depend on TCP segmentation or pipelining.

T1: contracts on mitmproxy's own glue around h11 (Http1Connection._handle_event, wait, mark_done, read_headers' "incomplete
    head" case, the stream-id discipline of Http1Server.send).  Together with h11's prefix-deterministic buffer/readers
    (trusted) and the generic induction L-SEG (DESIGN §5.1) they give segmentation independence.
T2: the real HttpLayer, sans-io: every segmentation with <= 2 cuts, the 1-byte segmentation and whole delivery of client
    and server streams, and client/server interleavings, must give the same flows, hook sequence and (as read by the
    reference reader of props/http1ref.py) the same messages per connection as whole-stream delivery; responses are
    checked to be matched to their own requests.
"""
from pyvc.api import *
from props.prelude import *

CLAIM = "other"
EXPLANATION = ("T1 proves mitmproxy's glue: bytes are appended to the buffer exactly when the connection is not in passthrough, a connection that waits for "
               "the current flow neither parses nor drops pipelined bytes, mark_done re-dispatches buffered bytes exactly once and advances the stream id by 2, "
               "an incomplete head is a no-op (obligation N of L-SEG), responses can only be written for the current stream id. Prefix determinism of the parsing "
               "step itself is h11's (trusted), so segmentation independence as a whole is proved relative to h11 and additionally checked bounded (T2) on the "
               "real HttpLayer for all segmentations with <= 2 cuts, 1-byte delivery and client/server interleavings.")
ASSUMPTIONS = [
    "h11.ReceiveBuffer is replaced in T1 by a stub (props/C02.py:BufModel) with the trusted contract: += appends; maybe_extract_lines() either returns None and leaves the data unchanged or removes a prefix and returns its lines; truthiness = non-empty",
    "h11's readers / maybe_extract_lines are prefix-deterministic (obligations P and M of L-SEG for the parsing step): trusted, exercised by T2",
    "L-SEG (induction over the number of segments from N, P, M) is a paper lemma (DESIGN §5.1)",
    "state functions, send, make_pipe, expected_http_body_size and connection_close are replaced by ghost items / symbolic results where a contract only concerns the dispatching code; they have their own contracts (C01) or are exercised in T2",
]

H1 = "mitmproxy.proxy.layers.http._http1:"
H1C = H1 + "Http1Connection"
H1S = H1 + "Http1Server"
H1CL = H1 + "Http1Client"
EVT = "mitmproxy.proxy.layers.http._events:"
STATES = ["start", "read_headers", "read_body", "wait", "done", "passthrough"]


class BufModel:
    """stand-in for h11.ReceiveBuffer (trusted contract, see ASSUMPTIONS)"""

    def __init__(self, data, lines=None, head_len=0):
        self._data = data
        self.lines = lines
        self.head_len = head_len
        self.extract_calls = 0

    def __iadd__(self, b):
        self._data = self._data + b
        return self

    def __bool__(self):
        return len(self._data) > 0

    def __len__(self):
        return len(self._data)

    def __bytes__(self):
        return self._data

    def maybe_extract_lines(self):
        self.extract_calls = self.extract_calls + 1
        if self.lines is None:
            return None
        r = self.lines
        self._data = self._data[self.head_len:]
        self.lines = None          # scripted answer for the first call only; afterwards: "no complete head"
        return r

    def maybe_extract_at_most(self, n):
        out = self._data[:n]
        if not out:
            return None
        self._data = self._data[n:]
        return out


def mk_conn(vc, cls, state, buf, stream_id=1, request=None, response=None, request_done=False, response_done=False, cstate=None):
    from mitmproxy.connection import ConnectionState
    client = mk_client(vc, state=cstate if cstate is not None else ConnectionState.OPEN)
    server = mk_server(vc, state=ConnectionState.OPEN)
    ctx = mk_context(vc, client, server, mk_options(vc, validate_inbound_headers=True))
    conn = client if cls == H1S else server
    o = vc.new(cls, context=ctx, conn=conn, stream_id=stream_id, request=request, response=response, request_done=request_done,
               response_done=response_done, buf=buf, debug=None, _paused=None, _paused_event_queue=None)
    o.state = vc.bound(o, cls + "." + state)
    return o, conn, client, server


def ghost_states(vc, cls):
    """every state function is replaced by a ghost item recording (state name, event)"""
    for st in STATES:
        def g(v, self_, event, _st=st):
            return v.gen([v.ghost("state", _st, event)])
        for owner in (cls, H1C):
            try:
                vc.summary(owner + "." + st, g)
            except Exception:
                pass


def is_ghost(c, tag):
    if isinstance(c, STuple):
        return c.items[0].concrete() == tag
    return isinstance(c, tuple) and len(c) > 0 and c[0] == tag


def gitem(c, i):
    x = c.items[i] if isinstance(c, STuple) else c[i]
    return x.concrete() if isinstance(x, SStr) else x


class _StateName:
    """name of the state function o.state is bound to; natively the state functions may be patched by summaries, so the
    comparison is done against the object's own attribute (bound-method equality)"""

    def __init__(self, vc, o):
        self.vc, self.o = vc, o

    def __eq__(self, name):
        v = self.o.state
        if self.vc.mode == "sym":
            return hasattr(v, "func") and v.func.qualname.split(".")[-1] == name
        return v == getattr(self.o, name)


def state_name(vc, o):
    return _StateName(vc, o)


def buf_data(vc, buf):
    return buf._data


@scenario("handle_event.data", functions=[H1C + "._handle_event"])
def s_handle_data(vc):
    cls = vc.case("side", [H1S, H1CL])
    st = vc.case("state", ["read_headers", "read_body", "wait", "done", "passthrough"])
    old, data = vc.sym_bytes("buffered"), vc.sym_bytes("data")
    buf = vc.construct("props.C02:BufModel", old)
    ghost_states(vc, cls)
    o, conn, client, server = mk_conn(vc, cls, st, buf)
    ev = vc.new("mitmproxy.proxy.events:DataReceived", connection=conn, data=data)
    out = vc.call(H1C + "._handle_event", o, ev)
    vc.ensure("no_exception", out.ok)
    if not out.ok:
        return
    tr = out.trace
    vc.ensure("state_function_runs_once_with_the_event", len(tr) == 1 and is_ghost(tr[0], "state") and gitem(tr[0], 1) == st and gitem(tr[0], 2) is ev)
    if st == "passthrough":
        vc.ensure("passthrough.buffer_untouched", buf_data(vc, o.buf) == old)
    else:
        vc.ensure("bytes_appended_in_order", buf_data(vc, o.buf) == old + data)
    vc.ensure("same_buffer_object", o.buf is buf)
    vc.ensure("state_unchanged_by_dispatch", state_name(vc, o) == st)


@scenario("handle_event.http_event", functions=[H1C + "._handle_event"])
def s_handle_http(vc):
    cls = vc.case("side", [H1S, H1CL])
    old = vc.sym_bytes("buffered")
    buf = vc.construct("props.C02:BufModel", old)
    o, conn, client, server = mk_conn(vc, cls, "wait", buf)
    sent = []

    def send(v, self_, event):
        sent.append(event)
        return v.gen([v.ghost("send", event)])

    vc.summary(cls + ".send", send)
    ev = vc.new(EVT + ("ResponseData" if cls == H1S else "RequestData"), stream_id=1, data=vc.sym_bytes("data"))
    out = vc.call(H1C + "._handle_event", o, ev)
    vc.ensure("no_exception", out.ok)
    vc.ensure("goes_to_send_only", len(out.trace) == 1 and is_ghost(out.trace[0], "send") and len(sent) == 1 and sent[0] is ev)
    vc.ensure("buffer_untouched", buf_data(vc, o.buf) == old)


@scenario("wait", functions=[H1C + ".wait"])
def s_wait(vc):
    from mitmproxy.proxy.layers.http._events import ErrorCode
    cls = vc.case("side", [H1S, H1CL])
    kind = vc.case("event", ["data", "close"])
    old = vc.sym_bytes("buffered")
    cstate = conn_state(vc, "cstate")
    buf = vc.construct("props.C02:BufModel", old)
    o, conn, client, server = mk_conn(vc, cls, "wait", buf, cstate=cstate if cls == H1S else None)
    if kind == "data":
        ev = vc.new("mitmproxy.proxy.events:DataReceived", connection=conn, data=vc.sym_bytes("data"))
    else:
        ev = vc.new("mitmproxy.proxy.events:ConnectionClosed", connection=conn)
    out = vc.call(H1C + ".wait", o, ev)
    vc.ensure("no_exception", out.ok)
    if not out.ok:
        return
    tr = out.trace
    vc.ensure("buffer_kept", buf_data(vc, o.buf) == old)   # pipelined bytes are neither parsed nor dropped while a flow is in progress
    vc.ensure("still_waiting", state_name(vc, o) == "wait")
    vc.ensure("no_parsing", o.buf.extract_calls == 0)
    if kind == "data":
        vc.ensure("data.emits_nothing", len(tr) == 0)
    else:
        kinds = trace_kinds(tr)
        from mitmproxy.connection import ConnectionState
        closed = (conn.state == ConnectionState.CLOSED) if cls == H1S else False
        if cls == H1S and vc.branch(closed):
            vc.ensure("close.trace", kinds == ["ReceiveHttp"])
        else:
            vc.ensure("close.trace", kinds == ["CloseConnection", "ReceiveHttp"])
        last = tr[-1] if tr else None
        ok_shape = last is not None and is_cmd(last, "ReceiveHttp") and is_cmd(last.event, "RequestProtocolError" if cls == H1S else "ResponseProtocolError")
        vc.ensure("close.protocol_error_for_current_stream", vc.eq(last.event.stream_id, 1) if ok_shape else False)
        if last is not None and is_cmd(last, "ReceiveHttp"):
            vc.ensure("close.code", last.event.code == ErrorCode.CLIENT_DISCONNECTED)


@scenario("mark_done", functions=[H1C + ".mark_done", H1S + ".mark_done", H1 + "should_make_pipe"])
def s_mark_done(vc):
    from props.httpstream import mk_request, mk_response
    cls = vc.case("side", [H1S, H1CL])
    which = vc.case("which", ["request", "response"])
    req_done0, resp_done0 = vc.sym_bool("request_done"), vc.sym_bool("response_done")
    old = vc.sym_bytes("buffered")
    status = vc.sym_int("status", lo=100, hi=599)
    method = vc.case("method", [b"GET", b"CONNECT"])
    sid = vc.sym_int("stream_id", lo=1)
    until_close = vc.sym_bool("read_until_eof")
    ebs_raises = vc.sym_bool("ebs_raises")
    close_req, close_resp = vc.sym_bool("request_says_close"), vc.sym_bool("response_says_close")
    buf = vc.construct("props.C02:BufModel", old)
    req, resp = mk_request(vc, method=method), mk_response(vc, status_code=status)
    ghost_states(vc, cls)
    o, conn, client, server = mk_conn(vc, cls, "read_body", buf, stream_id=sid, request=req, response=resp, request_done=req_done0, response_done=resp_done0)

    def ebs(v, request, response=None):
        if v.mode == "sym":
            if v.branch(ebs_raises):
                v.raise_(ValueError, "invalid")
            return If(until_close, -1, 0)
        if ebs_raises:
            raise ValueError("invalid")
        return -1 if until_close else 0

    def cc(v, http_version, headers):
        return close_req if headers is req.data.headers else close_resp

    vc.summary("mitmproxy.net.http.http1.read:expected_http_body_size", ebs)
    vc.summary("mitmproxy.net.http.http1:expected_http_body_size", ebs)
    vc.summary("mitmproxy.net.http.http1.read:connection_close", cc)
    vc.summary("mitmproxy.net.http.http1:connection_close", cc)

    def pipe(v, self_):
        return v.gen([v.ghost("make_pipe")])

    vc.summary(H1C + ".make_pipe", pipe)
    kw = {"request": True} if which == "request" else {"response": True}
    out = vc.call(cls + ".mark_done", o, **kw)
    vc.ensure("no_exception", out.ok)
    if not out.ok:
        return
    tr = out.trace
    req_done = Or(req_done0, which == "request")
    resp_done = Or(resp_done0, which == "response")
    if not vc.branch(And(req_done, resp_done)):
        vc.ensure("partial.emits_nothing", len(tr) == 0)
        vc.ensure("partial.flags", And(vc.eq(o.request_done, req_done), vc.eq(o.response_done, resp_done)))
        vc.ensure("partial.stream_id_kept", vc.eq(o.stream_id, sid))
        vc.ensure("partial.buffer_kept", buf_data(vc, o.buf) == old)
        if cls == H1S and vc.branch(And(req_done, Not(resp_done))):
            vc.ensure("partial.server_waits_for_the_flow", state_name(vc, o) == "wait")   # the next request is not parsed before this flow is done
        else:
            vc.ensure("partial.state_kept", state_name(vc, o) == "read_body")
        return
    pipe_wanted = Or(status == 101, And(status == 200, method == b"CONNECT"))
    if vc.branch(pipe_wanted):
        vc.ensure("pipe.trace", len(tr) == 1 and is_ghost(tr[0], "make_pipe"))
        return
    done = Or(And(Not(ebs_raises), until_close), close_req, close_resp)
    if vc.branch(done):
        vc.ensure("close.trace", trace_kinds(tr) == ["CloseConnection"] and tr[0].connection is conn)
        vc.ensure("close.state_done", state_name(vc, o) == "done")
        return
    # keep-alive: ready for the next message
    vc.ensure("next.flags_cleared", And(vc.eq(o.request_done, False), vc.eq(o.response_done, False)))
    vc.ensure("next.messages_cleared", isnone(o.request) and isnone(o.response))
    if cls == H1S:
        vc.ensure("next.stream_id_plus_2", vc.eq(o.stream_id, sid + 2))
    else:
        vc.ensure("next.stream_id_none", isnone(o.stream_id))
    vc.ensure("next.state_read_headers", state_name(vc, o) == "read_headers")
    vc.ensure("next.buffer_kept", buf_data(vc, o.buf) == old)
    if vc.branch(len_(old) > 0):
        vc.ensure("next.buffered_bytes_redispatched_once", len(tr) == 1 and is_ghost(tr[0], "state") and gitem(tr[0], 1) == "read_headers")
        if len(tr) == 1 and is_ghost(tr[0], "state"):
            e = gitem(tr[0], 2)
            vc.ensure("next.redispatch_is_empty_data_on_this_connection", isa(e, _cls("mitmproxy.proxy.events:DataReceived")) and e.connection is conn and e.data == b"")
    else:
        vc.ensure("next.nothing_to_redispatch", len(tr) == 0)


def _cls(ref):
    from pyvc.vc import resolve_ref
    return resolve_ref(ref)[2]


@scenario("read_headers.incomplete", functions=[H1S + ".read_headers", H1CL + ".read_headers"])
def s_read_headers_incomplete(vc):
    """(N) of L-SEG: while the head is incomplete a DataReceived is a no-op (nothing emitted, buffer and state unchanged)"""
    from props.httpstream import mk_request
    cls = vc.case("side", [H1S, H1CL])
    old = vc.sym_bytes("buffered")
    buf = vc.construct("props.C02:BufModel", old, None, 0)
    o, conn, client, server = mk_conn(vc, cls, "read_headers", buf, request=mk_request(vc) if cls == H1CL else None)
    ev = vc.new("mitmproxy.proxy.events:DataReceived", connection=conn, data=vc.sym_bytes("data"))
    out = vc.call(cls + ".read_headers", o, ev)
    vc.ensure("no_exception", out.ok)
    vc.ensure("emits_nothing", len(out.trace) == 0)
    vc.ensure("buffer_unchanged", buf_data(vc, o.buf) == old)
    vc.ensure("state_unchanged", state_name(vc, o) == "read_headers")
    vc.ensure("asked_the_buffer_once", o.buf.extract_calls == 1)
    vc.ensure("no_message_recorded", isnone(o.response) if cls == H1CL else isnone(o.request))


@scenario("read_headers.blank_line", functions=[H1S + ".read_headers", H1CL + ".read_headers"])
def s_read_headers_blank(vc):
    """(P) of L-SEG for the step read_headers: a step that consumed bytes without producing a message (h11 swallows an empty
    line in front of a start-line and answers []) must be re-run on what is left, otherwise the bytes behind the empty line
    are only looked at when the *next* segment arrives (outcome depends on segmentation; was KF-C02-1, fixed in 26986f611)."""
    from props.httpstream import mk_request
    cls = vc.case("side", [H1S, H1CL])
    rest = vc.sym_bytes("rest")
    vc.assume(len_(rest) > 0)
    buf = vc.construct("props.C02:BufModel", b"\r\n" + rest, [], 2)
    o, conn, client, server = mk_conn(vc, cls, "read_headers", buf, request=mk_request(vc) if cls == H1CL else None)
    ev = vc.new("mitmproxy.proxy.events:DataReceived", connection=conn, data=b"")
    out = vc.call(cls + ".read_headers", o, ev)
    vc.ensure("no_exception", out.ok)
    vc.ensure("empty_line_consumed", buf_data(vc, o.buf) == rest)
    vc.ensure("rest_is_looked_at_in_the_same_step", o.buf.extract_calls >= 2)


@scenario("server_send.stream_id", functions=[H1S + ".send"])
def s_send_order(vc):
    """responses are written on the connection only for the request currently being served"""
    from props.httpstream import mk_request
    buf = vc.construct("props.C02:BufModel", b"")
    cur, evid = vc.sym_int("current", lo=1), vc.sym_int("event_stream", lo=1)
    o, conn, client, server = mk_conn(vc, H1S, "wait", buf, stream_id=cur, request=mk_request(vc))
    ev = vc.new(EVT + "ResponseData", stream_id=evid, data=vc.sym_bytes("data"))
    from props.httpstream import mk_response
    o.response = mk_response(vc)
    out = vc.call(H1S + ".send", o, ev)
    if vc.branch(cur != evid):
        vc.ensure("other_stream.refused", (not out.ok) and issubclass(out.raised_type(), AssertionError))
        vc.ensure("other_stream.nothing_written", len(out.trace) == 0)
    else:
        vc.ensure("current_stream.ok", out.ok)


HTTPL = "mitmproxy.proxy.layers.http:"


@scenario("flow_done.queued_events", functions=[HTTPL + "HttpStream.flow_done"])
def s_flow_done_queue(vc):
    """events that arrived while a hook was pending sit in the layer's paused queue.  For a finished ordinary flow they are
    dropped (nothing may be replayed into a finished stream); for an upgraded flow (101) they are the first octets of the new
    protocol — e.g. when the 101 head and a frame came in one segment — and must still be there when passthrough starts."""
    from props import httpstream as HS_
    status = vc.case("status", [101, 200])
    kind = vc.case("upgrade", ["websocket", "rawtcp"]) if status == 101 else "none"
    data = vc.sym_bytes("frame")
    queued = HS_.ev(vc, "ResponseData", data=data)
    req, resp = HS_.mk_request(vc), HS_.mk_response(vc, status_code=status, content=b"")
    ws = vc.new("mitmproxy.websocket:WebSocketData", messages=vc.list([]), closed_by_client=None, close_code=None, close_reason=None, timestamp_end=None) if kind == "websocket" else None
    st, flow, client, server = HS_.mk_stream(vc, "state_done", "state_done", request=req, response=resp, queue=[queued], rawtcp=True)
    flow.websocket = ws
    started = []

    def child_event(v, self_, event):
        started.append((self_, event))
        return v.gen([v.ghost("child_event", self_, event)])

    vc.summary("mitmproxy.proxy.layer:Layer.handle_event", child_event)
    out = vc.call(HTTPL + "HttpStream.flow_done", st)
    vc.ensure("no_exception", out.ok)
    if not out.ok:
        return
    q = st._paused_event_queue
    items = list(q.fields["_items"].items) if isinstance(q, SObj) else list(q)
    if status == 101:
        vc.ensure("upgrade.queued_octets_kept", len(items) == 1 and items[0] is queued)
        vc.ensure("upgrade.child_layer_started", len(started) == 1 and st.child_layer is not None and not isnone(st.child_layer))
        vc.ensure("upgrade.passthrough", HS_.fields_of(vc, st).get("_handle_event") is not None)
    else:
        vc.ensure("finished.queue_dropped", len(items) == 0)
        vc.ensure("finished.stream_dropped", any(is_cmd(c, "DropStream") for c in out.trace))
        vc.ensure("finished.flow_not_live", vc.eq(flow.live, False))
    sends = [c for c in out.trace if HS_.is_send(c, "ResponseEndOfMessage", client)]
    vc.ensure("end_of_message_to_client_last", len(sends) == 1 and out.trace[-1] is sends[0])


# =====================================================================================================================
# T2 (bounded)

def outcome(ex, n_requests):
    """what must not depend on how the streams were cut: flows (as seen by the hooks), hook order, the messages each peer
    receives (read by the reference reader), and which connections mitmproxy closed"""
    from props import http1ref as R
    if ex.error:
        return ("error", ex.error.splitlines()[0])
    ups = []
    for i, s in enumerate(ex.servers):
        r = R.read_stream(ex.to_server(i), True, ex.closed(s) is not None)
        ups.append((r["state"], tuple(m.key() for m in r["messages"]), ex.closed(s)))
    ctx = []
    for f in ex.flows:
        m = f.snaps["requestheaders"].method if "requestheaders" in f.snaps else b"GET"
        ctx.append(m if "response" in f.hooks else b"GET")
    d = R.read_stream(ex.to_client(), False, ex.closed(ex.client) is not None, ctx + [b"GET"])
    down = (d["state"], tuple(m.key() for m in d["messages"]), d["rest"] if d["state"] != "clean" else b"")
    flows = tuple((tuple(f.hooks), repr(f.snaps.get("request")), repr(f.snaps.get("response")), f.error) for f in ex.flows)
    return (tuple(ex.hook_seq), flows, tuple(ups), down, ex.closed(ex.client), tuple(ex.tunnel_data and [b"".join(x for _, x in ex.tunnel_data)] or []))


def responder(label):
    """origin server behaviour: the response names the request it answers"""
    def r(req):
        tag = b"resp-for:" + req.target
        if label == "cl":
            return (b"HTTP/1.1 200 OK\r\nContent-Length: " + b"%d" % len(tag) + b"\r\n\r\n" + tag, False)
        if label == "chunked":
            return (b"HTTP/1.1 200 OK\r\nTransfer-Encoding: chunked\r\n\r\n" + b"%x" % len(tag) + b"\r\n" + tag + b"\r\n0\r\n\r\n", False)
        if label == "close":
            return (b"HTTP/1.1 200 OK\r\n\r\n" + tag, True)
        if label == "204":
            return (b"HTTP/1.1 204 No Content\r\nX-For: " + req.target + b"\r\n\r\n", False)
        if label == "upgrade-tcp":
            # 101 head and the first octets of the new protocol, as one piece of the server stream
            return (b"HTTP/1.1 101 Switching Protocols\r\nUpgrade: foo\r\nConnection: Upgrade\r\n\r\n" + b"first-bytes-of-foo", False)
        if label == "upgrade-ws":
            return (b"HTTP/1.1 101 Switching Protocols\r\nUpgrade: websocket\r\nConnection: Upgrade\r\nSec-WebSocket-Accept: x\r\n\r\n" + b"\x81\x05hello" + b"\x81\x02ok", False)
        raise ValueError(label)
    return r


def c02_streams(tier):
    from props.C01 import mk_request, chunked, REQ_FRAMINGS, SMUGGLE
    fr = {lab: (lines, body) for lab, lines, body in REQ_FRAMINGS}

    def rq(i, lab, method=b"POST", pre=b""):
        lines, body = fr[lab]
        return pre + mk_request(method, target=b"http://example.com/r%d" % i, lines=lines, body=body)

    streams = [
        ("get", [rq(0, "none", b"GET")]),
        ("post-cl", [rq(0, "cl3")]),
        ("post-chunked", [rq(0, "te-chunked-2")]),
        ("post-chunked-ext", [rq(0, "te-chunked-ext")]),
        ("head", [rq(0, "none", b"HEAD")]),
        ("expect", [rq(0, "expect")]),
        ("reject-te-cl", [rq(0, "te-cl-smuggle")]),
        ("reject-dup-cl", [rq(0, "cl-dup-diff2")]),
        ("pipeline-2", [rq(0, "cl3"), rq(1, "none", b"GET")]),
        ("pipeline-3", [rq(0, "te-chunked"), rq(1, "cl3"), rq(2, "none", b"GET")]),
        ("pipeline-reject-2nd", [rq(0, "cl3"), rq(1, "cl-te-smuggle")]),
        ("leading-crlf", [rq(0, "none", b"GET", pre=b"\r\n")]),
        ("crlf-between", [rq(0, "cl3"), rq(1, "none", b"GET", pre=b"\r\n")]),
        ("lf-head", [mk_request(b"GET", target=b"http://example.com/r0", eol=b"\n")]),
        ("obs-fold", [mk_request(b"GET", target=b"http://example.com/r0", lines=[b"X-A: a", b" b"])]),
        ("bad-request-line", [b"GARBAGE\r\n\r\n"]),
        ("http10", [mk_request(b"GET", target=b"http://example.com/r0", version=b"HTTP/1.0"), rq(1, "none", b"GET")]),
        # protocol upgrades: the octets behind the 101 head belong to the new protocol and must reach the client however the server stream is cut
        ("upgrade-tcp", [mk_request(b"GET", target=b"http://example.com/r0", lines=[b"Connection: Upgrade", b"Upgrade: foo"]), b"client-bytes-of-foo"]),
        ("upgrade-ws", [mk_request(b"GET", target=b"http://example.com/r0", lines=[b"Connection: Upgrade", b"Upgrade: websocket", b"Sec-WebSocket-Version: 13",
                                                                                    b"Sec-WebSocket-Key: dGhlIHNhbXBsZSBub25jZQ=="])]),
    ]
    if tier == "quick":
        return streams
    more = [(f"framing:{lab}", [rq(0, lab), rq(1, "none", b"GET")]) for lab in fr if lab not in ("none", "cl3")]
    return streams + more


def interleavings(a, b):
    """all merges of the sequences 'c'*a and 's'*b"""
    if a == 0:
        yield "s" * b
        return
    if b == 0:
        yield "c" * a
        return
    for rest in interleavings(a - 1, b):
        yield "c" + rest
    for rest in interleavings(a, b - 1):
        yield "s" + rest


def bounded(tier, seed):
    import random
    from props import http1ref as R
    from props import sansio
    b = Bounded()
    rnd = random.Random(seed)
    b.rule = ("client streams (single / pipelined requests: CL, chunked (+extensions), HEAD, Expect, rejected TE+CL and duplicate CL, leading and interspersed CRLF, bare-LF head, "
              "obs-fold, garbage, HTTP/1.0) x origin behaviours (Content-Length, chunked, close-delimited, 204) x {every 1-cut and sampled/all 2-cut segmentations, 1-byte "
              "segments} of the client stream, x {1-cut, 1-byte} segmentations of the server stream, x all client/server interleavings of <= 4+4 segments; each run is compared "
              "with whole-stream delivery; distinct = distinct (stream, origin, segmentation/schedule); non-trivial = a flow was created")
    b.bound = "streams <= 260 bytes, pipelining depth <= 3, 2-cut segmentations: all for streams <= 70 bytes in the thorough tier, 150 (quick) / 1500 (thorough) sampled otherwise"
    origins = ["cl", "chunked", "close", "204"] if tier != "quick" else ["cl", "chunked", "close"]
    for label, raws in c02_streams(tier):
        stream = b"".join(raws)
        for og in ([label] if label.startswith("upgrade") else origins):
            if tier == "quick" and og != "cl" and label not in ("get", "pipeline-2", "post-chunked", "head", "crlf-between") and not label.startswith("upgrade"):
                continue
            mk = lambda: [responder(og)] * (len(raws) + 2)
            base_ex = R.Exchange([stream], mk())
            base = outcome(base_ex, len(raws))
            inp0 = {"stream": stream.decode("latin-1"), "origin": og, "case": label}
            if base[0] == "error":
                b.fail("c02.total", inp0, base[1])
                continue
            # responses matched to their own requests (baseline run)
            _check_matching(b, base_ex, inp0)
            # --- client segmentations
            segsets = [[stream[i:i + 1] for i in range(len(stream))]]
            segsets += [[stream[:i], stream[i:]] for i in range(1, len(stream))]
            two = [(i, j) for i in range(1, len(stream)) for j in range(i + 1, len(stream))]
            if not (tier == "thorough" and len(stream) <= 70):
                rnd.shuffle(two)
                two = two[: (150 if tier == "quick" else 1500)]
            segsets += [[stream[:i], stream[i:j], stream[j:]] for i, j in two]
            for segs in segsets:
                ex = R.Exchange(segs, mk())
                got = outcome(ex, len(raws))
                cuts = [len(x) for x in segs] if len(segs) <= 3 else "1-byte"
                b.case((label, og, "client", str(cuts)), nontrivial=bool(ex.flows))
                if got != base:
                    _report(b, "c02.client_segmentation_independent", dict(inp0, cuts=cuts), base, got, label)
            # --- server segmentations (client stream whole)
            modes = ["bytes", "halves", "thirds"]
            if label.startswith("upgrade"):
                # every single cut of the server stream (in particular: exactly between the 101 head and the new protocol's octets)
                modes += [f"cut@{i}" for i in range(1, 140)]
            for mode in modes:
                if mode.startswith("cut@"):
                    at = int(mode[4:])
                    split = (lambda x, at=at: [x[:at], x[at:]] if at < len(x) else [x])
                else:
                    split = {"bytes": lambda x: [x[i:i + 1] for i in range(len(x))],
                             "halves": lambda x: [x[:len(x) // 2], x[len(x) // 2:]],
                             "thirds": lambda x: [x[:len(x) // 3], x[len(x) // 3:2 * len(x) // 3], x[2 * len(x) // 3:]]}[mode]
                ex = R.Exchange([stream], mk(), server_splitter=split)
                got = outcome(ex, len(raws))
                b.case((label, og, "server", mode), nontrivial=bool(ex.flows))
                if got != base:
                    _report(b, "c02.server_segmentation_independent", dict(inp0, server_split=mode), base, got, label)
            # --- interleavings of client and server segment arrival (<= 2 requests)
            if len(raws) <= 2 and label in ("pipeline-2", "post-cl", "get", "crlf-between", "expect", "post-chunked"):
                csegs = []
                for x in raws:
                    csegs += [x[:len(x) // 2], x[len(x) // 2:]]
                for sched in interleavings(len(csegs), 4):
                    ex = R.Exchange(csegs, mk(), server_splitter=lambda x: [x[:len(x) // 2], x[len(x) // 2:]], schedule=sched)
                    got = outcome(ex, len(raws))
                    b.case((label, og, "schedule", sched), nontrivial=bool(ex.flows))
                    if got != base:
                        _report(b, "c02.interleaving_independent", dict(inp0, schedule=sched), base, got, label)
                    _check_matching(b, ex, dict(inp0, schedule=sched))
    return b


def _report(b, check, inp, base, got, label):
    names = ["hook sequence", "flows", "upstream messages", "downstream messages", "client connection closed", "tunnel data"]
    diff = [n for n, x, y in zip(names, base, got) if x != y] if base[0] != "error" and got[0] != "error" else ["error"]
    b.fail(check, inp, f"differs from whole-stream delivery in: {diff}; whole: {str(base)[:700]} ... this run: {str(got)[:700]}")


def _check_matching(b, ex, inp):
    """each relayed response answers its own request: the origin echoes the request-target, the reference reader pairs the
    i-th response on the client connection with the i-th flow"""
    from props import http1ref as R
    if ex.error:
        return
    ctx = [(f.snaps["requestheaders"].method if "requestheaders" in f.snaps else b"GET") for f in ex.flows]
    d = R.read_stream(ex.to_client(), False, ex.closed(ex.client) is not None, [m if "response" in f.hooks else b"GET" for m, f in zip(ctx, ex.flows)] + [b"GET"])
    k = 0
    for f in ex.flows:
        if "response" not in f.hooks or k >= len(d["messages"]):
            if "response" not in f.hooks and k < len(d["messages"]):
                k += 1  # error page for this flow
            continue
        m = d["messages"][k]
        k += 1
        path = f.snaps["request"].path if "request" in f.snaps else b"?"
        echoed = m.body if m.status == 200 else b"".join(v for n, v in m.fields if n.lower() == b"x-for")
        if m.status in (200, 204) and echoed and not echoed.endswith(path) and f.snaps["requestheaders"].method != b"HEAD":
            b.fail("c02.response_matches_its_request", inp, f"flow for {path!r} got response {m!r}")
        rs = f.snaps.get("response")
        if rs is not None and rs.content and not rs.content.endswith(path) and rs.status_code == 200:
            b.fail("c02.recorded_response_matches_its_request", inp, f"flow for {path!r} recorded response body {rs.content!r}")
