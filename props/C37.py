"""C37 — flow files are crash-consistent.

Record format (tnetstring): DIGITS ":" PAYLOAD TAG with len(PAYLOAD) = int(DIGITS), 1 <= len(DIGITS) <= 12.
"""
from pyvc.api import *

CLAIM = "proof"
ASSUMPTIONS = [
    "binary file objects behave like pyvc.libx_io.FileModel: read(n) = content[pos:pos+n] (short only at EOF) and advances pos; write appends; "
    "flush/close make everything written durable in order (byte-prefix crash model, not an fsync claim)",
    "tnetstring.parse / tnetstring.dumps / Flow.get_state / Flow.from_state / compat.migrate_flow / flowfilter.match are abstracted in C37 "
    "(opaque results; their own contracts are C36/C38/C42): C37 is about record framing, error mapping and the write/flush trace",
    "composition over a whole file (induction over records: load's framing contract at each record boundary + one loop iteration of "
    "FlowReader.stream + one [write(enc), flush] per saved flow + well-formedness of every written record, C36 scenario rdumpq.*) is a "
    "meta-argument; it is cross-checked by T2 at every truncation offset",
    "valid string lemma 'if s[:b] is all digits and 0<=a<b<=len(s) then s[a] is a digit' is supplied to the solver as instances",
    "HAR/JSON input (first byte '{' or BOM + '{') is outside T1 (json.loads); covered by T2 of C36",
    "records are shorter than 10^12 bytes (the reader rejects length prefixes of more than 12 digits)",
]
FM = "pyvc.libx_io:FileModel"
TN = "mitmproxy.io.tnetstring"
EMPTY_MSG = "not a tnetstring: empty file"


def mk_file(vc, content, pos=0):
    return vc.new(FM, content=content, pos=pos, durable=content, ops=vc.list([]), closed=False)


def is_digit_code(c):
    return And(c >= 48, c <= 57)


def parse_summary(calls):
    """tnetstring.parse abstracted: records (tag, payload) and returns an opaque value or raises ValueError
    (its own contract is C36's business; C37 is about framing)."""

    def f(vc, data_type, data):
        data = data if is_sym(data) else bytes(data)
        calls.append((data_type, data))
        return vc.ghost("parsed", data_type, data)

    return f


def sl(vc, x, a, b):
    """x[a:b] for 0 <= a <= b as a plain substring term (contract-side slices; no Python index clamping needed)"""
    if vc.mode == "native":
        return x[a:b]
    from pyvc.core import ssub, simp, _zi
    return type(x)(simp(ssub(x.t, simp(_zi(a)), simp(_zi(b) - _zi(a)))))


def all_digits(b):
    """every byte of b is an ASCII decimal digit (b may be empty)"""
    if is_sym(b):
        import z3
        return SBool(z3.InRe(b.t, z3.Star(z3.Range("0", "9"))))
    return all(48 <= c <= 57 for c in b)


def leading_digits(vc, content, pos):
    """d = number of leading ASCII digits of content[pos:].  Symbolically d is a Skolem constant fixed by its defining
    property (such a d exists and is unique for every string, so this assumption does not restrict content/pos)."""
    if vc.mode == "native":
        d = 0
        while pos + d < len(content) and 48 <= content[pos + d] <= 57:
            d += 1
        return d
    d = vc.sym_int("n_leading_digits", lo=0)
    vc.assume(pos + d <= len_(content))
    vc.assume(all_digits(sl(vc, content, pos, pos + d)))
    vc.assume(Or(pos + d == len_(content), Not(is_digit_code(code_at(content, pos + d)))))
    return d


def digit_prefix_lemma(vc, content, pos, a, b):
    """Valid string lemma, instantiated at the terms a, b (sound for arbitrary integer terms): if content[pos:pos+b] is
    all digits and 0 <= a < b then byte pos+a exists and is a digit."""
    if vc.mode == "native":
        return
    vc.assume(Implies(And(all_digits(sl(vc, content, pos, pos + b)), a >= 0, a < b, pos + b <= len_(content)),
                      is_digit_code(code_at(content, pos + a))))
    vc.note("lemma", "digit-prefix: s[:b] all digits and 0<=a<b<=len(s) => s[a] is a digit (instantiated per term pair)")


def inv_load(vc, seen, content, pos):
    """loop invariant of `while c.isdigit()` in tnetstring.load: data_length is the k <= 12 digits read so far, c is the
    next byte (or b"" at EOF), the file position is just behind c."""

    def inv(it, env, idx):
        fo, dl, c = env["file_handle"], env["data_length"], env["c"]
        k = len_(dl)
        seen.append(k)
        return And(k <= 12, pos + k <= len_(content), dl == sl(vc, content, pos, pos + k), all_digits(dl),
                   c == sl(vc, content, pos + k, pos + k + 1), fo.pos == pos + k + len_(c), fo.content == content, fo.closed == False)  # noqa: E712

    inv.havoc_fields = [lambda it, env: (env["file_handle"], "pos")]
    return inv


@scenario("tnetstring.load.framing", functions=[TN + ":load"], pc_slices=True)
def s_load(vc):
    content = vc.sym_bytes("file_bytes")     # NB: symbol names must differ from the code's local/field names (havoc reuses those)
    pos = vc.sym_int("start", lo=0)
    vc.assume(pos <= len_(content))
    L = len_(content) - pos
    d = leading_digits(vc, content, pos)
    fo = mk_file(vc, content, pos)
    calls = []
    vc.summary(TN + ":parse", parse_summary(calls))
    seen = []
    vc.invariant(TN + ":load", 1, inv_load(vc, seen, content, pos))
    out = vc.call(TN + ":load", fo)
    if vc.mode == "sym" and len(seen) >= 2:
        k = seen[1]
        digit_prefix_lemma(vc, content, pos, k, d)
        digit_prefix_lemma(vc, content, pos, d, k)
    # frame: load only reads
    vc.ensure("frame.content_unchanged", And(fo.content == content, len_(fo.ops) == 0))
    if vc.branch(L == 0):
        vc.ensure("eof.raises_valueerror", (not out.ok) and out.raised_type() is ValueError)
        if not out.ok:
            vc.ensure("eof.message", exc_msg(vc, out.raised) == EMPTY_MSG)
        vc.ensure("eof.no_parse", len(calls) == 0)
        return
    if not out.ok and out.raised_type() is ValueError:
        vc.ensure("nonempty.never_reports_empty_file", exc_msg(vc, out.raised) != EMPTY_MSG)
    if vc.branch(Or(d == 0, d >= 13)):
        # no length prefix / absurdly long prefix: never a value
        vc.ensure("badprefix.raises_valueerror", (not out.ok) and out.raised_type() is ValueError)
        vc.ensure("badprefix.no_parse", len(calls) == 0)
        return
    if vc.branch(L == d):
        # cut inside the length prefix
        vc.ensure("cut_in_prefix.raises_valueerror", (not out.ok) and out.raised_type() is ValueError)
        vc.ensure("cut_in_prefix.no_parse", len(calls) == 0)
        return
    if vc.branch(code_at(content, pos + d) != 58):
        vc.ensure("nocolon.raises_valueerror", (not out.ok) and out.raised_type() is ValueError)
        vc.ensure("nocolon.no_parse", len(calls) == 0)
        return
    n = to_int(vc, sl(vc, content, pos, pos + d))
    if vc.branch(L < d + n + 2):
        # cut inside payload or before the tag byte: proper prefix of a record
        vc.ensure("cut_in_record.raises_indexerror", (not out.ok) and out.raised_type() is IndexError)
        vc.ensure("cut_in_record.no_parse", len(calls) == 0)
        return
    # the whole record lies inside the file
    vc.ensure("complete.returns", out.ok)
    vc.ensure("complete.parse_once", len(calls) == 1)
    if len(calls) != 1 or not out.ok:
        return
    tag, payload = calls[0]
    vc.ensure("complete.payload_exact", payload == sl(vc, content, pos + d + 1, pos + d + 1 + n))
    vc.ensure("complete.payload_full_length", len_(payload) == n)
    vc.ensure("complete.tag", tag == code_at(content, pos + d + 1 + n))
    vc.ensure("complete.pos_after_record", fo.pos == pos + d + n + 2)
    vc.ensure("complete.pos_inside_file", fo.pos <= len_(content))
    vc.ensure("complete.result_is_parse_result", is_parsed(out.result, tag, payload))


def exc_msg(vc, e):
    a = e.args
    return a[0]


def to_int(vc, b):
    """int() of a non-empty ASCII digit string"""
    if vc.mode == "native":
        return int(b)
    import z3
    return SInt(z3.StrToInt(b.t))


def is_parsed(r, tag, payload):
    if isinstance(r, STuple):
        return And(len(r.items) == 3, r.items[0] == "parsed", r.items[1] == tag, r.items[2] == payload)
    return isinstance(r, tuple) and r == ("parsed", tag, payload)


# =============================================================================================
# FlowReader.stream: error mapping and yields, per loop iteration (while True: loop invariant "True": the loop carries no
# state besides the file position, which load's contract above accounts for)

IO = "mitmproxy.io.io"
FRE = "mitmproxy.exceptions:FlowReadException"


def raise_(vc, cls, *args):
    if vc.mode == "native":
        raise cls(*args)
    from pyvc import interp as I
    raise I.PyExc(I.exc_obj(cls, *args))


def _cls(ref):
    from pyvc.vc import resolve_ref
    return resolve_ref(ref)[2]


LOAD_OUTCOMES = ["record_dict", "record_not_a_dict", "eof", "valueerror_truncated", "indexerror_truncated", "typeerror"]


@scenario("FlowReader.stream.iteration", functions=[IO + ":FlowReader.stream", IO + ":FlowReader.peek"], pc_slices=True)
def s_stream(vc):
    content = vc.sym_bytes("file_bytes")
    pos = vc.sym_int("start", lo=0)
    vc.assume(pos <= len_(content))
    rest = sl(vc, content, pos, len_(content))
    # T1 scope: tnetstring flow files (a record starts with a digit). HAR/JSON input ("{" or BOM + "{") is read by
    # json.loads (outside pyvc) and is covered by T2.
    vc.assume(Not(startswith(rest, b"{")))
    vc.assume(Not(startswith(rest, b"\xef\xbb\xbf{")))
    fo = mk_file(vc, content, pos)
    reader = vc.new(IO + ":FlowReader", fo=fo)
    outcome = vc.case("load_outcome", LOAD_OUTCOMES)
    migrate_fails = vc.case("migrate_raises_valueerror", [False, True]) if outcome == "record_dict" else False
    from_state_fails = vc.case("from_state_raises_valueerror", [False, True]) if outcome == "record_dict" and not migrate_fails else False
    other_msg = vc.sym_str("other_msg")           # any ValueError text except the EOF marker
    vc.assume(other_msg != EMPTY_MSG)
    nloads = [0]
    record = vc.dict([("ghost_record", 1)])

    def load_summary(v, fh):
        """tnetstring.load by its contract (scenario tnetstring.load.framing): a parsed record, or ValueError(empty file)
        exactly at EOF, or ValueError(other text)/IndexError inside a truncated record, or an exception of parse."""
        nloads[0] += 1
        if v.mode == "native" and nloads[0] > 1:
            raise ValueError(EMPTY_MSG)          # native replay: terminate the real generator after one iteration
        if outcome == "record_dict":
            return record
        if outcome == "record_not_a_dict":
            return v.list([1])
        if outcome == "eof":
            raise_(v, ValueError, EMPTY_MSG)
        if outcome == "valueerror_truncated":
            raise_(v, ValueError, other_msg)
        if outcome == "indexerror_truncated":
            raise_(v, IndexError, "index out of range")
        raise_(v, TypeError, "unhashable type")

    def migrate_summary(v, data):
        if migrate_fails:
            raise_(v, ValueError, "cannot read files with flow format version")
        return v.ghost("migrated", data)

    def from_state_summary(v, *a):
        if from_state_fails:
            raise_(v, ValueError, "Unknown flow type")
        return v.ghost("flow", a[-1])

    vc.summary(TN + ":load", load_summary)
    vc.summary("mitmproxy.io.compat:migrate_flow", migrate_summary)
    vc.summary("mitmproxy.flow:Flow.from_state", from_state_summary)
    vc.invariant(IO + ":FlowReader.stream", 1, lambda it, env, idx: SBool(True))
    yielded = []

    def on_yield(item):
        yielded.append(item)
        # the only thing ever yielded is the flow built from the record just loaded (never a partial/other object)
        vc.ensure("yield.only_after_complete_record", outcome == "record_dict" and not migrate_fails and not from_state_fails)
        vc.ensure("yield.is_flow_of_loaded_record", is_ghost(item, "flow") and is_ghost(item[1], "migrated") and item[1][1] is record)
        vc.ensure("yield.once_per_record", len(yielded) == 1)

    out = vc.call(IO + ":FlowReader.stream", reader, on_yield=on_yield)
    # reached only when the generator finished (returned or raised) in this iteration
    n_first = len(yielded) if vc.mode == "sym" else 0
    if outcome == "eof":
        vc.ensure("eof.clean_end", out.ok)
        vc.ensure("eof.nothing_yielded", len(yielded) == 0)
    elif outcome == "record_dict" and not migrate_fails and not from_state_fails:
        # (native replay only: second load reports EOF)
        vc.ensure("record.then_eof_clean", out.ok and len(yielded) == 1)
    else:
        # statement: "either ends cleanly or reports a flow-read error" - never any other exception
        vc.ensure("error.clean_end_or_flow_read_exception", out.ok or issubclass(out.raised_type(), _cls(FRE)))
        vc.ensure("error.nothing_yielded", len(yielded) == 0)
    vc.ensure("frame.file_not_written", And(len_(fo.ops) == 0, fo.content == content))


def is_ghost(c, tag):
    if isinstance(c, STuple):
        return c.items[0].concrete() == tag
    return isinstance(c, tuple) and len(c) > 0 and c[0] == tag


# =============================================================================================
# addons/readfile.py::ReadFile.load_flows (async): flows reach the master as they are read, so the complete flows before
# a truncation point are loaded BEFORE the flow-read error of the partial record is reported

RF = "mitmproxy.addons.readfile:ReadFile"


class StubMaster:
    """stand-in for ctx.master: load_flow is an environment awaitable (suspension point)"""

    async def load_flow(self, f):  # pragma: no cover - replaced by a summary
        raise NotImplementedError


class StubFilter:
    """a compiled filter: matches the flows whose ghost attribute `keep` is set"""

    def __call__(self, f):
        return f.keep


def gen_then(vc, items, error):
    """a generator that yields `items` and then ends, or raises `error` (class, message) - FlowReader.stream by its contract"""
    if vc.mode == "native":
        def g():
            for x in items:
                yield x
            if error is not None:
                raise error[0](error[1])
        return g()
    from pyvc import interp as I

    def run(sink):
        for x in items:
            sink(x)
        if error is not None:
            raise I.PyExc(I.exc_obj(error[0], error[1]))
        return NONE

    return I.SGen(run)


@scenario("ReadFile.load_flows", functions=[RF + ".load_flows"], lazy_generators=True)
def s_readfile(vc):
    import mitmproxy.ctx
    if vc.mode == "native":
        import logging
        logging.disable(logging.CRITICAL)     # the real code logs "Flow file corrupted" on replays: keep the checker's stderr clean
    k = vc.case("complete_flows_before_the_cut", [0, 1, 2, 3])
    end = vc.case("file_end", ["clean", "flow_read_error"])
    use_filter = vc.case("readfile_filter", [False, True])
    flows = [vc.new("mitmproxy.tcp:TCPFlow", id=f"f{i}", keep=vc.sym_bool(f"matches{i}")) for i in range(k)]
    rf = vc.new(RF, filter=vc.new("props.C37:StubFilter") if use_filter else None, _read_task=None)
    fo = mk_file(vc, vc.sym_bytes("file_bytes"), 0)
    mitmproxy.ctx.master = StubMaster()
    err = (_cls(FRE), "Invalid data format.") if end == "flow_read_error" else None
    vc.summary(IO + ":FlowReader.stream", lambda v, self_: gen_then(v, flows, err))
    vc.summary("props.C37:StubMaster.load_flow", lambda v, *a: v.awaitable("load_flow", a[-1]))
    loaded = []
    finished = [False]

    def on_yield(item):
        if item[0] == "await" and item[1] == "load_flow":
            loaded.append(item[2])
        return None

    out = vc.call(RF + ".load_flows", rf, fo, on_yield=on_yield)
    expected = [f for f in flows if (not use_filter) or vc.branch(f.keep)]
    vc.ensure("loaded.exactly_the_complete_matching_flows_in_order",
              len(loaded) == len(expected) and all(a is e for a, e in zip(loaded, expected)))
    if end == "clean":
        vc.ensure("clean.returns_count", out.ok and vc.eq(out.result, len(expected)))
    else:
        # the complete flows above were handed over before this error is reported
        vc.ensure("truncated.reports_flow_read_error", (not out.ok) and issubclass(out.raised_type(), _cls(FRE)))


# =============================================================================================
# addons/save.py: the stream file stays complete while the file name rotates.
#   Save.save_flow: contract shared with C39 (the flow goes to the stream that is current AFTER the rotation step)
#   Save.maybe_rotate_to_new_file: "a new file is opened every time the formatted string changes" - and ONLY then

SVR = "mitmproxy.addons.save:Save"


@scenario("Save.save_flow", functions=[SVR + ".save_flow"])
def s_save_flow_c37(vc):
    from props import C39
    return C39.s_save_flow.fn(vc)


@scenario("Save.response_or_error_completes_plain_http", functions=[SVR + ".response", SVR + ".error", SVR + ".save_flow"])
def s_http_completion(vc):
    """response/error is the LAST hook of an HTTP flow unless it is a WebSocket flow (flow.websocket set: websocket_end follows).
    Whatever the status code (incl. 101 answered without a WebSocket: websocket option off, bad Sec-WebSocket-Version, upgrade
    to another protocol) the finished flow must be in the stream file when the hook returns."""
    from props import C39
    hook = vc.case("hook", ["response", "error"])
    is_ws = vc.case("flow.websocket", [False, True])
    has_resp = vc.case("has_response", [True, False]) if hook == "error" else True
    status = vc.sym_int("status_code", lo=100, hi=999)
    resp = vc.new("mitmproxy.http:Response", data=vc.new("mitmproxy.http:ResponseData", status_code=status)) if has_resp else None
    f = vc.new("mitmproxy.http:HTTPFlow", id="f", response=resp, websocket=vc.new("mitmproxy.websocket:WebSocketData") if is_ws else None)
    other = vc.new("mitmproxy.tcp:TCPFlow", id="other")
    w0 = C39.mk_writer(vc)
    sa = C39.mk_save(vc, w0, [f, other])
    written = []
    C39.install_writer_summaries(vc, written)
    out = vc.call(SVR + "." + hook, sa, f)
    vc.ensure("no_exception", out.ok)
    if is_ws:
        vc.ensure("websocket_flow.not_written_before_websocket_end", len(written) == 0)
        vc.ensure("websocket_flow.stays_open", C39.same_members(vc, sa.active_flows, [f, other]))
    else:
        vc.ensure("plain_http.written_once_at_its_last_hook_for_every_status", len(written) == 1 and written[0][0] is w0 and written[0][1] is f)
        vc.ensure("plain_http.no_longer_open", C39.same_members(vc, sa.active_flows, [other]))


class StubNow:
    def strftime(self, fmt):  # pragma: no cover - replaced by a summary (scripted clock)
        raise NotImplementedError


class StubDatetime:
    """stand-in for datetime.datetime inside addons/save.py (settable clock)"""

    @staticmethod
    def today():
        return StubNow()


class StubDir:
    def mkdir(self, parents=False, exist_ok=False):
        return None


class StubPath:
    """stand-in for pathlib.Path: remembers the spelling it was built from; str() gives pathlib's NORMALISED spelling, which
    may differ from it ('dir/./x', 'dir//x', './x'); open() is an environment effect (summary)"""

    def __init__(self, raw):
        self.raw = raw
        self.parent = StubDir()

    def open(self, mode="r"):  # pragma: no cover - replaced by a summary
        raise NotImplementedError

    def __str__(self):  # pragma: no cover - replaced by a summary
        raise NotImplementedError


def patch_global(vc, modname, name, value):
    """rebind a module-level name of the code under contract for this run (both modes; undone after a native run)"""
    import importlib
    if vc.mode == "sym":
        vc.ex.module_globals[(modname, name)] = lift(value)
        return
    mod = importlib.import_module(modname)
    vc._patches.append((mod, name, getattr(mod, name), True))
    setattr(mod, name, value)


@scenario("Save.maybe_rotate_to_new_file", functions=[SVR + ".maybe_rotate_to_new_file", "mitmproxy.addons.save:_mode"])
def s_rotate(vc):
    """Two consecutive rotation checks starting without a stream. The clock/strftime yields the formatted names n1 then n2
    (symbolic); pathlib may normalise a spelling to a different string (norm1/norm2, symbolic, equal for equal spellings)."""
    from props import C39
    append = vc.case("mode", [False, True])
    spec = ("+" if append else "") + "/data/flows-%H%M"
    C39.set_ctx_options(vc, save_stream_file=spec, save_stream_filter=None)
    n1, n2 = vc.sym_str("formatted_name_1"), vc.sym_str("formatted_name_2")
    norm1, norm2x = vc.sym_str("pathlib_spelling_1"), vc.sym_str("pathlib_spelling_2")
    same = vc.branch(n1 == n2)
    names = [n1, n1 if same else n2]
    norms = [norm1, norm1 if same else norm2x]
    flt = vc.new("mitmproxy.flowfilter:FAll", pattern="f")
    sa = vc.new(SVR, stream=None, filt=flt, active_flows=C39.mk_set(vc, []), current_path=None)
    calls, opens, files = [0], [], []

    def strftime_summary(v, self_, fmt):
        calls[0] += 1
        return names[min(calls[0], 2) - 1]

    def open_summary(v, self_, mode="r"):
        fo = mk_file(v, b"", 0)
        opens.append((self_.raw, mode, fo))
        return fo

    def str_summary(v, self_):
        return norms[0] if len(opens) == 0 else norms[1]      # spelling of the path object being opened (1st / 2nd)

    patch_global(vc, "mitmproxy.addons.save", "datetime", StubDatetime)
    patch_global(vc, "mitmproxy.addons.save", "Path", StubPath)
    vc.summary("mitmproxy.addons.save:_path", lambda v, p: "/data/flows-%H%M")
    vc.summary("props.C37:StubNow.strftime", strftime_summary)
    vc.summary("props.C37:StubPath.open", open_summary)
    vc.summary("props.C37:StubPath.__str__", str_summary)
    o1 = vc.call(SVR + ".maybe_rotate_to_new_file", sa)
    vc.ensure("first.no_exception", o1.ok)
    vc.ensure("first.opens_the_formatted_name_once", len(opens) == 1 and vc.eq(opens[0][0], n1))
    if not o1.ok or len(opens) != 1:
        return
    vc.ensure("first.mode_append_iff_plus", opens[0][1] == ("ab" if append else "wb") if vc.mode == "native" else opens[0][1].concrete() == ("ab" if append else "wb"))
    w1 = sa.stream
    vc.ensure("first.stream_writes_to_that_file_with_the_filter", w1 is not None and isnone(w1) is not True and w1.fo is opens[0][2] and w1.flt is flt)
    o2 = vc.call(SVR + ".maybe_rotate_to_new_file", sa)
    vc.ensure("second.no_exception", o2.ok)
    if not o2.ok:
        return
    if same:
        # the formatted name did not change: the open file must be left alone (re-opening with "wb" would empty it)
        vc.ensure("same_name.no_reopen", len(opens) == 1)
        vc.ensure("same_name.stream_kept_open", sa.stream is w1 and len_(opens[0][2].ops) == 0)
    else:
        vc.ensure("new_name.old_file_closed", And(len_(opens[0][2].ops) == 1, vc.eq(opens[0][2].closed, True)))
        vc.ensure("new_name.opens_the_new_name_once", len(opens) == 2 and vc.eq(opens[1][0], n2))
        if len(opens) == 2:
            vc.ensure("new_name.stream_switched", sa.stream is not w1 and sa.stream.fo is opens[1][2] and sa.stream.flt is flt)


# =============================================================================================
# Writers: one write of exactly enc(state) per flow (+ flush for the stream writer), nothing for filtered-out flows


def writer_env(vc, enc, calls):
    """get_state / dumps / flowfilter.match abstracted: state(f) is an opaque dict, enc(state) the symbolic bytes `enc`"""

    def get_state_summary(v, f):
        calls.append(("get_state", f))
        return v.dict([("ghost_state_of", "f")])

    def dumps_summary(v, value):
        calls.append(("dumps", value))
        return enc

    vc.summary("mitmproxy.flow:Flow.get_state", get_state_summary)
    vc.summary(TN + ":dumps", dumps_summary)


@scenario("FilteredFlowWriter.add", functions=[IO + ":FilteredFlowWriter.add", TN + ":dump"])
def s_filtered_add(vc):
    before = vc.sym_bytes("file_before")
    enc = vc.sym_bytes("enc_state")
    fo = mk_file(vc, before, len_(before))
    has_filter = vc.case("filter", [False, True])
    matches = vc.sym_bool("filter_matches")
    flt = vc.new("mitmproxy.flowfilter:FAll") if has_filter else None
    w = vc.new(IO + ":FilteredFlowWriter", fo=fo, flt=flt)
    f = vc.new("mitmproxy.flow:Flow", id="flow-1")
    calls = []
    writer_env(vc, enc, calls)

    def match_summary(v, flt_, flow_):
        calls.append(("match", flt_, flow_))
        return matches

    vc.summary("mitmproxy.flowfilter:match", match_summary)
    out = vc.call(IO + ":FilteredFlowWriter.add", w, f)
    vc.ensure("no_exception", out.ok)
    if not out.ok:
        return
    ops = fo.ops
    if has_filter and vc.branch(Not(matches)):
        vc.ensure("filtered_out.nothing_written", And(len_(ops) == 0, fo.content == before, fo.durable == before))
        return
    vc.ensure("written.trace_is_write_then_flush", len_(ops) == 2 and op_kind(ops[0]) == "write" and op_kind(ops[1]) == "flush")
    if len_(ops) != 2:
        return
    vc.ensure("written.exactly_enc_of_state", ops[0][1] == enc)
    vc.ensure("written.state_is_of_this_flow", [c for c in calls if c[0] == "get_state"] == [("get_state", f)] if vc.mode == "native" else
              (len([c for c in calls if c[0] == "get_state"]) == 1 and [c for c in calls if c[0] == "get_state"][0][1] is f))
    vc.ensure("written.appended", fo.content == before + enc)
    vc.ensure("written.durable_complete_record_boundary", fo.durable == before + enc)
    if has_filter:
        vc.ensure("filter.consulted_with_this_flow", any(c[0] == "match" and c[1] is flt and c[2] is f for c in calls))


@scenario("FlowWriter.add", functions=[IO + ":FlowWriter.add", TN + ":dump"])
def s_plain_add(vc):
    before = vc.sym_bytes("file_before")
    enc = vc.sym_bytes("enc_state")
    fo = mk_file(vc, before, len_(before))
    w = vc.new(IO + ":FlowWriter", fo=fo)
    f = vc.new("mitmproxy.flow:Flow", id="flow-1")
    calls = []
    writer_env(vc, enc, calls)
    out = vc.call(IO + ":FlowWriter.add", w, f)
    vc.ensure("no_exception", out.ok)
    if not out.ok:
        return
    ops = fo.ops
    vc.ensure("trace_is_one_write", len_(ops) == 1 and op_kind(ops[0]) == "write")
    if len_(ops) != 1:
        return
    vc.ensure("exactly_enc_of_state", ops[0][1] == enc)
    vc.ensure("appended", fo.content == before + enc)


def op_kind(op):
    k = op[0]
    return k.concrete() if isinstance(k, SStr) else k


# =============================================================================================
# T2 (bounded): real writer + real reader at every truncation offset; real Save addon with a recording file object


def _states(flows):
    return [f.get_state() for f in flows]


def _check_truncations(b, label, data, bounds, states, offsets, via="bytesio"):
    import os
    import tempfile
    from props import ioflows
    for cut in offsets:
        k = sum(1 for e in bounds[1:] if e <= cut)
        b.case((label, cut, via), nontrivial=cut not in bounds)
        if via == "bytesio":
            got, end = ioflows.read_all(data[:cut])
        else:
            fd, path = tempfile.mkstemp()
            try:
                with os.fdopen(fd, "wb") as fh:
                    fh.write(data[:cut])
                with open(path, "rb") as fh:          # BufferedReader: the peek() path of FlowReader
                    got, end = ioflows.read_all(fh)
            finally:
                os.unlink(path)
        inp = {"file": label, "cut": cut, "len": len(data), "via": via}
        if isinstance(end, tuple):
            b.fail("truncation.only_flow_read_errors", inp, f"escaped {type(end[1]).__name__}: {end[1]}")
            continue
        gs = _states(got)
        if gs != states[:k]:
            b.fail("truncation.exactly_the_complete_flows", inp, f"expected {k} flows, got {len(gs)} (equal prefix: {gs[:k] == states[:k]})")
        if cut in bounds and end != "clean":
            b.fail("truncation.clean_end_at_record_boundary", inp, end)
        # inside a record both a clean end and a flow-read error are allowed by the statement


def _load_vs_spec(b, tier):
    """tnetstring.load against the reference framing on small byte strings (incl. 12/13-digit prefixes)"""
    import io
    from mitmproxy.io import tnetstring
    from props import ioflows
    alpha = b"012:,~x"
    strings = list(ioflows.small_strings(alpha, 5 if tier == "quick" else 6))
    for nd in (11, 12, 13, 14):
        strings += [b"0" * nd + b":,", b"0" * (nd - 1) + b"1:a,", b"1" * nd]
    for s in strings:
        b.case(("load", s), nontrivial=len(s) > 0)
        r = ioflows.spec_frame(s, 0)
        fo = io.BytesIO(s)
        try:
            v = tnetstring.load(fo)
            res = ("value", v)
        except (ValueError, IndexError, TypeError) as e:
            res = ("raised", e)
        except Exception as e:  # noqa: BLE001
            b.fail("load.raises_only_value_index_type_error", s.hex(), f"{type(e).__name__}: {e}")
            continue
        if r[0] == "eof":
            if not (res[0] == "raised" and isinstance(res[1], ValueError) and str(res[1]) == EMPTY_MSG):
                b.fail("load.eof_reports_empty_file", s.hex(), res)
        elif r[0] == "bad":
            if res[0] == "value":
                b.fail("load.no_value_from_incomplete_record", s.hex(), res)
            elif isinstance(res[1], ValueError) and str(res[1]) == EMPTY_MSG:
                b.fail("load.empty_file_only_at_eof", s.hex(), res)
        else:
            if res[0] == "value" and fo.tell() != r[3]:
                b.fail("load.consumes_exactly_one_record", s.hex(), f"pos {fo.tell()} expected {r[3]}")
            if res[0] == "raised" and isinstance(res[1], IndexError):
                b.fail("load.complete_record_is_not_reported_truncated", s.hex(), res)


def _stream_save_sequences(b, tier, seed):
    """real Save addon, real hooks; the stream's file object is the recording FileModel: after EVERY hook the durable
    bytes are a clean sequence of complete records, writes are append-only [write(record), flush] pairs"""
    import itertools
    import random
    from mitmproxy.addons import save
    from mitmproxy.test import taddons
    from props import ioflows
    from pyvc.libx_io import FileModel
    import os
    import tempfile
    HOOKS = {
        "http": ("request", ["response", "error"]), "http_101": ("request", ["response", "error"]), "ws": ("request", ["websocket_end"]),
        "tcp": ("tcp_start", ["tcp_end", "tcp_error"]), "udp": ("udp_start", ["udp_end", "udp_error"]),
        "dns": ("dns_request", ["dns_response", "dns_error"]),
    }
    kinds = list(HOOKS)
    rnd = random.Random(seed)
    combos = [c for c in itertools.product(kinds, repeat=2)] + [tuple(rnd.choice(kinds) for _ in range(3)) for _ in range(6 if tier == "quick" else 40)]
    for combo in combos:
        flows = [_mk(k) for k in combo]
        # interleaving: all starts, then completions in a seeded order, shutdown after a seeded number of completions
        order = list(range(len(flows)))
        rnd.shuffle(order)
        stop_after = rnd.randint(0, len(flows))
        sa = save.Save()
        d = tempfile.mkdtemp()
        with taddons.context(sa) as tctx:
            tctx.configure(sa, save_stream_file=os.path.join(d, "stream"))
            real = sa.stream.fo
            fm = FileModel()
            sa.stream.fo = fm
            snaps = []
            expected_written = []

            def snap(tag):
                snaps.append((tag, bytes(fm.durable), bytes(fm.content)))

            for f, k in zip(flows, combo):
                getattr(sa, HOOKS[k][0])(f)
                snap("start")
            for n, i in enumerate(order):
                if n == stop_after:
                    break
                f, k = flows[i], combo[i]
                getattr(sa, rnd.choice(HOOKS[k][1]))(f)
                expected_written.append(f)
                snap("complete")
                got_now, end_now = ioflows.read_all(bytes(fm.durable))
                if end_now != "clean" or [g.id for g in got_now] != [x.id for x in expected_written]:
                    b.fail("stream.complete_up_to_the_last_finished_flow_in_order", {"flows": list(combo), "completion_order": order, "after_completions": n + 1},
                           f"finished {[x.id[:8] for x in expected_written]}, file has {[g.id[:8] for g in got_now]} ({end_now})")
            remaining = [flows[i] for i in order[stop_after:]]
            sa.done()
            snap("done")
            real.close()
            tctx.master._legacy_log_events.uninstall()
        key = (combo, tuple(order), stop_after)
        b.case(("stream-save", key), nontrivial=True)
        inp = {"flows": list(combo), "completion_order": order, "shutdown_after": stop_after}
        prev = b""
        for tag, durable, content in snaps:
            if durable != content:
                b.fail("stream.flushed_after_every_hook", inp, f"after {tag}: {len(content) - len(durable)} unflushed bytes")
            if not durable.startswith(prev):
                b.fail("stream.append_only", inp, f"after {tag}")
            prev = durable
            recs, end = ioflows.spec_records(durable)
            got, rend = ioflows.read_all(durable)
            if end != "eof" or rend != "clean":
                b.fail("stream.complete_records_at_every_hook_boundary", inp, f"after {tag}: framing {end}, reader {rend}")
        ops = [o[0] for o in fm.ops]
        nrec = len(expected_written) + len(remaining)
        if ops != ["write", "flush"] * nrec + ["close"]:
            b.fail("stream.trace_write_flush_per_flow", inp, ops)
        # crash at any byte of the stream file: every truncation yields exactly the complete flows
        final = bytes(fm.content)
        bounds = [0]
        for o in fm.ops:
            if o[0] == "write":
                bounds.append(bounds[-1] + len(o[1]))
        step = 1 if tier == "thorough" else 37
        _check_truncations(b, "stream:" + "+".join(combo), final, bounds, _states(expected_written + remaining_in_set_order(fm, remaining)), sorted(set(range(0, len(final) + 1, step)) | set(bounds) | {x - 1 for x in bounds[1:]} | {x + 1 for x in bounds[:-1]}))


def _mk(kind):
    """ioflows.mk_flow plus 'http_101': an HTTP flow answered with 101 Switching Protocols that is NOT a WebSocket flow
    (flow.websocket is None; its response hook is its last hook)"""
    from props import ioflows
    if kind != "http_101":
        return ioflows.mk_flow(kind)
    f = ioflows.mk_flow("http")
    f.response.status_code = 101
    f.response.reason = b"Switching Protocols"
    f.response.headers["connection"] = "upgrade"
    f.response.headers["upgrade"] = "h2c"
    assert f.websocket is None
    return f


def _rd_ids(path):
    import os
    from props import ioflows
    if not os.path.exists(path):
        return [], "missing"
    with open(path, "rb") as fh:
        got, end = ioflows.read_all(fh)
    return [f.id for f in got], end


STREAM_HOOKS = {"http_101": ("request", "response"), "http": ("request", "response"), "tcp": ("tcp_start", "tcp_end"), "udp": ("udp_start", "udp_end"), "dns": ("dns_request", "dns_response"),
                "http_err": ("request", "error"), "tcp_err": ("tcp_start", "tcp_error")}


def _stream_save_path_spellings(b, tier):
    """real Save addon, real files: save_stream_file spelled in ways pathlib normalises ('/./', '//', trailing '/.', relative
    './x'), overwrite and append mode; the file is re-read after EVERY hook: it holds every finished flow so far, in order"""
    import os
    import shutil
    import tempfile
    from mitmproxy.addons import save
    from mitmproxy.test import taddons
    from props import ioflows
    d = tempfile.mkdtemp(prefix="c37-spell-")
    cwd = os.getcwd()
    try:
        os.chdir(d)
        spellings = [("plain", os.path.join(d, "a", "flows")), ("dot_segment", os.path.join(d, "b", ".", "flows")), ("double_slash", d + "//c//flows"),
                     ("trailing_dot", os.path.join(d, "e", "flows") + "/."), ("relative_dot", "./rel-flows"), ("relative_plain", "rel2/flows"),
                     ("dot_dir_parent", os.path.join(d, ".", "f", "flows"))]
        kinds = ["http", "http_101", "tcp", "dns", "udp"] if tier == "quick" else ["http", "http_101", "tcp", "dns", "udp", "http_err", "tcp_err"]
        for label, path in spellings:
            for append in (False, True):
                path = path.replace("flows", "flows-append") if append else path      # a file of its own per mode
                spec = ("+" if append else "") + path
                real_path = os.path.normpath(os.path.join(d, path))
                sa = save.Save()
                inp = {"save_stream_file": spec.replace(d, "<tmp>"), "spelling": label}
                b.case(("stream-spelling", label, append), nontrivial=label != "plain")
                try:
                    with taddons.context(sa) as tctx:
                        try:
                            tctx.configure(sa, save_stream_file=spec)
                            flows = [_mk(k) for k in kinds]
                            done_ids = []
                            for f, k in zip(flows, kinds):
                                getattr(sa, STREAM_HOOKS[k][0])(f)
                            for f, k in zip(flows, kinds):
                                getattr(sa, STREAM_HOOKS[k][1])(f)
                                done_ids.append(f.id)
                                ids, end = _rd_ids(real_path)
                                if end != "clean" or ids != done_ids:
                                    b.fail("stream.file_holds_every_finished_flow_after_each_hook", dict(inp, after=len(done_ids)),
                                           f"expected {len(done_ids)} flows, file has {len(ids)} ({end})")
                                    break
                            tctx.configure(sa, save_stream_file=None)
                            ids, end = _rd_ids(real_path)
                            if end != "clean" or ids != done_ids:
                                b.fail("stream.file_complete_after_shutdown", inp, f"expected {len(done_ids)} flows, file has {len(ids)} ({end})")
                        finally:
                            if sa.stream is not None:
                                sa.done()
                            tctx.master._legacy_log_events.uninstall()
                except Exception as e:  # noqa: BLE001
                    b.fail("stream.hooks_do_not_raise", inp, f"{type(e).__name__}: {e}")
    finally:
        os.chdir(cwd)
        shutil.rmtree(d, ignore_errors=True)


def _stream_save_clock_rotation(b, tier):
    """strftime codes in save_stream_file and a settable clock: flows finishing before/after the formatted name changes.
    After EVERY completion hook the finished flow is in exactly one file, every file reads back cleanly, no hook raises."""
    import datetime as dt
    import glob
    import os
    import shutil
    import tempfile
    from mitmproxy.addons import save
    from mitmproxy.test import taddons
    from props import ioflows
    clock = [dt.datetime(2024, 5, 17, 10, 59, 30)]

    class FakeDatetime(dt.datetime):
        @classmethod
        def today(cls):
            return clock[0]

    d = tempfile.mkdtemp(prefix="c37-clock-")
    orig = save.datetime
    save.datetime = FakeDatetime
    try:
        plans = [[0, 0, 40, 0], [40, 0, 0, 70], [0, 61, 61, 61], [0, 0, 0, 0], [3600, 1, 86400, 0]]      # seconds the clock advances before each completion
        for pi, plan in enumerate(plans if tier == "thorough" else plans[:4]):
            for append in (False, True):
                sub = os.path.join(d, f"p{pi}{'a' if append else 'w'}")
                spec = ("+" if append else "") + os.path.join(sub, "flows-%Y%m%d-%H%M")
                kinds = ["http", "http_101", "dns", "udp"] if pi % 2 else ["http_101", "tcp", "http", "dns"]
                sa = save.Save()
                inp = {"save_stream_file": "<tmp>/flows-%Y%m%d-%H%M", "mode": "append" if append else "overwrite", "clock_steps_s": plan}
                b.case(("stream-clock", pi, append), nontrivial=any(plan))
                clock[0] = dt.datetime(2024, 5, 17, 10, 59, 30)
                try:
                    with taddons.context(sa) as tctx:
                        try:
                            tctx.configure(sa, save_stream_file=spec)
                            flows = [_mk(k) for k in kinds]
                            for f, k in zip(flows, kinds):
                                getattr(sa, STREAM_HOOKS[k][0])(f)
                            done_ids = []
                            for f, k, step in zip(flows, kinds, plan):
                                clock[0] = clock[0] + dt.timedelta(seconds=step)
                                getattr(sa, STREAM_HOOKS[k][1])(f)
                                done_ids.append(f.id)
                                seen = []
                                for p_ in sorted(glob.glob(os.path.join(sub, "flows-*"))):
                                    ids, end = _rd_ids(p_)
                                    if end != "clean":
                                        b.fail("rotation.every_file_complete_after_each_hook", dict(inp, after=len(done_ids)), f"{os.path.basename(p_)}: {end}")
                                    seen += ids
                                if seen != done_ids:      # files sort by time, flows finish in time order
                                    b.fail("rotation.finished_flow_written_once_in_time_order", dict(inp, after=len(done_ids)),
                                           f"expected {len(done_ids)} finished flows across the files in order, found {len(seen)} (same set: {sorted(seen) == sorted(done_ids)})")
                                    break
                                newest = sorted(glob.glob(os.path.join(sub, "flows-*")))[-1]
                                if os.path.basename(newest) != clock[0].strftime("flows-%Y%m%d-%H%M") or _rd_ids(newest)[0][-1:] != [f.id]:
                                    b.fail("rotation.flow_goes_to_the_file_of_its_completion_time", dict(inp, after=len(done_ids)), os.path.basename(newest))
                            tctx.configure(sa, save_stream_file=None)
                        finally:
                            if sa.stream is not None:
                                sa.done()
                            tctx.master._legacy_log_events.uninstall()
                except BaseException as e:  # noqa: BLE001  (SystemExit from the OSError handler counts as well)
                    if isinstance(e, KeyboardInterrupt):
                        raise
                    b.fail("rotation.hooks_do_not_raise", inp, f"{type(e).__name__}: {e}")
    finally:
        save.datetime = orig
        shutil.rmtree(d, ignore_errors=True)


def _readfile_addon(b, label, data, bounds, states, offsets, flt=None, flows=None):
    """addons/readfile.py: ReadFile.load_flows hands exactly the complete flows to the master, then returns the count
    (clean end) or raises FlowReadException"""
    import io
    from mitmproxy import exceptions
    from mitmproxy.addons import readfile
    from mitmproxy.test import taddons
    rf = readfile.ReadFile()
    with taddons.context(rf) as tctx:
        loaded = []

        async def load_flow(f):
            loaded.append(f)

        tctx.master.load_flow = load_flow
        tctx.configure(rf, readfile_filter=flt)
        keep = [True] * len(states)
        if flt is not None:
            from mitmproxy import flowfilter
            keep = [bool(flowfilter.match(flt, f)) for f in flows]
        for cut in offsets:
            loaded.clear()
            k = sum(1 for e in bounds[1:] if e <= cut)
            b.case((label, cut, "readfile", flt), nontrivial=cut not in bounds)
            inp = {"file": label, "cut": cut, "via": "ReadFile.load_flows", "readfile_filter": flt}
            try:
                cnt = tctx.master.event_loop.run_until_complete(rf.load_flows(io.BytesIO(data[:cut])))
                end = "clean"
            except exceptions.FlowReadException:
                cnt, end = None, "flow-read-error"
            except Exception as e:  # noqa: BLE001
                b.fail("readfile.only_flow_read_errors", inp, f"{type(e).__name__}: {e}")
                continue
            exp = [st for st, kp in zip(states[:k], keep[:k]) if kp]
            if _states(loaded) != exp or (cnt is not None and cnt != len(exp)):
                b.fail("readfile.exactly_the_complete_flows", inp, f"expected {len(exp)} of the {k} complete flows, loaded {len(loaded)}, returned {cnt}")
            if cut in bounds and end != "clean":
                b.fail("readfile.clean_end_at_record_boundary", inp, end)
        tctx.master._legacy_log_events.uninstall()   # the test master's log handler would outlive its (closed) loop


def remaining_in_set_order(fm, remaining):
    """flows written by done() come out in set-iteration order: identify them by id from the records actually written"""
    from props import ioflows
    recs, _ = ioflows.read_all(bytes(fm.content))
    ids = [f.id for f in recs][len(recs) - len(remaining):]
    by_id = {f.id: f for f in remaining}
    return [by_id[i] for i in ids if i in by_id]


def bounded(tier, seed):
    import random
    from props import ioflows
    b = Bounded()
    b.rule = ("(1) files written by the real FlowWriter holding 1 flow of each of 10 type/shape kinds and mixed sequences of 3, read back by "
              "the real FlowReader at EVERY truncation offset (BytesIO) and at sampled offsets through a real file (BufferedReader.peek path) and "
              "through the ReadFile addon (load_flows) without filter and with readfile_filter ~all / ~tcp | ~dns / ~http; "
              "(2) tnetstring.load vs an independent reference framing on all strings over '012:,~x' up to length 5 (6 thorough) plus 11..14 digit prefixes; "
              "(3) real Save addon driven through start/completion hooks of 2-3 flows of mixed types with shutdown at a seeded point, the stream's "
              "file object replaced by the recording FileModel: durable bytes checked after every hook, then every (sampled in quick) truncation offset; "
              "(4) real Save on real files with save_stream_file spellings that pathlib normalises ('/./', '//', trailing '/.', './x', relative) in overwrite and "
              "append mode, file re-read after every hook; (5) strftime file names with a settable clock crossing minute/hour/day boundaries between "
              "completions: every finished flow is in exactly one file, in the file of its completion time, after every hook. "
              "distinct = distinct (file, cut) / string / hook sequence; non-trivial = cut strictly inside a record, non-empty string")
    b.bound = "<= 3 flows per file; truncation offsets: all (BytesIO), every 97th (real file); strings <= 5/6 bytes; hook sequences <= 3 flows"
    rnd = random.Random(seed)
    singles = ioflows.FLOW_KINDS
    for k in singles:
        fl = [ioflows.mk_flow(k)]
        data, bounds = ioflows.encode_flows(fl)
        _check_truncations(b, k, data, bounds, _states(fl), range(len(data) + 1))
    mixes = [("http", "tcp", "dns"), ("ws", "udp_err", "http_err"), ("dns_err", "http_noresp", "tcp_err")]
    if tier == "thorough":
        mixes += [tuple(rnd.choice(singles) for _ in range(3)) for _ in range(10)]
    for mix in mixes:
        fl = [ioflows.mk_flow(k) for k in mix]
        data, bounds = ioflows.encode_flows(fl)
        _check_truncations(b, "+".join(mix), data, bounds, _states(fl), range(len(data) + 1))
        _check_truncations(b, "+".join(mix), data, bounds, _states(fl), sorted(set(range(0, len(data) + 1, 97)) | set(bounds)), via="file")
        offs = sorted(set(range(0, len(data) + 1, 53)) | set(bounds) | {x - 1 for x in bounds[1:]} | {x + 1 for x in bounds[:-1]})
        for flt in (None, "~all", "~tcp | ~dns", "~http"):
            _readfile_addon(b, "+".join(mix), data, bounds, _states(fl), offs, flt=flt, flows=fl)
    _load_vs_spec(b, tier)
    _stream_save_sequences(b, tier, seed)
    _stream_save_path_spellings(b, tier)
    _stream_save_clock_rotation(b, tier)
    return b
