"""C37 — flow files are crash-consistent.

Record format (tnetstring): DIGITS ":" PAYLOAD TAG with len(PAYLOAD) = int(DIGITS), 1 <= len(DIGITS) <= 12.
"""
from pyvc.api import *

CLAIM = "proof"
FM = "pyvc.libx_io:FileModel"
TN = "mitmproxy.io.tnetstring"
EMPTY_MSG = "not a tnetstring: empty file"


def mk_file(vc, content, pos=0):
    return vc.new(FM, content=content, pos=pos, durable=content, ops=vc.list([]), closed=False)


def is_digit_code(c):
    return And(c >= 48, c <= 57)


def parse_summary(calls):
    """tnetstring.parse abstracted: records (tag, payload) and returns an opaque value or raises ValueError
    (its own contract is C36's business; C37 is about framing)."""

    def f(vc, data_type, data):
        data = data if is_sym(data) else bytes(data)
        calls.append((data_type, data))
        return vc.ghost("parsed", data_type, data)

    return f


def sl(vc, x, a, b):
    """x[a:b] for 0 <= a <= b as a plain substring term (contract-side slices; no Python index clamping needed)"""
    if vc.mode == "native":
        return x[a:b]
    from pyvc.core import ssub, simp, _zi
    return type(x)(simp(ssub(x.t, simp(_zi(a)), simp(_zi(b) - _zi(a)))))


def all_digits(b):
    """every byte of b is an ASCII decimal digit (b may be empty)"""
    if is_sym(b):
        import z3
        return SBool(z3.InRe(b.t, z3.Star(z3.Range("0", "9"))))
    return all(48 <= c <= 57 for c in b)


def leading_digits(vc, content, pos):
    """d = number of leading ASCII digits of content[pos:].  Symbolically d is a Skolem constant fixed by its defining
    property (such a d exists and is unique for every string, so this assumption does not restrict content/pos)."""
    if vc.mode == "native":
        d = 0
        while pos + d < len(content) and 48 <= content[pos + d] <= 57:
            d += 1
        return d
    d = vc.sym_int("n_leading_digits", lo=0)
    vc.assume(pos + d <= len_(content))
    vc.assume(all_digits(sl(vc, content, pos, pos + d)))
    vc.assume(Or(pos + d == len_(content), Not(is_digit_code(code_at(content, pos + d)))))
    return d


def digit_prefix_lemma(vc, content, pos, a, b):
    """Valid string lemma, instantiated at the terms a, b (sound for arbitrary integer terms): if content[pos:pos+b] is
    all digits and 0 <= a < b then byte pos+a exists and is a digit."""
    if vc.mode == "native":
        return
    vc.assume(Implies(And(all_digits(sl(vc, content, pos, pos + b)), a >= 0, a < b, pos + b <= len_(content)),
                      is_digit_code(code_at(content, pos + a))))
    vc.note("lemma", "digit-prefix: s[:b] all digits and 0<=a<b<=len(s) => s[a] is a digit (instantiated per term pair)")


def inv_load(vc, seen, content, pos):
    """loop invariant of `while c.isdigit()` in tnetstring.load: data_length is the k <= 12 digits read so far, c is the
    next byte (or b"" at EOF), the file position is just behind c."""

    def inv(it, env, idx):
        fo, dl, c = env["file_handle"], env["data_length"], env["c"]
        k = len_(dl)
        seen.append(k)
        return And(k <= 12, pos + k <= len_(content), dl == sl(vc, content, pos, pos + k), all_digits(dl),
                   c == sl(vc, content, pos + k, pos + k + 1), fo.pos == pos + k + len_(c), fo.content == content, fo.closed == False)  # noqa: E712

    inv.havoc_fields = [lambda it, env: (env["file_handle"], "pos")]
    return inv


@scenario("tnetstring.load.framing", functions=[TN + ":load"], pc_slices=True)
def s_load(vc):
    content = vc.sym_bytes("file_bytes")     # NB: symbol names must differ from the code's local/field names (havoc reuses those)
    pos = vc.sym_int("start", lo=0)
    vc.assume(pos <= len_(content))
    L = len_(content) - pos
    d = leading_digits(vc, content, pos)
    fo = mk_file(vc, content, pos)
    calls = []
    vc.summary(TN + ":parse", parse_summary(calls))
    seen = []
    vc.invariant(TN + ":load", 1, inv_load(vc, seen, content, pos))
    out = vc.call(TN + ":load", fo)
    if vc.mode == "sym" and len(seen) >= 2:
        k = seen[1]
        digit_prefix_lemma(vc, content, pos, k, d)
        digit_prefix_lemma(vc, content, pos, d, k)
    # frame: load only reads
    vc.ensure("frame.content_unchanged", And(fo.content == content, len_(fo.ops) == 0))
    if vc.branch(L == 0):
        vc.ensure("eof.raises_valueerror", (not out.ok) and out.raised_type() is ValueError)
        if not out.ok:
            vc.ensure("eof.message", exc_msg(vc, out.raised) == EMPTY_MSG)
        vc.ensure("eof.no_parse", len(calls) == 0)
        return
    if not out.ok and out.raised_type() is ValueError:
        vc.ensure("nonempty.never_reports_empty_file", exc_msg(vc, out.raised) != EMPTY_MSG)
    if vc.branch(Or(d == 0, d >= 13)):
        # no length prefix / absurdly long prefix: never a value
        vc.ensure("badprefix.raises_valueerror", (not out.ok) and out.raised_type() is ValueError)
        vc.ensure("badprefix.no_parse", len(calls) == 0)
        return
    if vc.branch(L == d):
        # cut inside the length prefix
        vc.ensure("cut_in_prefix.raises_valueerror", (not out.ok) and out.raised_type() is ValueError)
        vc.ensure("cut_in_prefix.no_parse", len(calls) == 0)
        return
    if vc.branch(code_at(content, pos + d) != 58):
        vc.ensure("nocolon.raises_valueerror", (not out.ok) and out.raised_type() is ValueError)
        vc.ensure("nocolon.no_parse", len(calls) == 0)
        return
    n = to_int(vc, sl(vc, content, pos, pos + d))
    if vc.branch(L < d + n + 2):
        # cut inside payload or before the tag byte: proper prefix of a record
        vc.ensure("cut_in_record.raises_indexerror", (not out.ok) and out.raised_type() is IndexError)
        vc.ensure("cut_in_record.no_parse", len(calls) == 0)
        return
    # the whole record lies inside the file
    vc.ensure("complete.returns", out.ok)
    vc.ensure("complete.parse_once", len(calls) == 1)
    if len(calls) != 1 or not out.ok:
        return
    tag, payload = calls[0]
    vc.ensure("complete.payload_exact", payload == sl(vc, content, pos + d + 1, pos + d + 1 + n))
    vc.ensure("complete.payload_full_length", len_(payload) == n)
    vc.ensure("complete.tag", tag == code_at(content, pos + d + 1 + n))
    vc.ensure("complete.pos_after_record", fo.pos == pos + d + n + 2)
    vc.ensure("complete.pos_inside_file", fo.pos <= len_(content))
    vc.ensure("complete.result_is_parse_result", is_parsed(out.result, tag, payload))


def exc_msg(vc, e):
    a = e.args
    return a[0]


def to_int(vc, b):
    """int() of a non-empty ASCII digit string"""
    if vc.mode == "native":
        return int(b)
    import z3
    return SInt(z3.StrToInt(b.t))


def is_parsed(r, tag, payload):
    if isinstance(r, STuple):
        return And(len(r.items) == 3, r.items[0] == "parsed", r.items[1] == tag, r.items[2] == payload)
    return isinstance(r, tuple) and r == ("parsed", tag, payload)
