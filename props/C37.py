"""C37 — flow files are crash-consistent.

Record format (tnetstring): DIGITS ":" PAYLOAD TAG with len(PAYLOAD) = int(DIGITS), 1 <= len(DIGITS) <= 12.
"""
from pyvc.api import *

CLAIM = "proof"
FM = "pyvc.libx_io:FileModel"
TN = "mitmproxy.io.tnetstring"
EMPTY_MSG = "not a tnetstring: empty file"


def mk_file(vc, content, pos=0):
    return vc.new(FM, content=content, pos=pos, durable=content, ops=vc.list([]), closed=False)


def is_digit_code(c):
    return And(c >= 48, c <= 57)


def parse_summary(calls):
    """tnetstring.parse abstracted: records (tag, payload) and returns an opaque value or raises ValueError
    (its own contract is C36's business; C37 is about framing)."""

    def f(vc, data_type, data):
        data = data if is_sym(data) else bytes(data)
        calls.append((data_type, data))
        return vc.ghost("parsed", data_type, data)

    return f


@scenario("tnetstring.load.framing", functions=[TN + ":load"], max_unroll=14)
def s_load(vc):
    content = vc.sym_bytes("content")
    pos = vc.sym_int("pos", lo=0)
    vc.assume(pos <= len_(content))
    s = content[pos:]
    L = len_(s)
    d = vc.case("ndigits", list(range(0, 14)))          # number of leading decimal digits of s (13 = "13 or more")
    vc.assume(L >= d)
    for k in range(d):
        vc.assume(is_digit_code(code_at(s, k)))
    if d <= 12:
        vc.assume(Or(L == d, Not(is_digit_code(code_at(s, d)))))
    fo = mk_file(vc, content, pos)
    calls = []
    vc.summary(TN + ":parse", parse_summary(calls))
    out = vc.call(TN + ":load", fo)
    # frame: load only reads
    vc.ensure("frame.content_unchanged", And(fo.content == content, len_(fo.ops) == 0))
    if vc.branch(L == 0):
        vc.ensure("eof.raises_valueerror", (not out.ok) and out.raised_type() is ValueError)
        if not out.ok:
            vc.ensure("eof.message", exc_msg(vc, out.raised) == EMPTY_MSG)
        vc.ensure("eof.no_parse", len(calls) == 0)
        return
    if not out.ok and out.raised_type() is ValueError:
        vc.ensure("nonempty.never_reports_empty_file", exc_msg(vc, out.raised) != EMPTY_MSG)
    if d == 0 or d == 13:
        # no length prefix / absurdly long prefix: never a value
        vc.ensure("badprefix.raises_valueerror", (not out.ok) and out.raised_type() is ValueError)
        vc.ensure("badprefix.no_parse", len(calls) == 0)
        return
    if vc.branch(L == d):
        # cut inside the length prefix
        vc.ensure("cut_in_prefix.raises_valueerror", (not out.ok) and out.raised_type() is ValueError)
        vc.ensure("cut_in_prefix.no_parse", len(calls) == 0)
        return
    if vc.branch(code_at(s, d) != 58):
        vc.ensure("nocolon.raises_valueerror", (not out.ok) and out.raised_type() is ValueError)
        vc.ensure("nocolon.no_parse", len(calls) == 0)
        return
    n = to_int(vc, s[:d])
    if vc.branch(L < d + n + 2):
        # cut inside payload or before the tag byte: proper prefix of a record
        vc.ensure("cut_in_record.raises_indexerror", (not out.ok) and out.raised_type() is IndexError)
        vc.ensure("cut_in_record.no_parse", len(calls) == 0)
        return
    # the whole record lies inside the file
    vc.ensure("complete.returns", out.ok)
    vc.ensure("complete.parse_once", len(calls) == 1)
    if len(calls) != 1 or not out.ok:
        return
    tag, payload = calls[0]
    vc.ensure("complete.payload_exact", payload == s[d + 1:d + 1 + n])
    vc.ensure("complete.payload_full_length", len_(payload) == n)
    vc.ensure("complete.tag", tag == code_at(s, d + 1 + n))
    vc.ensure("complete.pos_after_record", fo.pos == pos + d + n + 2)
    vc.ensure("complete.pos_inside_file", fo.pos <= len_(content))
    vc.ensure("complete.result_is_parse_result", is_parsed(out.result, tag, payload))


def exc_msg(vc, e):
    a = e.args
    return a[0]


def to_int(vc, b):
    """int() of a non-empty ASCII digit string"""
    if vc.mode == "native":
        return int(b)
    import z3
    return SInt(z3.StrToInt(b.t))


def is_parsed(r, tag, payload):
    if isinstance(r, STuple):
        return And(len(r.items) == 3, r.items[0] == "parsed", r.items[1] == tag, r.items[2] == payload)
    return isinstance(r, tuple) and r == ("parsed", tag, payload)
