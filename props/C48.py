"""C48 — exported commands reproduce the request and are shell-safe.

Statement: the exported curl command, run by a POSIX shell, executes only curl, with arguments encoding exactly the
request's method, URL and header set and — for text bodies — exactly that body; the httpie export executes only httpie
with the request's method, URL and headers; the raw export parses back to the same request.

Contracts (T1), with `shlex.quote` trusted (`sh_split(quote(s)) == [s]`: one word, value s, nothing executed):
  shell safety   the result is  quote(w0) " " quote(w1) " " ... [ " -d " BODY ]   — every non-constant fragment is under
                 quote (BODY is request_content_for_console's result, itself `quote(..)` or `"$(printf quote(..))"`), w0 is
                 `curl` / `http`;
  meaning        the word list w1.. is read with a spec function written from curl's manual (-H, -X, -d, --compressed,
                 --resolve, URL globbing): method, URL, header set and body it stands for must equal the request's.
The parts of the statement that are shell / curl behaviour (printf escapes, $(...) newline stripping, here-strings,
globbing) are run in T2 under bash and dash with stub `curl`/`http` executables, and — when a curl binary is present —
with the real curl against a loopback socket.
"""
from pyvc.api import *
from props.prelude import *

CLAIM = "other"
EXPLANATION = ("T1 proves, on the real curl_command / httpie_command / raw_request / raw / cleanup_request / pop_headers, the quoting structure of "
               "the exported command (shell safety relative to the trusted shlex.quote contract) and the meaning of its argument list relative to "
               "a specification of curl's options written from the manual; request_content_for_console (per-character escaping, printf) and what "
               "a shell and curl actually do with the command are checked by running the commands (bounded, T2). Seven classes of requests for "
               "which the unchanged tree does not reproduce the request are recorded as known findings.")
EX = "mitmproxy.addons.export:"
M = "props.C48:"
ASSUMPTIONS = [
    "shlex.quote is trusted and uninterpreted: a POSIX shell reads quote(s) as exactly one word with value s (sh_split(quote(s)) == [s]) and executes nothing inside it; T2 runs bash and dash on the quoted words",
    "requests are models: `headers.items(multi=True)` yields the header list as (name, value) strings, method / pretty_url / pretty_host / host / port / content are plain attributes; the real Request/Headers (decoding, host/authority logic: C33) are exercised in T2",
    "request_content_for_console is abstracted in the curl/httpie scenarios to an opaque BODY token that is a function of the request text (its own behaviour — per-character escaping, printf, command substitution — is shell semantics and is checked in T2 only)",
    "curl's reading of its arguments is the spec function curl_meaning below (from the curl manual: -H 'name: value' adds a header, a header with no value removes/does not send it; -X sets the method, otherwise GET, or POST when -d is given; -d data sends the data, '@file' reads a file; --compressed requests compressed responses, i.e. stands for the Accept-Encoding header; --resolve host:port:addr; a URL argument is subject to globbing of []{}); it is validated against a real curl binary in T2 when one is installed",
    "net.http.http1.assemble.assemble_request / assemble_response are abstracted to ghost values in the raw-export scenarios (their contracts are C01/C35); T2 parses the real raw export back with the HTTP/1 reader",
    "mitmproxy.ctx.options is the options object built by the scenario",
]


class HeadersModel:
    def items(self, multi=False):
        return self.pairs


class RequestModel:
    def copy(self):
        self.copies = self.copies + 1
        c = RequestModel()
        c.headers, c.method, c.content, c.raw_content = self.headers, self.method, self.content, self.raw_content
        c.pretty_url, c.pretty_host, c.host, c.port, c.text_, c.copies, c.decoded, c.origin = self.pretty_url, self.pretty_host, self.host, self.port, self.text_, 0, [], self
        return c

    def decode(self, strict=True):
        self.decoded.append(strict)


class ConnModel:
    pass


class WsModel:
    def _get_formatted_messages(self):
        return self.formatted


# ---------------------------------------------------------------------------------------------------------------------
# command structure: words under quote, optional body suffix


def _pieces(t):
    import z3
    if z3.is_app(t) and t.decl().kind() == z3.Z3_OP_SEQ_CONCAT:
        out = []
        for c in t.children():
            out.extend(_pieces(c))
        return out
    return [t]


def split_command(vc, cmd, op, body_native=None):
    """(well_formed, words, has_body): the command is quote(w0) ' ' quote(w1) ... [op BODY].  Symbolically this is read off the
    result term (which fragments are applications of the trusted sh_quote / the BODY token); natively by shlex.split and
    re-quoting (quote is canonical)."""
    if vc.mode == "native":
        import shlex
        has_body = body_native is not None and cmd.endswith(op + body_native)
        prefix = cmd[: -len(op + body_native)] if has_body else cmd
        try:
            words = shlex.split(prefix)
        except ValueError:
            return False, [], has_body
        return " ".join(shlex.quote(w) for w in words) == prefix, words, has_body
    import re
    import z3
    from pyvc.core import simp, str_value_to_pystr
    ps = _pieces(simp(cmd.t))

    def is_app(p, name):
        return z3.is_app(p) and p.decl().kind() == z3.Z3_OP_UNINTERPRETED and p.decl().name() == name

    # token stream: quoted words, constant words made of characters the shell does not interpret (what quote() leaves bare),
    # single blanks, the body operator directly followed by the BODY token.  Anything else — in particular constant text
    # containing quote characters around a non-constant fragment (hand-made quoting) — is not well formed.
    toks = []
    for i, p in enumerate(ps):
        if is_app(p, "sh_quote"):
            toks.append(("word", SStr(p.arg(0))))
        elif is_app(p, "export_body"):
            toks.append(("body", None))
        elif z3.is_string_value(p):
            text = str_value_to_pystr(p)
            if text.endswith(op) and i + 1 < len(ps) and is_app(ps[i + 1], "export_body"):
                text = text[: -len(op)]
                tail = [("op", None)]
            else:
                tail = []
            for chunk in re.findall(r" |[^ ]+", text):
                if chunk == " ":
                    toks.append(("sp", None))
                elif re.fullmatch(r"[A-Za-z0-9_@%+=:,./-]+", chunk):
                    toks.append(("word", SStr(chunk)))
                else:
                    return False, [], False
            toks += tail
        else:
            return False, [], False
    words, has_body = [], False
    kinds = [k for k, _ in toks]
    if kinds[-2:] == ["op", "body"]:
        has_body = True
        toks, kinds = toks[:-2], kinds[:-2]
    ok = len(kinds) % 2 == 1 and all(k == ("word" if j % 2 == 0 else "sp") for j, k in enumerate(kinds))
    words = [v for k, v in toks if k == "word"]
    return ok, words, has_body


def lit(w):
    """concrete value of a word, or None if symbolic"""
    if isinstance(w, SStr):
        return w.concrete()
    return w


def to_str(vc, n):
    if vc.mode == "native":
        return str(n)
    from pyvc import lib
    return SStr(lib.int_to_str(lift(n).t))


def curl_meaning(vc, words, has_body):
    """What a curl invocation with these arguments does, from the manual. Returns dict(ok, method, url, headers (list of header
    lines), compressed, resolve, n_urls) — option words are constants, their values may be symbolic."""
    out = dict(ok=True, x=None, urls=[], header_lines=[], compressed=False, resolve=[])
    i = 1
    while i < len(words):
        w = lit(words[i])
        if w == "-H" and i + 1 < len(words):
            out["header_lines"].append(words[i + 1])
            i += 2
        elif w == "-X" and i + 1 < len(words):
            out["x"] = words[i + 1]
            i += 2
        elif w == "--resolve" and i + 1 < len(words):
            out["resolve"].append(words[i + 1])
            i += 2
        elif w == "--compressed":
            out["compressed"] = True
            i += 1
        elif w is not None and w.startswith("-"):
            out["ok"] = False      # an option the contract does not know
            i += 1
        else:
            out["urls"].append(words[i])   # anything else is a URL (a symbolic word might also start with '-': obligation below)
            i += 1
    out["method"] = out["x"] if out["x"] is not None else ("POST" if has_body else "GET")
    return out


def blank(vc, s):
    """header value that curl treats as `no value` (empty or only spaces/tabs)"""
    if vc.mode == "native":
        return s.strip(" \t") == ""
    import z3
    return SBool(z3.InRe(s.t, z3.Star(z3.Union(z3.Re(z3.StringVal(" ")), z3.Re(z3.StringVal("\t"))))))


def has_any(vc, s, chars):
    if vc.mode == "native":
        return any(c in s for c in chars)
    return Or(*[contains(s, c) for c in chars])


# ---------------------------------------------------------------------------------------------------------------------
# pre-state


def set_ctx_options(vc, **kw):
    import mitmproxy.ctx as mctx
    mctx.options = mk_options(vc, **kw)


from mitmproxy.addons import export as _export

_ORIG = {"rcfc": _export.request_content_for_console}


def mk_request(vc, n_headers=2, body=None):
    pairs = [(vc.sym_str(f"h{i}_name"), vc.sym_str(f"h{i}_value")) for i in range(n_headers)]
    has_body = vc.case("has_body", [False, True]) if body is None else body
    text = vc.sym_str("text")
    content = vc.sym_bytes("content")
    if has_body:
        vc.assume(len_(content) > 0)
        vc.assume(len_(text) > 0)
    req = vc.new(M + "RequestModel", headers=vc.new(M + "HeadersModel", pairs=vc.list(pairs)), method=vc.sym_str("method"),
                 content=content if has_body else b"", raw_content=content if has_body else b"", pretty_url=vc.sym_str("url"),
                 pretty_host=vc.sym_str("pretty_host"), host=vc.sym_str("host"), port=vc.sym_int("port", lo=0, hi=65535), text_=text,
                 copies=0, decoded=vc.list([]), origin=None)
    return req, pairs, has_body, text


def install_export_env(vc, req):
    """cleanup_request / pop_headers have their own scenarios; request_content_for_console is an opaque BODY token"""
    def body_token(v, request):
        if v.mode == "native":
            # the model request carries its text; the real function wants get_text()
            class R:
                def get_text(self, strict=True):
                    return request.text_
            return _ORIG["rcfc"](R())
        import z3
        from pyvc import lib
        return SStr(lib.uf("export_body", z3.StringSort(), z3.StringSort())(request.text_.t))

    vc.summary(EX + "cleanup_request", lambda v, f: f.request)
    vc.summary(EX + "pop_headers", lambda v, request: None)
    vc.summary(EX + "request_content_for_console", body_token)


def mk_flow(vc, req, peer):
    server_conn = vc.new(M + "ConnModel", peername=peer)
    return vc.new("mitmproxy.http:HTTPFlow", request=req, response=None, server_conn=server_conn, websocket=None)


# =====================================================================================================================
# curl


# values with shell metacharacters for every text field: used only to obtain counter-models that replay (quote() is canonical on
# harmless text, so a hand-quoted fragment is only distinguishable on such values)
SHELL_TEXTS = [{"pretty_host": "a'; echo x > CANARY; '", "server_ip": "10.0.0.1", "url": "http://h/$(id)", "method": "P'OST", "h0_name": "x-a", "h0_value": "it's",
                "h1_name": "x-b", "h1_value": "`id`", "text": "b'ody", "content": b"b'ody", "host": "h"},
               {"pretty_host": "a'b c", "server_ip": "::1", "url": "http://h/ a", "method": "GET", "h0_name": "x a", "h0_value": "", "h1_name": "accept-encoding", "h1_value": "gzip",
                "text": "@x", "content": b"@x", "host": "h"}]


@scenario("curl_command", functions=[EX + "curl_command"], candidates=SHELL_TEXTS)
def s_curl(vc):
    preserve = vc.case("export_preserve_original_ip", [False, True])
    has_peer = vc.case("server_peername", [True, False]) if preserve else False
    req, pairs, has_body, text = mk_request(vc)
    install_export_env(vc, req)
    set_ctx_options(vc, export_preserve_original_ip=preserve)
    addr = vc.sym_str("server_ip")
    if has_peer:
        vc.assume(len_(addr) > 0)
    f = mk_flow(vc, req, (addr, vc.sym_int("server_port", lo=0, hi=65535)) if has_peer else None)
    out = vc.call(EX + "curl_command", f)
    vc.ensure("no_exception", out.ok)
    if not out.ok:
        return
    body_native = _ORIG_body(vc, req) if has_body else None
    ok, words, body = split_command(vc, out.result, " -d ", body_native)
    # ---- shell safety
    vc.ensure("shell_safe.every_fragment_quoted", ok)
    if not ok:
        return
    vc.ensure("shell_safe.first_word_is_curl", len(words) >= 1 and lit(words[0]) == "curl")
    vc.ensure("body.present_iff_content", body == has_body)
    # ---- meaning of the argument list (curl manual) == the request
    m = curl_meaning(vc, words, body)
    vc.ensure("meaning.only_known_options", m["ok"])
    vc.ensure("meaning.exactly_one_url", len(m["urls"]) == 1)
    if len(m["urls"]) != 1:
        return
    vc.ensure("meaning.url", m["urls"][0] == req.pretty_url)
    vc.ensure_kf("meaning.url_taken_literally", Not(has_any(vc, req.pretty_url, "[]{}")), "KF-C48-5", has_any(vc, req.pretty_url, "[]{}"))
    # headers: every request header is sent, in order, except that Accept-Encoding is expressed by --compressed
    is_ae = [_lower_eq(vc, k, "accept-encoding") for k, v in pairs]
    sent = []
    for (k, v), ae in zip(pairs, is_ae):
        if vc.branch(ae):
            continue
        sent.append((k, v))
    extra = [] if (has_body or vc.branch(req.method == "GET")) else ["content-length: 0"]
    vc.ensure("meaning.header_count", len(m["header_lines"]) == len(sent) + len(extra))
    if len(m["header_lines"]) != len(sent) + len(extra):
        return
    for i, (k, v) in enumerate(sent):
        vc.ensure(f"meaning.header_line[{i}]", m["header_lines"][i] == k + ": " + v)
        vc.ensure_kf(f"meaning.header_sent[{i}]", Not(blank(vc, v)), "KF-C48-2", blank(vc, v))
    vc.ensure("meaning.compressed_iff_accept_encoding", m["compressed"] == any(bool(vc.branch(a)) for a in is_ae))
    wrong_get = And(req.method == "GET", has_body)
    vc.ensure_kf("meaning.method", m["method"] == req.method, "KF-C48-3", wrong_get)
    if has_body:
        vc.ensure_kf("meaning.body_is_data_not_file", Not(startswith(text, "@")), "KF-C48-1", startswith(text, "@"))
    want_resolve = has_peer and vc.branch(req.pretty_host != addr)
    vc.ensure("meaning.resolve_iff_requested", len(m["resolve"]) == (1 if want_resolve else 0))
    if want_resolve and len(m["resolve"]) == 1:
        vc.ensure("meaning.resolve_value", m["resolve"][0] == req.pretty_host + ":" + to_str(vc, req.port) + ":[" + addr + "]")


def _lower_eq(vc, k, name):
    if vc.mode == "native":
        return k.lower() == name
    from pyvc import lib
    import z3
    return SBool(lib.uf("lower", z3.StringSort(), z3.StringSort())(k.t) == z3.StringVal(name))


def _ORIG_body(vc, req):
    if vc.mode != "native":
        return None

    class R:
        def get_text(self, strict=True):
            return req.text_
    return _ORIG["rcfc"](R())


# =====================================================================================================================
# httpie


@scenario("httpie_command", functions=[EX + "httpie_command"], candidates=SHELL_TEXTS)
def s_httpie(vc):
    req, pairs, has_body, text = mk_request(vc)
    install_export_env(vc, req)
    f = mk_flow(vc, req, None)
    out = vc.call(EX + "httpie_command", f)
    vc.ensure("no_exception", out.ok)
    if not out.ok:
        return
    ok, words, body = split_command(vc, out.result, " <<< ", _ORIG_body(vc, req) if has_body else None)
    vc.ensure("shell_safe.every_fragment_quoted", ok)
    if not ok:
        return
    vc.ensure("shell_safe.first_word_is_http", len(words) >= 1 and lit(words[0]) == "http")
    vc.ensure("args.count", len(words) == 3 + len(pairs))
    if len(words) != 3 + len(pairs):
        return
    vc.ensure("args.method", words[1] == req.method)
    vc.ensure("args.url", words[2] == req.pretty_url)
    for i, (k, v) in enumerate(pairs):
        vc.ensure(f"args.header[{i}]", words[3 + i] == k + ": " + v)
    vc.ensure("body.present_iff_content", body == has_body)
    # `<<<` (here-string) is not POSIX sh syntax: dash rejects the command line
    vc.ensure_kf("body.redirection_is_posix", not body, "KF-C48-6", has_body)


# =====================================================================================================================
# cleanup_request / pop_headers / raw


@scenario("cleanup_request", functions=[EX + "cleanup_request"])
def s_cleanup(vc):
    has_request = vc.case("has_request", [True, False])
    req, pairs, has_body, text = mk_request(vc, 1, body=True)
    f = vc.new("mitmproxy.http:HTTPFlow", request=req if has_request else None, response=None)
    out = vc.call(EX + "cleanup_request", f)
    if not has_request:
        from mitmproxy import exceptions
        vc.ensure("no_request.command_error", (not out.ok) and issubclass(out.raised_type(), exceptions.CommandError))
        return
    vc.ensure("no_exception", out.ok)
    if not out.ok:
        return
    r = out.result
    vc.ensure("works_on_a_copy", r is not req and r.origin is req)
    dec = r.decoded.items if vc.mode == "sym" else r.decoded
    vc.ensure("copy_decoded_leniently", len(dec) == 1 and vc.eq(dec[0], False))
    odec = req.decoded.items if vc.mode == "sym" else req.decoded
    vc.ensure("original_untouched", len(odec) == 0 and vc.eq(req.copies, 1))


H = "mitmproxy.http:Headers"
HEADER_SHAPES = {
    "none": [],
    "content-length": [b"content-length"],
    "Content-Length,x": [b"Content-Length", b"x-other"],
    "host": [b"host"],
    "Host,content-length": [b"Host", b"content-length"],
    ":authority,x": [b":authority", b"x-other"],
    "x,HOST": [b"x-other", b"HOST"],
}


@scenario("pop_headers", functions=[EX + "pop_headers"])
def s_pop_headers(vc):
    shape = vc.case("headers", list(HEADER_SHAPES))
    names = HEADER_SHAPES[shape]
    vals = [vc.sym_bytes(f"v{i}") for i in range(len(names))]
    for v in vals:
        vc.assume(_ascii(vc, v))
    hdrs = vc.new(H, fields=tuple(zip(names, vals)))
    host = vc.sym_str("host")
    req = vc.new(M + "RequestModel", headers=hdrs, host=host)
    out = vc.call(EX + "pop_headers", req)
    # a request without Host/:authority header whose host attribute is empty: headers.get("host", "") == request.host holds
    # vacuously and pop("host") raises KeyError
    lows = [n.lower() for n in names]
    vc.ensure("no_exception", out.ok)   # was KF-C48-7, fixed in 8488e828c
    if not out.ok:
        return
    post = vc.getattr(hdrs, "fields")
    post = list(post.items) if vc.mode == "sym" else list(post)
    # expected: content-length dropped; host / :authority dropped iff its value equals request.host; everything else kept in order
    keep = []
    for n, v in zip(names, vals):
        low = n.lower()
        if low == b"content-length":
            continue
        if low in (b"host", b":authority"):
            same = (_as_str(vc, v) == host)
            if vc.branch(same):
                continue
        keep.append((n, v))
    vc.ensure("remaining.count", len(post) == len(keep))
    if len(post) == len(keep):
        for i, (n, v) in enumerate(keep):
            got = post[i]
            got = got.items if vc.mode == "sym" else got
            vc.ensure(f"remaining[{i}]", And(vc.eq(got[0], n), got[1] == v))


def _ascii(vc, b):
    if vc.mode == "native":
        return all(c < 128 for c in b)
    import z3
    return SBool(z3.InRe(b.t, z3.Star(z3.Range(chr(0), chr(127)))))


def _as_str(vc, b):
    return b.decode("utf-8", "surrogateescape") if vc.mode == "native" else SStr(b.t)


@scenario("raw_request/raw", functions=[EX + "raw_request", EX + "raw", EX + "raw_response", EX + "cleanup_response"])
def s_raw(vc):
    from mitmproxy import exceptions
    which = vc.case("function", ["raw_request", "raw"])
    req_state = vc.case("request", ["with-content", "content-missing", "absent"])
    resp_state = vc.case("response", ["with-content", "content-missing", "absent"]) if which == "raw" else "absent"
    ws = vc.case("websocket", [False, True]) if (which == "raw" and req_state == "with-content" and resp_state == "with-content") else False
    req, pairs, has_body, text = mk_request(vc, 1, body=True)
    resp = vc.new(M + "RequestModel", raw_content=vc.sym_bytes("resp_content"), copies=0, decoded=vc.list([]), origin=None, headers=None, method=None,
                  content=None, pretty_url=None, pretty_host=None, host=None, port=None, text_=None)
    if req_state == "content-missing":
        req.raw_content = None
    if resp_state == "content-missing":
        resp.raw_content = None
    wsm = vc.new(M + "WsModel", formatted=vc.sym_bytes("ws_text")) if ws else None
    f = vc.new("mitmproxy.http:HTTPFlow", request=None if req_state == "absent" else req, response=None if resp_state == "absent" else resp, websocket=wsm)
    a_req, a_resp = vc.sym_bytes("assembled_request"), vc.sym_bytes("assembled_response")
    seen = []

    def asm_req(v, r):
        seen.append(("request", r))
        return a_req

    def asm_resp(v, r):
        seen.append(("response", r))
        return a_resp

    vc.summary("mitmproxy.net.http.http1.assemble:assemble_request", asm_req)
    vc.summary("mitmproxy.net.http.http1.assemble:assemble_response", asm_resp)
    out = vc.call(EX + which, f)
    req_ok, resp_ok = req_state == "with-content", resp_state == "with-content"
    if which == "raw_request":
        if req_ok:
            vc.ensure("raw_request.no_exception", out.ok)
            if out.ok:
                vc.ensure("raw_request.is_assembled_cleaned_copy", And(out.result == a_req, len(seen) == 1 and seen[0][1].origin is req))
        else:
            vc.ensure("raw_request.command_error", (not out.ok) and issubclass(out.raised_type(), exceptions.CommandError))
        return
    if not (req_ok or resp_ok):
        vc.ensure("raw.nothing_to_export.command_error", (not out.ok) and issubclass(out.raised_type(), exceptions.CommandError))
        return
    vc.ensure("raw.no_exception", out.ok)
    if not out.ok:
        return
    sep = b"\r\n\r\n"
    if req_ok and resp_ok:
        want = a_req + sep + a_resp + ((sep + wsm.formatted) if ws else b"")
    else:
        want = a_req if req_ok else a_resp
    vc.ensure("raw.parts_in_order", out.result == want)
    vc.ensure("raw.assembles_cleaned_copies", all(r.origin is (req if kind == "request" else resp) for kind, r in seen) and len(seen) == int(req_ok) + int(resp_ok))


# =====================================================================================================================
# T2 (bounded): run the exported commands under bash and dash with stub curl/http executables that dump argv + stdin

STUB = """#!/bin/sh
n=$(cat "$OUT.count" 2>/dev/null || echo 0)
n=$((n+1))
echo $n > "$OUT.count"
for a in "$@"; do printf '%s\\0' "$a"; done > "$OUT.argv"
cat > "$OUT.stdin"
"""

SHELL_META = ["a b", "a'b", 'a"b', "$(echo x > CANARY)", "`echo x > CANARY`", "; echo x > CANARY ;", "' ; echo x > CANARY ; '", "$HOME", "a\\b", "100%", "a&b|c<d>e", "#frag", "*?", "~", "é", "!!", "a\\'b"]


def _requests(tier, seed):
    """(label, kwargs) for http.Request + body; labels name the class a request belongs to"""
    import itertools
    import random
    out = []
    metas = SHELL_META if tier != "quick" else SHELL_META[:1] + SHELL_META[2:9] + SHELL_META[10:11]
    for m in metas:
        out.append(("path:" + m, dict(path=("/p/" + m).encode())))
        out.append(("header_value:" + m, dict(headers=[(b"x-a", m.encode())])))
        out.append(("header_name:" + m, dict(headers=[(("x-" + m).encode(), b"v")])))
        out.append(("method:" + m, dict(method=("M" + m).encode(), content=b"")))
        out.append(("body:" + m, dict(content=("body " + m).encode())))
    for name, val in [("empty", b""), ("blank", b"  "), ("leading-space", b"  v"), ("trailing-space", b"v  "), ("colon", b"a: b"), ("semicolon", b"v;")]:
        out.append(("header_value_" + name, dict(headers=[(b"x-a", val), (b"x-b", b"1")])))
    out.append(("accept-encoding", dict(headers=[(b"Accept-Encoding", b"gzip, br"), (b"x-b", b"1")])))
    out.append(("duplicate-headers", dict(headers=[(b"x-a", b"1"), (b"X-A", b"2"), (b"x-a", b"3")])))
    for name, body in [("at", b"@/etc/passwd"), ("at-mid", b"a@b"), ("ctl-newline", b"a\nb"), ("ctl-trailing-newline", b"line\n"), ("ctl-tab", b"a\tb"), ("ctl-percent", b"100%s\n"),
                       ("ctl-percent-d", b"%d\x01"), ("ctl-backslash", b"a\\nb\x01"), ("ctl-backslash-x", b"\\x41\x02"), ("ctl-nul", b"a\x00b"), ("ctl-esc", b"\x1b[2J"), ("ctl-crlf", b"a\r\nb\r\n"),
                       ("ctl-quote", b"it's\n"), ("ctl-dollar", b"$(echo x > CANARY)\n"), ("unicode", "h\u00e9llo \u2713".encode()), ("binary", b"\xff\xfe\x00"), ("form", b"a=1&b=2"), ("json", b'{"a": [1, 2]}'),
                       # text WITHOUT control characters that merely looks like an escape: must be passed on literally
                       ("literal-backslash-x", b"path=C:\\x41pp"), ("literal-regex", b"^\\x20+$"), ("literal-backslash-n", b"a\\nb\\tc"), ("literal-percent", b"100%s %d %%"),
                       ("literal-octal", b"\\101\\0")]:
        out.append(("body_" + name, dict(content=body)))
        out.append(("body_" + name + "/GET", dict(content=body, method=b"GET")))
    for name, path in [("glob-brackets", b"/a[1-2]"), ("glob-braces", b"/a{x,y}"), ("dot-segments", b"/a/../b"), ("query", b"/p?a=1&b=2"), ("percent", b"/p%20q"), ("fragment", b"/p#x")]:
        out.append(("url_" + name, dict(path=path)))
    for m in (b"GET", b"POST", b"PUT", b"DELETE", b"HEAD", b"OPTIONS", b"PATCH", b"M-SEARCH"):
        out.append(("method_" + m.decode(), dict(method=m, content=b"")))
        out.append(("method_" + m.decode() + "+body", dict(method=m, content=b"x=1")))
    for name, te in [("chunked", [b"chunked"]), ("gzip-chunked", [b"gzip, chunked"]), ("two-lines", [b"gzip", b"chunked"]), ("upper", [b"Chunked"]), ("gzip-chunked-nospace", [b"gzip,chunked"])]:
        out.append(("te_" + name, dict(headers=[(b"transfer-encoding", v) for v in te] + [(b"x-a", b"1")], content=b"hello chunked world")))
        out.append(("te_" + name + "/empty", dict(headers=[(b"transfer-encoding", v) for v in te], content=b"")))
    out.append(("host_empty", dict(host="", headers=[(b"x-a", b"1")])))
    for i, h in enumerate([b"a'b.example", b"x'; echo x > CANARY; '", b"$(echo x > CANARY)", b"a b", b"`echo x > CANARY`"]):
        out.append((f"host_header_meta{i}", dict(headers=[(b"Host", h), (b"x-a", b"1")])))
    out.append(("host_header_same", dict(headers=[(b"Host", b"example.com"), (b"content-length", b"3")], content=b"abc")))
    out.append(("host_header_other", dict(headers=[(b"Host", b"other.example"), (b"x", b"y")])))
    rnd = random.Random(seed)
    alphabet = ["a", " ", "'", '"', "$", "`", "\\", ";", "&", "%", "\n", "\t", "@", "é", "{", "[", "#", "!", "*", "(", ")"]
    for i in range(16 if tier == "quick" else 600):
        s = "".join(rnd.choice(alphabet) for _ in range(rnd.randint(1, 8)))
        hv = s.replace("\n", " ").strip() or "v"
        out.append((f"random{i}", dict(path=("/r" + s.replace("\n", "").replace("\t", "")).encode(), headers=[(b"x-r", hv.encode())], content=s.encode(), method=rnd.choice([b"POST", b"PUT", b"GET"]))))
    return out


def _mk_flow(method=b"POST", path=b"/p", headers=(), content=b"", host="example.com", peer=None):
    from mitmproxy import http
    from mitmproxy.test import tflow
    f = tflow.tflow()
    f.request = http.Request(host, 8080, method, b"http", b"", path, b"HTTP/1.1", http.Headers(headers), content, None, 0, 0)
    f.server_conn.peername = peer
    return f


def _run_shell(shell, cmd, tmp, stubdir):
    import os
    import subprocess
    out = os.path.join(tmp, "out")
    for suffix in (".count", ".argv", ".stdin"):
        try:
            os.unlink(out + suffix)
        except OSError:
            pass
    canary = os.path.join(tmp, "CANARY")
    if os.path.exists(canary):
        os.unlink(canary)
    p = subprocess.run([shell, "-c", cmd], env={"PATH": stubdir, "OUT": out, "HOME": "/expanded-home"}, cwd=tmp, capture_output=True, timeout=10, stdin=subprocess.DEVNULL)
    count = int(open(out + ".count").read()) if os.path.exists(out + ".count") else 0
    argv = open(out + ".argv", "rb").read().split(b"\0")[:-1] if os.path.exists(out + ".argv") else None
    stdin = open(out + ".stdin", "rb").read() if os.path.exists(out + ".stdin") else None
    return dict(count=count, argv=argv, stdin=stdin, canary=os.path.exists(canary), rc=p.returncode, stderr=p.stderr[:200])


class _NV:
    mode = "native"


def bounded(tier, seed):
    import os
    import shutil
    import tempfile
    from mitmproxy import exceptions
    from mitmproxy.addons import export
    from mitmproxy.net.http.http1 import read as h1read
    from mitmproxy.test import taddons

    b = Bounded()
    b.rule = ("requests with shell metacharacters, quotes, control characters, %, backslashes, glob characters in method / path / header names / header values / body, "
              "text and binary bodies, GET with body, empty header values, export_preserve_original_ip on/off; the exported curl and httpie commands are run by bash and by "
              "dash (POSIX sh) with PATH holding only stub `curl`/`http` programs that record argv and stdin; argv is read with the curl option spec and compared with the "
              "request; a canary file detects any other command being executed; the raw export is parsed back with the HTTP/1 reader; distinct = (request, option, shell, format)")
    b.bound = "quick: requests outside the body/url/header-value classes alternate between the two shells instead of running both; about 170 (quick) / 250 (thorough) structured requests + random ones (16 quick / 600 thorough) x 2 shells x {curl, httpie, raw}"
    b.exhaustive = False
    shells = [s for s in ("/usr/bin/bash", "/usr/bin/dash") if os.path.exists(s)]
    tmp = tempfile.mkdtemp(prefix="c48-")
    stubdir = os.path.join(tmp, "bin")
    os.mkdir(stubdir)
    for name in ("curl", "http"):
        p = os.path.join(stubdir, name)
        open(p, "w").write(STUB)
        os.chmod(p, 0o755)
    # the stub itself needs cat: give it one (the exported command line cannot name it by accident: PATH lookups of other names fail)
    for tool in ("cat",):
        src = shutil.which(tool)
        if src:
            os.symlink(src, os.path.join(stubdir, tool))
    nv = _NV()
    n_cmd = 0
    e = export.Export()
    try:
        with taddons.context(e) as tctx:
            for preserve in (False, True):
                tctx.configure(e, export_preserve_original_ip=preserve)
                for label, kw in _requests(tier, seed):
                    if preserve and not label.startswith(("path:", "method_", "host_")):
                        continue
                    f = _mk_flow(peer=("10.1.2.3", 443) if preserve else None, **kw)
                    inp = {"request": label, "export_preserve_original_ip": preserve}
                    try:
                        req = export.cleanup_request(f)
                        export.pop_headers(req)
                    except KeyError as ex:
                        b.case(("pop_headers", label, preserve))
                        b.fail("export.total.empty_host" if f.request.host == "" else "export.total", inp, f"KeyError {ex}")
                        continue
                    try:
                        text = req.get_text(strict=True) if req.content else ""
                    except ValueError:
                        text = None
                    hdrs = list(req.headers.items(multi=True))
                    req_full = export.cleanup_request(f)   # what raw_request assembles (content-length kept)
                    for fmt in ("curl", "httpie"):
                        n_cmd += 1
                        try:
                            cmd = export.formats[fmt](f)
                        except exceptions.CommandError as ex:
                            b.case((fmt, label, preserve, "refused"))
                            if text is not None:
                                b.fail(f"{fmt}.total", inp, f"CommandError for a text body: {ex}")
                            continue
                        both = tier != "quick" or label.startswith(("body", "url_", "header_value_", "method_GET"))
                        for sh in (shells if both else shells[n_cmd % len(shells):][:1]):
                            shn = os.path.basename(sh)
                            r = _run_shell(sh, cmd, tmp, stubdir)
                            b.case((fmt, label, preserve, shn), nontrivial=True)
                            inp2 = dict(inp, shell=shn, command=cmd)
                            if r["canary"]:
                                b.fail(f"{fmt}.shell.only_the_tool_runs", inp2, "canary file created: another command was executed")
                            if r["count"] != 1:
                                posix_here = fmt == "httpie" and shn == "dash" and req.content
                                ctl_body = text is not None and any(ord(c) < 32 for c in text)
                                cls = "httpie.runs_under_posix_sh" if posix_here else f"{fmt}.shell.tool_runs_exactly_once"
                                b.fail(cls, inp2, f"stub ran {r['count']} times; rc={r['rc']} stderr={r['stderr']!r}")
                                continue
                            argv = [a.decode("utf-8", "surrogateescape") for a in r["argv"]]
                            if fmt == "httpie":
                                want = [req.method, req.pretty_url] + [f"{k}: {v}" for k, v in hdrs]
                                if argv != want:
                                    b.fail("httpie.args", inp2, f"argv {argv!r} != {want!r}")
                                continue
                            _check_curl(b, nv, argv, req, hdrs, text, f, preserve, inp2, shn)
                    # raw export parses back to the same message
                    try:
                        raw = export.raw_request(f)
                    except exceptions.CommandError:
                        continue
                    b.case(("raw", label, preserve))
                    try:
                        head, _, body = raw.partition(b"\r\n\r\n")
                        back = h1read.read_request_head(head.split(b"\r\n"))
                        body = _read_framed_body(h1read, back, body)     # the body as a reader of the message recovers it
                        same = (back.method == req.method and back.path == req.path and back.headers.fields == req_full.headers.fields and body == req.raw_content and back.http_version == req.http_version)
                        if not same:
                            weird = label.startswith(("method:", "header_name:", "path:", "random")) or "space" in label or "blank" in label
                            b.fail("raw.parses_back.nonsyntactic_request" if weird else "raw.parses_back", inp, f"{back.method!r} {back.path!r} {back.headers.fields!r} {body!r} vs {req.method!r} {req.path!r} {req_full.headers.fields!r} {req.raw_content!r}")
                    except ValueError as ex:
                        weird = label.startswith(("method:", "header_name:", "path:", "random")) or "space" in label or "blank" in label
                        b.fail("raw.parses_back.nonsyntactic_request" if weird else "raw.parses_back", inp, f"reader rejects the raw export: {ex}")
            _validate_spec_with_real_curl(b, tier)
    finally:
        shutil.rmtree(tmp, ignore_errors=True)
    return b


def _read_framed_body(h1read, request, rest):
    """message body of a parsed HTTP/1 request head + following bytes, by RFC 9112 section 6.3 as implemented by the reader's
    expected_http_body_size: chunked => decode the chunks (ValueError if they are malformed), else Content-Length bytes"""
    size = h1read.expected_http_body_size(request)
    if size is None:
        out, pos = b"", 0
        while True:
            eol = rest.find(b"\r\n", pos)
            if eol < 0:
                raise ValueError("chunk size line missing")
            n = int(rest[pos:eol].split(b";")[0].strip(), 16)
            pos = eol + 2
            if n == 0:
                break
            if rest[pos + n:pos + n + 2] != b"\r\n":
                raise ValueError("chunk data not terminated by CRLF")
            out += rest[pos:pos + n]
            pos += n + 2
        return out
    if size == -1:
        return rest
    if len(rest) != size:
        raise ValueError(f"body has {len(rest)} bytes, framing says {size}")
    return rest


def _check_curl(b, nv, argv, req, hdrs, text, f, preserve, inp, shn):
    """argv as received by the stub, read with the curl option spec, must stand for the request"""
    body_arg = None
    words = ["curl"] + argv
    if len(argv) >= 2 and argv[-2] == "-d":
        body_arg = argv[-1]
        words = ["curl"] + argv[:-2]
    m = curl_meaning(nv, words, body_arg is not None)
    if not m["ok"] or len(m["urls"]) != 1:
        b.fail("curl.args.shape", inp, f"argv {argv!r}")
        return
    url = m["urls"][0]
    if url != req.pretty_url:
        b.fail("curl.args.url", inp, f"{url!r} != {req.pretty_url!r}")
    if any(c in url for c in "[]{}"):
        b.fail("curl.url.glob_chars", inp, f"curl globs {url!r} (no --globoff)")
    if "/../" in url or "/./" in url or url.endswith(("/..", "/.")):
        b.fail("curl.url.dot_segments", inp, f"curl normalises {url!r} (no --path-as-is)")
    if m["method"] != req.method:
        b.fail("curl.args.method.get_with_body" if (req.method == "GET" and req.content) else "curl.args.method", inp, f"curl would send {m['method']!r}, request has {req.method!r}")
    sent = []
    for line in m["header_lines"]:
        name, _, value = line.partition(":")
        if value.strip(" \t") == "":
            continue   # curl: a header with no value is not sent
        sent.append((name, value.strip(" \t")) if False else (name, value[1:] if value.startswith(" ") else value))
    want = [(k, v) for k, v in hdrs if k.lower() != "accept-encoding"]
    if req.method != "GET" and not req.content:
        want = want + [("content-length", "0")]
    if sent != want:
        blank_vals = any(v.strip(" \t") == "" for k, v in want)
        b.fail("curl.headers.blank_value" if blank_vals else "curl.args.headers", inp, f"curl would send {sent!r}, request has {want!r}")
    if m["compressed"] != any(k.lower() == "accept-encoding" for k, v in hdrs):
        b.fail("curl.args.compressed", inp, f"argv {argv!r}")
    if bool(req.content) != (body_arg is not None):
        b.fail("curl.body.present_iff_content", inp, f"argv {argv!r}")
    if body_arg is not None and text is not None:
        if body_arg.startswith("@"):
            b.fail("curl.body.at_prefix", inp, f"-d {body_arg!r} makes curl read a file")
        elif body_arg != text:
            ctl = any(ord(c) < 32 for c in text)
            b.fail(f"curl.body.printf_path.{shn}" if ctl else "curl.body.exact", inp, f"curl gets {body_arg!r}, body is {text!r}")
    if preserve and f.server_conn.peername and req.pretty_host != f.server_conn.peername[0]:
        if m["resolve"] != [f"{req.pretty_host}:{req.port}:[{f.server_conn.peername[0]}]"]:
            b.fail("curl.args.resolve", inp, f"{m['resolve']!r}")
    elif m["resolve"]:
        b.fail("curl.args.resolve", inp, f"unexpected {m['resolve']!r}")


def _validate_spec_with_real_curl(b, tier):
    """the curl option spec used above, checked against a real curl binary (if installed) talking to a loopback socket"""
    import shutil
    import socket
    import subprocess
    import threading
    curl = shutil.which("curl")
    if not curl:
        return

    def once(args):
        s = socket.socket()
        s.bind(("127.0.0.1", 0))
        s.listen(1)
        port = s.getsockname()[1]
        got = []

        def serve():
            s.settimeout(5)
            try:
                c, _ = s.accept()
            except OSError:
                got.append(None)
                return
            c.settimeout(1.0)
            data = b""
            try:
                while b"\r\n\r\n" not in data:
                    chunk = c.recv(65536)
                    if not chunk:
                        break
                    data += chunk
                head, _, body = data.partition(b"\r\n\r\n")
                import re
                mm = re.search(rb"content-length: *(\d+)", head, re.I)
                n = int(mm.group(1)) if mm else 0
                while len(body) < n:
                    chunk = c.recv(65536)
                    if not chunk:
                        break
                    body += chunk
                data = head + b"\r\n\r\n" + body
            except OSError:
                pass
            try:
                c.sendall(b"HTTP/1.1 200 OK\r\nContent-Length: 0\r\nConnection: close\r\n\r\n")
                c.close()
            except OSError:
                pass
            got.append(data)

        t = threading.Thread(target=serve)
        t.start()
        subprocess.run([curl, "-s", "-o", "/dev/null", "--max-time", "3"] + [a.replace("PORT", str(port)) for a in args], capture_output=True, cwd="/")
        t.join()
        s.close()
        return got[0] if got else None

    cases = [
        ("plain", ["http://127.0.0.1:PORT/p"], b"GET /p ", None, [], []),
        ("-d => POST", ["http://127.0.0.1:PORT/p", "-d", "hello"], b"POST /p ", b"hello", [], []),
        ("-X", ["-X", "PUT", "http://127.0.0.1:PORT/p", "-d", "x"], b"PUT /p ", b"x", [], []),
        ("blank header value is not sent", ["-H", "x-empty: ", "-H", "x-a: b", "http://127.0.0.1:PORT/p"], b"GET /p ", None, [b"x-a: b"], [b"x-empty"]),
        ("glob", ["http://127.0.0.1:PORT/a[1-1]"], b"GET /a1 ", None, [], []),
        ("dot segments", ["http://127.0.0.1:PORT/a/../b"], b"GET /b ", None, [], []),
    ]
    for name, args, start, body, has, hasnot in cases:
        wire = once(args)
        b.case(("real-curl", name))
        if wire is None:
            continue
        ok = wire.startswith(start) and (body is None or wire.endswith(b"\r\n\r\n" + body)) and all(h in wire for h in has) and not any(h in wire.lower() for h in hasnot)
        if not ok:
            b.fail("curl_spec.matches_real_curl", {"case": name, "args": args}, repr(wire[:300]))
    import tempfile
    with tempfile.NamedTemporaryFile("w", suffix=".txt", delete=False) as tf:
        tf.write("FILEDATA")
    try:
        wire = once(["http://127.0.0.1:PORT/p", "-d", "@" + tf.name])
        b.case(("real-curl", "@file"))
        if wire is not None and not wire.endswith(b"FILEDATA"):
            b.fail("curl_spec.matches_real_curl", {"case": "-d @file reads the file"}, repr(wire[:300]))
    finally:
        import os
        os.unlink(tf.name)
