/-
L-SEG (DESIGN.md §5.1): segmentation independence of a buffered step parser from two local obligations.

A layer keeps a state `σ` and a buffer. On every received segment it appends the segment to the buffer and re-runs a
`step` until the step makes no progress:
  step s buf = none                 -- incomplete: nothing happens (obligation (N) is this `none` meaning "no-op")
  step s buf = some (s', out, rest) -- progress: new state, emitted output, unconsumed rest
Local obligations proved on the real code (pyvc, per state function):
  (P) prefix determinism:  step s b = some (s', o, r)  →  step s (b ++ x) = some (s', o, r ++ x)
  (D) progress consumes:   step s b = some (s', o, r)  →  r.length < b.length
Theorem `feed_append`: feeding `x ++ y` at once gives the same final state, the same concatenated output and the same
remaining buffer as feeding `x` and then `y`.  By induction on the list of segments (`feedAll_join`) every segmentation
of a stream yields the same result as whole-stream delivery.
-/

universe u v w

variable {α : Type u} {β : Type v} {σ : Type w}

structure Parser (α : Type u) (β : Type v) (σ : Type w) where
  step : σ → List α → Option (σ × List β × List α)
  prefixDet : ∀ s b s' o r x, step s b = some (s', o, r) → step s (b ++ x) = some (s', o, r ++ x)
  consumes : ∀ s b s' o r, step s b = some (s', o, r) → r.length < b.length

namespace Parser

/-- run `step` until it reports "incomplete"; fuel = an upper bound on the number of steps (buffer length suffices) -/
def drainFuel (p : Parser α β σ) : Nat → σ → List α → σ × List β × List α
  | 0, s, b => (s, [], b)
  | n + 1, s, b =>
    match p.step s b with
    | none => (s, [], b)
    | some (s', o, r) =>
      let (s2, o2, r2) := drainFuel p n s' r
      (s2, o ++ o2, r2)

def drain (p : Parser α β σ) (s : σ) (b : List α) : σ × List β × List α :=
  drainFuel p (b.length + 1) s b

/-- more fuel than the buffer length does not change the result -/
theorem drainFuel_stable (p : Parser α β σ) :
    ∀ (n : Nat) (s : σ) (b : List α) (m : Nat), b.length < n → b.length < m →
      drainFuel p n s b = drainFuel p m s b := by
  intro n
  induction n with
  | zero => intro s b m h; exact absurd h (Nat.not_lt_zero _)
  | succ n ih =>
    intro s b m hn hm
    cases m with
    | zero => exact absurd hm (Nat.not_lt_zero _)
    | succ m =>
      simp only [drainFuel]
      cases hstep : p.step s b with
      | none => rfl
      | some t =>
        obtain ⟨s', o, r⟩ := t
        have hr := p.consumes s b s' o r hstep
        have h1 : r.length < n := by omega
        have h2 : r.length < m := by omega
        simp only []
        rw [ih s' r m h1 h2]

theorem drain_eq_fuel (p : Parser α β σ) (s : σ) (b : List α) (n : Nat) (h : b.length < n) :
    drain p s b = drainFuel p n s b := by
  unfold drain
  exact drainFuel_stable p (b.length + 1) s b n (Nat.lt_succ_self _) h

/-- key lemma: draining `b ++ x` = draining `b`, then draining what is left plus `x` -/
theorem drain_append (p : Parser α β σ) :
    ∀ (k : Nat) (s : σ) (b x : List α), b.length ≤ k →
      drain p s (b ++ x) =
        (let r1 := drain p s b
         let r2 := drain p r1.1 (r1.2.2 ++ x)
         (r2.1, r1.2.1 ++ r2.2.1, r2.2.2)) := by
  intro k
  induction k with
  | zero =>
    intro s b x hk
    have hb : b = [] := List.length_eq_zero_iff.mp (Nat.le_zero.mp hk)
    subst hb
    have h0 : drain p s ([] : List α) = (s, [], []) := by
      unfold drain
      simp only [drainFuel, List.length_nil]
      cases hstep : p.step s [] with
      | none => rfl
      | some t =>
        obtain ⟨s', o, r⟩ := t
        have := p.consumes s [] s' o r hstep
        simp at this
    simp [h0]
  | succ k ih =>
    intro s b x hk
    cases hstep : p.step s b with
    | none =>
      have hb : drain p s b = (s, [], b) := by
        unfold drain
        simp only [drainFuel, hstep]
      simp [hb]
    | some t =>
      obtain ⟨s', o, r⟩ := t
      have hr := p.consumes s b s' o r hstep
      have hstep' := p.prefixDet s b s' o r x hstep
      have hb : drain p s b = (let q := drain p s' r; (q.1, o ++ q.2.1, q.2.2)) := by
        have e1 : drain p s b = drainFuel p (b.length + 1) s b := rfl
        rw [e1]
        simp only [drainFuel, hstep]
        have : drainFuel p b.length s' r = drain p s' r := (drain_eq_fuel p s' r b.length hr).symm
        rw [this]
      have hbx : drain p s (b ++ x) = (let q := drain p s' (r ++ x); (q.1, o ++ q.2.1, q.2.2)) := by
        have e1 : drain p s (b ++ x) = drainFuel p ((b ++ x).length + 1) s (b ++ x) := rfl
        rw [e1]
        simp only [drainFuel, hstep']
        have hlen : (r ++ x).length < (b ++ x).length := by
          simp only [List.length_append]; omega
        have : drainFuel p (b ++ x).length s' (r ++ x) = drain p s' (r ++ x) :=
          (drain_eq_fuel p s' (r ++ x) (b ++ x).length hlen).symm
        rw [this]
      have hrk : r.length ≤ k := by omega
      have hi := ih s' r x hrk
      rw [hbx, hb, hi]
      simp [List.append_assoc]

/-- one received segment: append to the buffer, drain -/
def feed (p : Parser α β σ) (st : σ × List β × List α) (x : List α) : σ × List β × List α :=
  let r := drain p st.1 (st.2.2 ++ x)
  (r.1, st.2.1 ++ r.2.1, r.2.2)

/-- after a feed the buffer is "drained": another drain is a no-op. Needed to chain feeds. -/
theorem drainFuel_idem (p : Parser α β σ) :
    ∀ (n : Nat) (s : σ) (b : List α), b.length < n →
      let r := drainFuel p n s b
      p.step r.1 r.2.2 = none := by
  intro n
  induction n with
  | zero => intro s b h; exact absurd h (Nat.not_lt_zero _)
  | succ n ih =>
    intro s b h
    simp only [drainFuel]
    cases hstep : p.step s b with
    | none => simpa using hstep
    | some t =>
      obtain ⟨s', o, r⟩ := t
      have hr := p.consumes s b s' o r hstep
      have := ih s' r (by omega)
      simpa using this

theorem drain_idem (p : Parser α β σ) (s : σ) (b : List α) :
    p.step (drain p s b).1 (drain p s b).2.2 = none := by
  unfold drain
  exact drainFuel_idem p (b.length + 1) s b (Nat.lt_succ_self _)

theorem drain_of_none (p : Parser α β σ) (s : σ) (b : List α) (h : p.step s b = none) :
    drain p s b = (s, [], b) := by
  unfold drain
  simp only [drainFuel, h]

/-- **Segmentation independence (two segments)**: feeding `x ++ y` at once equals feeding `x` then `y`,
    from any state whose buffer is drained. -/
theorem feed_append (p : Parser α β σ) (st : σ × List β × List α) (x y : List α) :
    feed p st (x ++ y) = feed p (feed p st x) y := by
  unfold feed
  have h := drain_append p (st.2.2 ++ x).length st.1 (st.2.2 ++ x) y (Nat.le_refl _)
  rw [← List.append_assoc, h]
  simp [List.append_assoc]

/-- feeding a list of segments one after the other -/
def feedAll (p : Parser α β σ) (st : σ × List β × List α) : List (List α) → σ × List β × List α
  | [] => st
  | x :: xs => feedAll p (feed p st x) xs

/-- feeding the empty segment to a drained state changes nothing -/
theorem feed_nil (p : Parser α β σ) (st : σ × List β × List α) (hd : p.step st.1 st.2.2 = none) :
    feed p st [] = st := by
  unfold feed
  simp [drain_of_none p st.1 st.2.2 hd]

theorem feed_drained (p : Parser α β σ) (st : σ × List β × List α) (x : List α) :
    p.step (feed p st x).1 (feed p st x).2.2 = none := by
  unfold feed
  exact drain_idem p st.1 (st.2.2 ++ x)

/-- **Segmentation independence (any segmentation)**: every way of cutting a stream into segments yields the same final
    state, output and buffer as delivering the whole stream at once. -/
theorem feedAll_join (p : Parser α β σ) :
    ∀ (segs : List (List α)) (st : σ × List β × List α), p.step st.1 st.2.2 = none →
      feedAll p st segs = feed p st segs.flatten := by
  intro segs
  induction segs with
  | nil => intro st hd; simp [feedAll, feed_nil p st hd]
  | cons x xs ih =>
    intro st hd
    simp only [feedAll, List.flatten_cons]
    rw [ih (feed p st x) (feed_drained p st x), feed_append]

end Parser

#print axioms Parser.feedAll_join
