import sys
sys.path[:0] = ["/repo", "/verif"]
import h2.events
from mitmproxy.proxy import layers
from mitmproxy.proxy.layers.http import HTTPMode
from props import sansio, h2peer
from props import http1ref as R
for n in (100, 20000):
    opts = R.get_options()
    ctx = sansio.context_for(opts)
    ctx.client.alpn = b"h2"
    top = layers.HttpLayer(ctx, HTTPMode.regular)
    err = "<b>" + "A" * n
    d = sansio.Driver(top, open_policy=lambda cmd: err)
    d.start()
    peer = h2peer.H2Peer(d, ctx.client, client_side=True)
    peer.start()
    sid = peer.h2.get_next_available_stream_id()
    peer.h2.send_headers(sid, [(b":method", b"GET"), (b":scheme", b"http"), (b":authority", b"example.com"), (b":path", b"/")], end_stream=True)
    peer.flush()
    peer.pump()
    body = b"".join(e.data for e in peer.events if isinstance(e, h2.events.DataReceived))
    print(n, "body", len(body), "ended", any(isinstance(e, h2.events.StreamEnded) for e in peer.events), [type(e).__name__ for e in peer.events][-6:], "complete html:", body.endswith(b"</html>"))
    # give the peer's window updates back to mitmproxy and pump again
    peer.flush(); peer.pump()
    print("   after flush: ended", any(isinstance(e, h2.events.StreamEnded) for e in peer.events), "reset", [e for e in peer.events if isinstance(e, h2.events.StreamReset)])
