# which handshakes get the pin: outer of a secure web proxy yes; inner (after CONNECT) no, with and without outer TLS
from mitmproxy.addons import tlsconfig
from mitmproxy.proxy import context, layers
from mitmproxy.proxy.layers import modes, tls as ptls, http
from mitmproxy.proxy.layers.http import HTTPMode
from mitmproxy.test import taddons, tflow
from mitmproxy import tls
import tempfile
ta = tlsconfig.TlsConfig()
with taddons.context(ta) as tctx, tempfile.TemporaryDirectory() as d:
    tctx.configure(ta, confdir=d)
    def run(stack_fn):
        c = tflow.tclient_conn(); c.tls = False; c.alpn = None; c.sni = "example.com"
        ctx = context.Context(c, tctx.options)
        tl = stack_fn(ctx)
        ts = tls.TlsData(tl.context.client, context=tl.context)
        tl.context.client.sni = "example.com"; ta.tls_start_client(ts)
        return [type(x).__name__ for x in tl.context.layers], ts.ssl_conn.get_app_data()["client_alpn"]
    def outer(ctx):
        modes.HttpProxy(ctx); t = ptls.ClientTLSLayer(ctx); http.HttpLayer(ctx, HTTPMode.regular); return t
    def inner_plain(ctx):
        modes.HttpProxy(ctx); h = http.HttpLayer(ctx, HTTPMode.regular)
        c2 = ctx.fork(); s = http.HttpStream(c2, 1); ptls.ServerTLSLayer(c2); return ptls.ClientTLSLayer(c2)
    def inner_secure(ctx):
        modes.HttpProxy(ctx); ptls.ClientTLSLayer(ctx); http.HttpLayer(ctx, HTTPMode.regular)
        c2 = ctx.fork(); http.HttpStream(c2, 1); ptls.ServerTLSLayer(c2); return ptls.ClientTLSLayer(c2)
    for f in (outer, inner_plain, inner_secure):
        print(f.__name__, run(f))
