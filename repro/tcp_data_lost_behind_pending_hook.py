import sys; sys.path.insert(0, __import__("os").path.dirname(__import__("os").path.dirname(__import__("os").path.abspath(__file__))))
from props import sansio
from mitmproxy.proxy.layers import tcp as LT
from mitmproxy.proxy import events, commands
from mitmproxy.connection import ConnectionState as S
ctx = sansio.context_for(); ctx.server.address = ("example.com", 80)
lay = LT.TCPLayer(ctx)
out = []
def feed(ev):
    for c in lay.handle_event(ev):
        out.append(c); yield c
cmds = list(lay.handle_event(events.Start()))
print(cmds)
hook = cmds[-1]
cmds = list(lay.handle_event(events.HookCompleted(hook))); print(cmds)
oc = cmds[-1]; ctx.server.state = S.OPEN
print(list(lay.handle_event(events.OpenConnectionCompleted(oc, None))))
cmds = list(lay.handle_event(events.DataReceived(ctx.client, b"request"))); print(cmds)
mh = cmds[-1]
# while the tcp_message hook is pending (slow async addon / intercepted flow), as server.py does it: state first, then the event
ctx.client.state &= ~S.CAN_READ; print("cc", list(lay.handle_event(events.ConnectionClosed(ctx.client))))
print("ds", list(lay.handle_event(events.DataReceived(ctx.server, b"RESPONSE"))))
ctx.server.state &= ~S.CAN_READ; print("cs", list(lay.handle_event(events.ConnectionClosed(ctx.server))))
print("resume", list(lay.handle_event(events.HookCompleted(mh))))
print([m.content for m in lay.flow.messages])
