#!/bin/bash
# usage: seed_eval.sh <seeded/<name>>  : applies seeded/<name>/patch.diff to a scratch worktree of /repo, runs the demo
# (must fail there, pass on the unchanged tree) and the property's quick check (PYVC_REPO=scratch); prints a summary line.
d=$1; name=$(basename $d); pid=$(python3 -c "import json;print(json.load(open('$d/meta.json'))['property'])")
W=$(mktemp -d /tmp/seedeval.XXXXXX)
git -C /repo worktree add --detach -f "$W" HEAD >/dev/null 2>&1 || exit 9
demo=$(ls $d/demo*.py | head -1)
PYTHONPATH=/repo /venv/bin/python $demo >/dev/null 2>&1; base=$?
(cd "$W" && git apply "$OLDPWD/$d/patch.diff") || { echo "$name: patch does not apply"; git -C /repo worktree remove --force "$W"; exit 8; }
PYTHONPATH="$W" /venv/bin/python $demo >/dev/null 2>&1; mut=$?
# meta.json may name the properties whose checks are expected to catch the change ("checked_by"); default: the seeded property
pids=$(python3 -c "import json;m=json.load(open('$d/meta.json'));print(' '.join(m.get('checked_by',[m['property']])))")
res=""
# per-scenario exploration budget (default of the checks: 900 s quick); smaller here only to keep seed sweeps short
export PYVC_SCENARIO_BUDGET=${PYVC_SCENARIO_BUDGET:-300}
for cp in $pids; do
out=$(cd /verif && PYVC_REPO="$W" ./check $cp --tier quick 2>&1)
rc=$?
viol=$(echo "$out" | grep -c "^VIOLATION")
first=$(echo "$out" | grep "^VIOLATION" | head -2 | sed 's#.*/replays/##' | tr '\n' ' ')
und=$(echo "$out" | grep -c "^UNDECIDED")
echo "$name property=$pid check=$cp demo_on_unchanged=$base demo_on_seeded=$mut check_exit=$rc violations=$viol undecided=$und first=[$first]"
res="$res{\"check\": \"$cp\", \"exit\": $rc, \"violations\": $viol, \"undecided\": $und, \"first\": \"$(echo $first | sed 's/ *$//')\"},"
done
# the last evaluation is kept next to the seed (read by tools_seed_table.py)
echo "{\"repo_head\": \"$(git -C /repo log --format=%h -1)\", \"demo_on_unchanged\": $base, \"demo_on_seeded\": $mut, \"results\": [${res%,}]}" > $d/eval.json
git -C /repo worktree remove --force "$W"; rm -rf "$W"
