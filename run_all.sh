#!/bin/bash
# runs every property module's quick check, prints one summary line each (plus any non-OK lines)
cd /verif
for f in props/C[0-9][0-9].py; do p=$(basename $f .py); [ -n "$1" ] && [[ ! " $* " =~ " $p " ]] && continue
  out=$(PYVC_NPROC=${PYVC_NPROC:-8} timeout 1500 ./check $p --tier quick 2>&1); rc=$?
  echo "$out" | grep -E "^\[$p\]" | cut -c1-230 | sed "s/^/rc=$rc /"
  echo "$out" | grep -E "^(VIOLATION|UNDECIDED|CHECKER-CRASH|STALE)" | cut -c1-260 | head -4
done
