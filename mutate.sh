#!/bin/bash
# usage: mutate.sh <file-in-repo> <python-expr old> <new> <prop...>   -- applies a textual mutation, runs checks, reverts
f=$1; old=$2; new=$3; shift 3
cd /repo && python3 - "$f" "$old" "$new" <<'PY'
import sys
p,old,new=sys.argv[1:4]
s=open(p).read()
assert s.count(old)>=1, "pattern not found"
open(p,'w').write(s.replace(old,new,1))
PY
[ $? -eq 0 ] || exit 9
for p in "$@"; do (cd /verif && ./check $p --no-bounded 2>&1 | grep -E "^\[|VIOLATION|UNDECIDED|CRASH" | head -6); done
cd /repo && git checkout -- .
