#!/bin/bash
# usage: mutate.sh <file-in-repo> <old-text> <new-text> <prop...> [-- extra check args]
# Applies a textual mutation to a scratch git worktree of /repo (never to /repo itself), runs the checks against it
# via PYVC_REPO, prints the verdict lines and removes the worktree.
f=$1; old=$2; new=$3; shift 3
W=$(mktemp -d /tmp/mut.XXXXXX)
git -C /repo worktree add --detach -f "$W" HEAD >/dev/null 2>&1 || { echo "worktree failed"; exit 9; }
# carry over uncommitted changes of /repo's working tree
(cd /repo && git diff HEAD) | (cd "$W" && git apply 2>/dev/null)
python3 - "$W/$f" "$old" "$new" <<'PY'
import sys
p,old,new=sys.argv[1:4]
s=open(p).read()
assert s.count(old)>=1, "pattern not found"
open(p,'w').write(s.replace(old,new,1))
PY
rc=$?
if [ $rc -eq 0 ]; then
  for p in "$@"; do (cd /verif && PYVC_REPO="$W" ./check $p ${MUT_ARGS:---no-bounded} 2>&1 | grep -E "^\[|VIOLATION|UNDECIDED|CRASH|KNOWN|STALE" | head -${MUT_LINES:-6}); done
fi
git -C /repo worktree remove --force "$W"; rm -rf "$W"
exit $rc
