#!/usr/bin/env python3
"""Move known findings of a property to `fixed:` lines after a `fix:` commit in /repo.

usage: tools_kf_fixed.py Cxx <commit> KF-id[,KF-id...] [--what "text"]

Every finding whose id is one of the ids given, or one of them followed by a suffix
('-t2', '/t2', 't', 'a', 'b', ...), is removed from known_findings.d/Cxx.json and one
`fixed: property=Cxx <commit> <what> Was <ids>.` line is appended. The `what` text defaults
to the text of the first removed finding. The props file still has to be edited by hand
(ensure_kf -> ensure): a fixed entry suppresses nothing.
"""
import json
import re
import sys


def main():
    prop, commit, ids = sys.argv[1], sys.argv[2], sys.argv[3].split(",")
    what = None
    if "--what" in sys.argv:
        what = sys.argv[sys.argv.index("--what") + 1]
    path = f"/verif/known_findings.d/{prop}.json"
    d = json.load(open(path))
    keep, gone = [], []
    for f in d["findings"]:
        if any(f["id"] == i or re.fullmatch(re.escape(i) + r"([-/]?t2?[ab]?|[ab])", f["id"]) for i in ids):
            gone.append(f)
        else:
            keep.append(f)
    if not gone:
        sys.exit(f"no finding matches {ids}")
    if what is None:
        what = re.sub(r"^KF-C\d+-\d+\w*\s+(\(bounded\)\s+)?", "", gone[0]["what"])
    d["findings"] = keep
    d.setdefault("fixed", []).append(
        f"fixed: property={prop} {commit} {what.rstrip('.')}. Was {', '.join(g['id'] for g in gone)}."
    )
    json.dump(d, open(path, "w"), indent=1, ensure_ascii=False)
    open(path, "a").write("\n")
    print("removed", [g["id"] for g in gone])


main()
