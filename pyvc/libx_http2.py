"""Library contracts used by the HTTP properties C05/C06/C08.

* collections.defaultdict: an insertion-ordered dict (SDict) with a default factory; `d[k]` on a missing key calls the
  factory, stores and returns the value (hook in lib.dict_get); every other operation is the dict one. Exact.
"""
import collections

from .lib import *  # noqa: F401,F403
from .lib import CLASS_MODELS
from . import interp as I


class SDefaultDict(SDict):
    """collections.defaultdict: SDict + default_factory (an SV callable, e.g. SConst(list))"""

    def __init__(self, default_factory=None, items=()):
        super().__init__(items)
        self.default_factory = default_factory

    def __repr__(self):
        return f"SDefaultDict({self.items})"


def _defaultdict(it, factory=None, items=None, **kw):
    f = None if factory is None or isinstance(factory, SNoneT) else factory
    d = SDefaultDict(f)
    if items is not None:
        src = it.resolve(items)
        if isinstance(src, SDict):
            d.items = list(src.items)
        else:
            for kv in it.iterate(src):
                k, v = it.lib.unpack(it, kv, 2)
                d.items.append((k, v))
    return d


CLASS_MODELS[collections.defaultdict] = _defaultdict


# ---------------------------------------------------------------------------------------------
# mitmproxy.connection.Connection.id default factory: `lambda: str(uuid.uuid4())`.
# Contract: returns a string different from every other connection id in the run (uuid4 collision-freedom is assumed).
def _connection_id_factory():
    import dataclasses
    from mitmproxy import connection

    return [f for f in dataclasses.fields(connection.Connection) if f.name == "id"][0].default_factory


@function(_connection_id_factory())
def f_connection_id(it):
    n = it.ex.counter.get("uuid4", 0)
    it.ex.counter["uuid4"] = n + 1
    it.ex.note("assumed", "uuid.uuid4() values are pairwise distinct and distinct from the ids in the pre-state")
    return SStr(f"uuid4-fresh-{n}")


# explicit dunder calls on lists/tuples (tunnel.LayerStack.__getitem__ does `self._stack.__getitem__(item)`)
@method(SList, "__getitem__")
@method(STuple, "__getitem__")
def _seq_dunder_getitem(it, l, idx):
    return getitem_v(it, l, it.resolve(idx))


@method(SList, "__len__")
@method(STuple, "__len__")
def _seq_dunder_len(it, l):
    return SInt(len(l.items))


# a defaultdict has every dict method (the dict models operate on .items and never look keys up through __missing__)
from .lib import METHODS as _METHODS  # noqa: E402

for (_t, _n), _fn in list(_METHODS.items()):
    if _t is SDict:
        _METHODS[(SDefaultDict, _n)] = _fn


# bytes/str.islower(): uninterpreted predicate with the (true) lemma islower(s) => lower(s) == s, instantiated at s
from .lib import uf as _uf, _S as _SS  # noqa: E402


def _islower(it, s):
    c = s.concrete()
    if c is not None:
        return lift(c.islower())
    p = _uf("islower", _SS, z3.BoolSort())(s.t)
    it.ex.assume(z3.Implies(p, _uf("lower", _SS, _SS)(s.t) == s.t))
    it.ex.note("lib", "islower (uninterpreted; lemma islower(s) => lower(s) == s)")
    return SBool(p)


method(SBytes, "islower")(_islower)
method(SStr, "islower")(_islower)


# str/bytes.lstrip / rstrip (with or without argument): uninterpreted, result is a substring (suffix / prefix) of the input
def _mk_side_strip(name):
    def _f(it, s, *a):
        c = s.concrete()
        if c is not None and all(x.concrete() is not None for x in a):
            return lift(getattr(c, name)(*[x.concrete() for x in a]))
        f = _uf(name + ("_" + repr(a[0].concrete()) if a else ""), _SS, _SS)
        r = f(s.t)
        it.ex.assume(z3.SuffixOf(r, s.t) if name == "lstrip" else z3.PrefixOf(r, s.t))
        it.ex.note("lib", f"{name} (uninterpreted; result is a {'suffix' if name == 'lstrip' else 'prefix'} of the input)")
        return type(s)(r)

    return _f


for _T2 in (SBytes, SStr):
    for _nm in ("lstrip", "rstrip"):
        if (_T2, _nm) not in _METHODS:
            _METHODS[(_T2, _nm)] = _mk_side_strip(_nm)


# default factory for defaultdict(collections.deque) pre-states: always the libx_collections deque representation
# (SObj(deque, {"_items": SList})), whichever libx module registered CLASS_MODELS[collections.deque] last
def fresh_deque():
    return collections.deque()


@function(fresh_deque)
def f_fresh_deque(it):
    return SObj(collections.deque, {"_items": SList([])})


# range(start, stop, step) with concrete start/step > 0 and a symbolic stop: fork over the number of iterations (exact; paths
# beyond max_unroll iterations are truncated and reported as bounded). Extends whatever range model is registered so far.
from .lib import FUNCTIONS as _FUNCTIONS  # noqa: E402

_prev_range = _FUNCTIONS[id(range)][1]


def _range_symbolic_stop_with_step(it, *a):
    vals = [it.resolve(x) for x in a]
    if len(vals) == 3 and vals[0].concrete() is not None and vals[2].concrete() is not None and vals[2].concrete() > 0 and vals[1].concrete() is None \
            and isinstance(vals[1], SInt):
        start, step, stop = vals[0].concrete(), vals[2].concrete(), vals[1]
        for k in range(0, it.ex.max_unroll + 1):
            if it.branch(SBool(stop.t <= start + k * step)):
                return SList([SInt(start + i * step) for i in range(k)])
        it.ex.note("bounded", f"range(start, symbolic stop, step): at most {it.ex.max_unroll} iterations explored")
        raise I.PathEnd("range bound", truncated=True)
    return _prev_range(it, *a)


_FUNCTIONS[id(range)] = (range, _range_symbolic_stop_with_step)
