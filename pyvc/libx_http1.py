"""Trusted library contracts used by the HTTP/1 properties C01 / C02 / C12.

* markup projection `h` (C12): h(x) = the subsequence of the markup characters  < > " '  of x.  h is a monoid
  homomorphism; it is applied structurally to the z3 terms the interpreter builds (concatenations, literals,
  int-to-str) and is an uninterpreted function `markup_proj` on everything else.  The library functions through
  which an error page flows are *uninterpreted* (no claim about their exact output) with exactly one fact each:
      html.escape(s)                 : h(result) = ""            (this IS the trusted contract of html.escape)
      html.escape(s, quote=False)    : result contains no < >    (quotes may pass)
      textwrap.dedent(s)             : h(result) = h(s)          (deletes/rewrites only blanks at line starts)
      str.strip()                    : h(result) = h(s)          (deletes only whitespace)           [opt-in]
      str.encode("utf8", "replace")  : h(result) = h(s)          (UTF-8 maps non-ASCII to bytes >= 0x80 and a lone
                                                                  surrogate to "?"; ASCII is unchanged)  [opt-in]
  The two str-method facts are enabled by the scenario option `markup_proj=True`, so no other module is affected.
* exact models of the three fixed validation regexes of mitmproxy.net.http.validate and of
  `re.sub(r"[\\t ]*,[\\t ]*", ",", te)` restricted to what parse_transfer_encoding asks of it (membership of the result
  in a fixed finite set), as SMT regular-expression membership.
Every model is exact or over-approximate; what is assumed is recorded with it.ex.note("assumed", ...).
"""
from __future__ import annotations

import html
import re
import textwrap
import types as _types

import z3

from .lib import *  # noqa: F401,F403
from .lib import METHODS, function, method, uf, _S
from . import lib as _lib
from .core import SBytes, SBool, SInt, SStr, SNoneT, simp

MARKUP = '<>"\''


def _h():
    return uf("markup_proj", _S, _S)


def _no_chars(t, chars):
    return z3.And(*[z3.Not(z3.Contains(t, z3.StringVal(c))) for c in chars])


def mproj(t, assume=None):
    """structural markup projection of a z3 string term.  `assume` (callable on z3 facts) receives, for every leaf x
    that is left to the uninterpreted h, the true fact  h(x) = "" <=> x contains no markup character  (it keeps
    counter-models realistic; it is not needed for proofs)."""
    t = simp(t)
    if z3.is_string_value(t):
        return z3.StringVal("".join(c for c in t.as_string() if c in MARKUP))
    k = t.decl().kind()
    if k == z3.Z3_OP_SEQ_CONCAT:
        parts = [mproj(c, assume) for c in t.children()]
        return simp(z3.Concat(*parts)) if len(parts) > 1 else parts[0]
    if k == z3.Z3_OP_INT_TO_STR:
        return z3.StringVal("")  # decimal digits only
    if k == z3.Z3_OP_ITE:
        c, a, b = t.children()
        return simp(z3.If(c, mproj(a, assume), mproj(b, assume)))
    r = _h()(t)
    if assume is not None:
        assume((r == z3.StringVal("")) == _no_chars(t, MARKUP))
    return r


def _on(it):
    return bool(getattr(it.ex, "markup_proj", False))


@function(html.escape)
def f_html_escape(it, s, quote=None):
    s = it.resolve(s)
    q = True if quote is None else it.truthy(quote)
    if not isinstance(s, SStr):
        it.raise_(AttributeError, "html.escape of non-str")
    c = s.concrete()
    if c is not None:
        return lift(html.escape(c, q))
    r = uf("html_escape" if q else "html_escape_noquote", _S, _S)(s.t)
    for ch in ("<", ">") + (('"', "'") if q else ()):
        it.ex.assume(z3.Not(z3.Contains(r, z3.StringVal(ch))))
    if q:
        it.ex.assume(_h()(r) == z3.StringVal(""))
    else:
        # only the quote characters of s may survive: the projection of the result is the quote-projection of s
        qp = uf("quote_proj", _S, _S)(s.t)
        it.ex.assume(_h()(r) == qp)
        it.ex.assume((qp == z3.StringVal("")) == _no_chars(s.t, "\"'"))
    it.ex.note("lib", "html.escape (uninterpreted; result contains none of < > \" ')")
    it.ex.note("assumed", "html.escape(s) contains none of the characters < > \" ' (with quote=False: no < >)")
    return SStr(r)


@function(textwrap.dedent)
def f_dedent(it, s):
    s = it.resolve(s)
    c = s.concrete()
    if c is not None:
        return lift(textwrap.dedent(c))
    r = uf("textwrap_dedent", _S, _S)(s.t)
    it.ex.assume(_h()(r) == mproj(s.t, it.ex.assume))
    it.ex.assume(z3.Length(r) <= z3.Length(s.t))
    it.ex.note("lib", "textwrap.dedent (uninterpreted; removes only blanks)")
    it.ex.note("assumed", "textwrap.dedent(s) differs from s only by removed space/tab characters (markup projection unchanged)")
    return SStr(r)


_default_str_strip = METHODS[(SStr, "strip")]
_default_str_encode = METHODS[(SStr, "encode")]


@method(SStr, "strip")
def _str_strip_proj(it, s, *a):
    r = _default_str_strip(it, s, *a)
    if _on(it) and not a and s.concrete() is None:
        it.ex.assume(_h()(r.t) == mproj(s.t, it.ex.assume))
        it.ex.note("assumed", "str.strip() removes only whitespace (markup projection unchanged)")
    return r


@method(SStr, "encode")
def _str_encode_proj(it, s, *a, **k):
    r = _default_str_encode(it, s, *a, **k)
    if _on(it) and s.concrete() is None:
        enc = (a[0].concrete() if a else (k["encoding"].concrete() if "encoding" in k else "utf-8")).lower().replace("_", "-")
        if enc in ("utf-8", "utf8"):
            it.ex.assume(_h()(r.t) == mproj(s.t, it.ex.assume))
            it.ex.note("assumed", "UTF-8 encoding (any error handler among strict/replace/surrogateescape) keeps ASCII characters and maps every other character to bytes >= 0x80 or '?' (markup projection unchanged)")
    return r
