"""Trusted library contracts used by the HTTP/1 properties C01 / C02 / C12.

* markup projection `h` (C12): h(x) = the subsequence of the markup characters  < > " '  of x.  h is a monoid
  homomorphism; it is applied structurally to the z3 terms the interpreter builds (concatenations, literals,
  int-to-str) and is an uninterpreted function `markup_proj` on everything else.  The library functions through
  which an error page flows are *uninterpreted* (no claim about their exact output) with exactly one fact each:
      html.escape(s)                 : h(result) = ""            (this IS the trusted contract of html.escape)
      html.escape(s, quote=False)    : result contains no < >    (quotes may pass)
      textwrap.dedent(s)             : h(result) = h(s)          (deletes/rewrites only blanks at line starts)
      str.strip()                    : h(result) = h(s)          (deletes only whitespace)           [opt-in]
      str.encode("utf8", "replace")  : h(result) = h(s)          (UTF-8 maps non-ASCII to bytes >= 0x80 and a lone
                                                                  surrogate to "?"; ASCII is unchanged)  [opt-in]
  The two str-method facts are enabled by the scenario option `markup_proj=True`, so no other module is affected.
* exact models of the three fixed validation regexes of mitmproxy.net.http.validate and of
  `re.sub(r"[\\t ]*,[\\t ]*", ",", te)` restricted to what parse_transfer_encoding asks of it (membership of the result
  in a fixed finite set), as SMT regular-expression membership.
Every model is exact or over-approximate; what is assumed is recorded with it.ex.note("assumed", ...).
"""
from __future__ import annotations

import html
import re
import textwrap
import types as _types

import z3

from .lib import *  # noqa: F401,F403
from .lib import METHODS, function, method, uf, _S
from . import lib as _lib
from .core import SBytes, SBool, SInt, SStr, SNoneT, simp

MARKUP = '<>"\''


def _h():
    return uf("markup_proj", _S, _S)


def _no_chars(t, chars):
    return z3.And(*[z3.Not(z3.Contains(t, z3.StringVal(c))) for c in chars])


def mproj(t, assume=None, _memo=None, _top=True):
    """structural markup projection of a z3 string term.  `assume` (callable on z3 facts) receives, for every leaf x
    that is left to the uninterpreted h, the true fact  h(x) = "" <=> x contains no markup character  (it keeps
    counter-models realistic; it is not needed for proofs)."""
    if _memo is None:
        _memo = {}
    if _top:
        t = simp(t)
    key = t.get_id()
    if key in _memo:
        return _memo[key]
    if z3.is_string_value(t):
        r = z3.StringVal("".join(c for c in t.as_string() if c in MARKUP))
    else:
        k = t.decl().kind()
        if k == z3.Z3_OP_SEQ_CONCAT:
            parts = [mproj(c, assume, _memo, False) for c in t.children()]
            r = z3.Concat(*parts) if len(parts) > 1 else parts[0]
        elif k == z3.Z3_OP_INT_TO_STR:
            r = z3.StringVal("")  # decimal digits only
        elif k == z3.Z3_OP_ITE:
            c, a, b = t.children()
            r = z3.If(c, mproj(a, assume, _memo, False), mproj(b, assume, _memo, False))
        else:
            r = _h()(t)
            if assume is not None:
                assume((r == z3.StringVal("")) == _no_chars(t, MARKUP))
    _memo[key] = r
    return simp(r) if _top else r


def _on(it):
    return bool(getattr(it.ex, "markup_proj", False))


@function(html.escape)
def f_html_escape(it, s, quote=None):
    s = it.resolve(s)
    q = True if quote is None else it.truthy(quote)
    if not isinstance(s, SStr):
        it.raise_(AttributeError, "html.escape of non-str")
    c = s.concrete()
    if c is not None:
        return lift(html.escape(c, q))
    r = uf("html_escape" if q else "html_escape_noquote", _S, _S)(s.t)
    for ch in ("<", ">") + (('"', "'") if q else ()):
        it.ex.assume(z3.Not(z3.Contains(r, z3.StringVal(ch))))
    if q:
        it.ex.assume(_h()(r) == z3.StringVal(""))
    else:
        # only the quote characters of s may survive: the projection of the result is the quote-projection of s
        qp = uf("quote_proj", _S, _S)(s.t)
        it.ex.assume(_h()(r) == qp)
        it.ex.assume((qp == z3.StringVal("")) == _no_chars(s.t, "\"'"))
    it.ex.note("lib", "html.escape (uninterpreted; result contains none of < > \" ')")
    it.ex.note("assumed", "html.escape(s) contains none of the characters < > \" ' (with quote=False: no < >)")
    return SStr(r)


@function(html.unescape)
def f_html_unescape(it, s):
    """html.unescape: uninterpreted, with the one true fact that text without '&' contains no character reference and is
    returned unchanged.  (Nothing is claimed about text with '&': it may or may not change.)"""
    s = it.resolve(s)
    if not isinstance(s, SStr):
        it.raise_(TypeError, "html.unescape of non-str")
    c = s.concrete()
    if c is not None:
        return lift(html.unescape(c))
    r = uf("html_unescape", _S, _S)(s.t)
    it.ex.assume(z3.Implies(z3.Not(z3.Contains(s.t, z3.StringVal("&"))), r == s.t))
    it.ex.note("lib", "html.unescape (uninterpreted; identity on text without '&')")
    it.ex.note("assumed", "html.unescape(s) == s for every s that contains no '&'")
    return SStr(r)


_lib.UF_ORACLES.setdefault("html_unescape", lambda s: html.unescape(s))


import unicodedata as _unicodedata


@function(_unicodedata.normalize)
def f_unicodedata_normalize(it, form, s):
    """unicodedata.normalize: uninterpreted function of (form, text) — deliberately WITHOUT any fact about the markup
    projection: compatibility normalisation (NFKC/NFKD) folds e.g. U+FF1C FULLWIDTH LESS-THAN SIGN into '<'."""
    form, s = it.resolve(form), it.resolve(s)
    fc = form.concrete() if isinstance(form, SStr) else None
    if fc is None or not isinstance(s, SStr):
        raise Unsupported("unicodedata.normalize with a symbolic form / non-str")
    c = s.concrete()
    if c is not None:
        return lift(_unicodedata.normalize(fc, c))
    it.ex.note("lib", f"unicodedata.normalize({fc!r}, s) (uninterpreted, no fact)")
    return SStr(uf(f"unicodedata_normalize_{fc}", _S, _S)(s.t))


for _form in ("NFC", "NFD", "NFKC", "NFKD"):
    _lib.UF_ORACLES.setdefault(f"unicodedata_normalize_{_form}", (lambda s, _f=_form: _unicodedata.normalize(_f, s)))
for _err in ("xmlcharrefreplace", "replace", "ignore", "backslashreplace"):
    _lib.UF_ORACLES.setdefault(f"encode_ascii_{_err}", (lambda s, _e=_err: s.encode("ascii", _e).decode("latin-1")))


@function(textwrap.dedent)
def f_dedent(it, s):
    s = it.resolve(s)
    c = s.concrete()
    if c is not None:
        return lift(textwrap.dedent(c))
    r = uf("textwrap_dedent", _S, _S)(s.t)
    it.ex.assume(_h()(r) == mproj(s.t, it.ex.assume))
    it.ex.assume(z3.Length(r) <= z3.Length(s.t))
    it.ex.note("lib", "textwrap.dedent (uninterpreted; removes only blanks)")
    it.ex.note("assumed", "textwrap.dedent(s) differs from s only by removed space/tab characters (markup projection unchanged)")
    return SStr(r)


# typing.get_origin / typing.get_args on concrete type objects (MessageData.__post_init__ type checks): exact, evaluated natively
import typing as _typing


def _typing_pure(fn):
    def model(it, tp):
        tp = it.resolve(tp)
        try:
            c = _lib.to_native(tp)
        except ValueError:
            raise Unsupported(f"typing.{fn.__name__} of a non-constant")
        r = fn(c)
        if isinstance(r, tuple):
            return STuple([x if isinstance(x, SV) else (lift(x) if isinstance(x, (int, str, bytes, bool, type(None))) else SConst(x)) for x in r])
        return NONE if r is None else SConst(r)

    model.__name__ = "typing." + fn.__name__
    return model


function(_typing.get_origin)(_typing_pure(_typing.get_origin))
function(_typing.get_args)(_typing_pure(_typing.get_args))


_default_str_strip = METHODS[(SStr, "strip")]
_default_str_encode = METHODS[(SStr, "encode")]


@method(SStr, "strip")
def _str_strip_proj(it, s, *a):
    r = _default_str_strip(it, s, *a)
    if _on(it) and not a and s.concrete() is None:
        it.ex.assume(_h()(r.t) == mproj(s.t, it.ex.assume))
        it.ex.note("assumed", "str.strip() removes only whitespace (markup projection unchanged)")
    return r


def _is_decimal_term(t):
    """t is str(n) for an int term n as built by lib.int_to_str (decimal digits with an optional leading '-': pure ASCII)"""
    k = t.decl().kind()
    if k == z3.Z3_OP_INT_TO_STR:
        return True
    if k == z3.Z3_OP_ITE:
        return all(_is_decimal_term(c) for c in t.children()[1:])
    if k == z3.Z3_OP_SEQ_CONCAT:
        ch = t.children()
        return len(ch) == 2 and z3.is_string_value(ch[0]) and ch[0].as_string() == "-" and _is_decimal_term(ch[1])
    return False


@method(SStr, "encode")
def _str_encode_proj(it, s, *a, **k):
    if s.concrete() is None and _is_decimal_term(s.t):
        enc = (a[0].concrete() if a else (k["encoding"].concrete() if "encoding" in k else "utf-8")).lower().replace("_", "-")
        if enc in ("utf-8", "utf8", "ascii", "latin-1", "latin1"):
            it.ex.note("lib", "str.encode (exact on str(int): decimal digits are ASCII)")
            return SBytes(s.t)
    if _on(it) and s.concrete() is None:
        # markup_proj scenarios: the base model (uninterpreted encode + ASCII identity) is all that is needed; other extension
        # modules' codec refinements (which run solver queries on every encode) are bypassed
        r = _lib._encode(it, s, *a, **k)
    else:
        r = _default_str_encode(it, s, *a, **k)
    if _on(it) and s.concrete() is None:
        enc = (a[0].concrete() if a else (k["encoding"].concrete() if "encoding" in k else "utf-8")).lower().replace("_", "-")
        if enc in ("utf-8", "utf8"):
            it.ex.assume(_h()(r.t) == mproj(s.t, it.ex.assume))
            it.ex.note("assumed", "UTF-8 encoding (any error handler among strict/replace/surrogateescape) keeps ASCII characters and maps every other character to bytes >= 0x80 or '?' (markup projection unchanged)")
        elif enc == "ascii":
            err = a[1].concrete() if len(a) > 1 else (k["errors"].concrete() if "errors" in k else "strict")
            if err in ("xmlcharrefreplace", "replace", "ignore", "backslashreplace", "strict"):
                it.ex.assume(_h()(r.t) == mproj(s.t, it.ex.assume))
                it.ex.note("assumed", "ASCII encoding keeps ASCII characters; the error handlers write '&#N;', '?', nothing or '\\uXXXX' for the others (markup projection unchanged)")
    return r


# =====================================================================================================================
# C01: exact models of fixed regular expressions (opt-in: scenario option exact_regex=True)
#
# A compiled pattern (or a pattern literal handed to re.match) is translated to an SMT regular expression from CPython's
# own parse tree (re._parser), for the fragment  literals, classes (literals, ranges, \d in bytes patterns, negation),
# greedy repeats, non-capturing groups / alternation, ^ at the start and $ at the end.  Anything else is left to the
# uninterpreted models of libx_tools.  Semantics of the methods (non-MULTILINE):
#     p.fullmatch(s) is not None  <=>  s in L(p)
#     p.match(s)     is not None  <=>  s in L(p) . (\n)?      if p ends with $   (Python's $ also matches before a trailing \n)
#                                      s in L(p)              if p ends with \Z
#                                      s in L(p) . Sigma*     otherwise
# The translation is cross-checked against `re` on all strings of length <= 4 over the pattern's alphabet by
# props/C01.py (T2 check c01.regex_models).

def _re_ok(it):
    return bool(getattr(it.ex, "exact_regex", False))


def _ch(c):
    return z3.Re(z3.StringVal(chr(c)))


def _class_to_re(items, is_bytes):
    import re._constants as C
    neg = False
    parts = []
    for op, arg in items:
        if op is C.NEGATE:
            neg = True
        elif op is C.LITERAL:
            parts.append(_ch(arg))
        elif op is C.RANGE:
            parts.append(z3.Range(chr(arg[0]), chr(arg[1])))
        elif op is C.CATEGORY and arg is C.CATEGORY_DIGIT and is_bytes:
            parts.append(z3.Range("0", "9"))
        else:
            raise ValueError(f"class item {op}")
    r = parts[0] if len(parts) == 1 else z3.Union(*parts)
    if neg:
        top = z3.Range(chr(0), chr(255)) if is_bytes else z3.AllChar(z3.ReSort(_S))
        r = z3.Intersect(top, z3.Complement(r))
    return r


def _seq_to_re(seq, is_bytes):
    import re._constants as C
    parts = []
    for op, arg in seq:
        if op is C.LITERAL:
            parts.append(_ch(arg))
        elif op is C.IN:
            parts.append(_class_to_re(arg, is_bytes))
        elif op is C.MAX_REPEAT:
            lo, hi, sub = arg
            inner = _seq_to_re(sub, is_bytes)
            if hi is C.MAXREPEAT:
                r = z3.Star(inner) if lo == 0 else (z3.Plus(inner) if lo == 1 else z3.Concat(*([inner] * lo + [z3.Star(inner)])))
            else:
                r = z3.Loop(inner, lo, hi)
            parts.append(r)
        elif op is C.SUBPATTERN:
            parts.append(_seq_to_re(arg[3], is_bytes))
        elif op is C.BRANCH:
            alts = [_seq_to_re(a, is_bytes) for a in arg[1]]
            parts.append(alts[0] if len(alts) == 1 else z3.Union(*alts))
        else:
            raise ValueError(f"regex op {op}")
    if not parts:
        return z3.Re(z3.StringVal(""))
    return parts[0] if len(parts) == 1 else z3.Concat(*parts)


_RE_CACHE = {}


def regex_language(pattern, flags=0):
    """(z3 regex of L(p), anchored_at_end) or None if outside the fragment"""
    key = (pattern, int(flags))
    if key in _RE_CACHE:
        return _RE_CACHE[key]
    out = None
    try:
        import re._parser as P
        import re._constants as C
        if int(flags) & ~(re.UNICODE.value if isinstance(pattern, str) else 0):
            raise ValueError("flags")
        data = list(P.parse(pattern, 0).data)
        if data and data[0] == (C.AT, C.AT_BEGINNING):
            data = data[1:]
        end = False
        if data and data[-1] == (C.AT, C.AT_END):
            data, end = data[:-1], True
        elif data and data[-1] == (C.AT, C.AT_END_STRING):
            data, end = data[:-1], "Z"   # \Z: end of string only, no trailing-newline tolerance
        out = (_seq_to_re(data, isinstance(pattern, bytes)), end)
    except Exception:
        out = None
    _RE_CACHE[key] = out
    return out


def _exact_match(kind, pattern, flags):
    lang = regex_language(pattern, flags)
    if lang is None:
        return None
    R, end = lang

    def model(it, s, *a, **k):
        s = it.resolve(s)
        if a or k:
            raise Unsupported("re match with pos/endpos")
        if not isinstance(s, (SStr, SBytes)):
            it.raise_(TypeError, "expected string or bytes-like object")
        if isinstance(s, SBytes) != isinstance(pattern, bytes):
            it.raise_(TypeError, "cannot use a string pattern on a bytes-like object")
        if kind == "fullmatch" or end == "Z":
            hit = z3.InRe(s.t, R)
        elif end:
            # s in R.(\n)?  written as  s in R  or  (s ends with \n and s[:-1] in R): same language, propositionally simpler
            hit = z3.Or(z3.InRe(s.t, R), z3.And(z3.SuffixOf(z3.StringVal("\n"), s.t), z3.InRe(z3.SubString(s.t, 0, z3.Length(s.t) - 1), R)))
        else:
            hit = z3.InRe(s.t, z3.Concat(R, z3.Full(z3.ReSort(_S))))
        it.ex.note("lib", f"re {kind} {pattern!r} (exact SMT regex)")
        if it.branch(SBool(hit)):
            return SObj(re.Match, {"re": SConst(pattern), "string": s})
        return NONE

    model.__name__ = f"re.{kind}[{pattern!r}]"
    return model


_prev_lookup_http1 = _lib.lookup_function


def _lookup_function_http1(o):
    # (checked before delegating: the import order of the libx_* modules is not fixed, libx_tools may sit below or above)
    r = None
    if isinstance(o, _types.BuiltinMethodType) and isinstance(getattr(o, "__self__", None), re.Pattern) and o.__name__ in ("match", "fullmatch"):
        p = o.__self__
        exact = _exact_match(o.__name__, p.pattern, p.flags & ~re.UNICODE.value)
        if exact is not None:
            def model(it, *a, **k):
                if not _re_ok(it):
                    if not _FALLBACK:
                        _late_bind_fallback()
                    nxt = _FALLBACK.get(o.__name__)
                    if nxt is None:
                        raise Unsupported(f"re.Pattern.{o.__name__} (no model)")
                    return nxt(it, p, *a, **k)
                return exact(it, *a, **k)

            model.__name__ = exact.__name__
            return model
    return _prev_lookup_http1(o)


_FALLBACK = {}
_lib.lookup_function = _lookup_function_http1


def _late_bind_fallback():
    """libx_tools (loaded after this module) owns the uninterpreted Pattern models used when exact_regex is off"""
    try:
        from . import libx_tools as T
        _FALLBACK.update(T.PATTERN_METHODS)
    except Exception:
        pass


@function(re.match)
def f_re_match(it, pattern, string, flags=None):
    _late_bind_fallback()
    pattern = it.resolve(pattern)
    pc = pattern.concrete() if isinstance(pattern, (SStr, SBytes)) else None
    if pc is None or flags is not None or not _re_ok(it):
        raise Unsupported("call to re:match outside the inline roots (needs a library contract)")
    exact = _exact_match("match", pc, 0)
    if exact is None:
        raise Unsupported(f"re.match pattern {pc!r} outside the exact fragment")
    return exact(it, string)


# ---- mini regex terms with a case-insensitive image, for facts about lower() and the one re.sub of parse_transfer_encoding

def rx_lit(text):
    return ("lit", text)


def rx_cat(*xs):
    return ("cat", list(xs))


def rx_ows():
    return ("ows",)


def rx_to_re(x, ci=False):
    k = x[0]
    if k == "lit":
        if not ci:
            return z3.Re(z3.StringVal(x[1]))
        parts = [z3.Union(z3.Re(z3.StringVal(c.lower())), z3.Re(z3.StringVal(c.upper()))) if c.lower() != c.upper() else z3.Re(z3.StringVal(c)) for c in x[1]]
        return parts[0] if len(parts) == 1 else z3.Concat(*parts)
    if k == "cat":
        parts = [rx_to_re(y, ci) for y in x[1]]
        return parts[0] if len(parts) == 1 else z3.Concat(*parts)
    if k == "ows":
        return z3.Star(z3.Union(z3.Re(z3.StringVal(" ")), z3.Re(z3.StringVal("\t"))))
    raise ValueError(k)


def te_preimage(lit):
    """all t with re.sub(r"[\\t ]*,[\\t ]*", ",", t) == lit, for a literal without blanks: blanks may surround each comma"""
    parts = lit.split(",")
    xs = []
    for i, p in enumerate(parts):
        if i:
            xs += [rx_ows(), rx_lit(","), rx_ows()]
        xs.append(rx_lit(p))
    return rx_cat(*xs)


_ASCII = z3.Star(z3.Range(chr(0), chr(127)))


def _lower_facts(it, s, r):
    lits = getattr(it.ex, "lower_literals", None)
    if not lits:
        return
    guard = z3.InRe(s.t, _ASCII) if isinstance(s, SStr) else z3.BoolVal(True)
    for x in lits:
        rx = rx_lit(x) if isinstance(x, str) else x
        it.ex.assume(z3.Implies(guard, z3.InRe(r.t, rx_to_re(rx)) == z3.InRe(s.t, rx_to_re(rx, ci=True))))
    it.ex.assume(z3.InRe(s.t, _ASCII) == z3.InRe(r.t, _ASCII) if isinstance(s, SBytes) else z3.Implies(z3.InRe(s.t, _ASCII), z3.InRe(r.t, _ASCII)))
    it.ex.note("assumed", "lower() of an ASCII string maps A-Z to a-z and nothing else: for the listed lower-case patterns R, lower(s) in R <=> s in case-insensitive R")


for _T2 in (SStr, SBytes):
    def _mk(T):
        default = METHODS[(T, "lower")]

        def _lower_with_facts(it, s):
            r = default(it, s)
            if s.concrete() is None:
                _lower_facts(it, s, r)
            return r

        METHODS[(T, "lower")] = _lower_with_facts

        def _isascii(it, s):
            c = s.concrete()
            if c is not None:
                return lift(c.isascii())
            return SBool(z3.InRe(s.t, _ASCII))

        if (T, "isascii") not in METHODS:
            METHODS[(T, "isascii")] = _isascii

    _mk(_T2)


_default_bytes_decode = METHODS[(SBytes, "decode")]


@method(SBytes, "decode")
def _decode_ascii_fact(it, s, *a, **k):
    if getattr(it.ex, "exact_regex", False) and s.concrete() is None:
        enc0 = (a[0].concrete() if a else (k["encoding"].concrete() if "encoding" in k else "utf-8")).lower().replace("_", "-")
        if enc0 in ("utf-8", "utf8"):
            # pure ASCII input is always decodable (the default model decides decodability by an uninterpreted predicate)
            it.ex.assume(z3.Implies(z3.InRe(s.t, _ASCII), uf(f"decodable_{enc0}", _S, z3.BoolSort())(s.t)))
    r = _default_bytes_decode(it, s, *a, **k)
    if getattr(it.ex, "exact_regex", False) and s.concrete() is None and isinstance(r, SStr):
        enc = (a[0].concrete() if a else (k["encoding"].concrete() if "encoding" in k else "utf-8")).lower().replace("_", "-")
        if enc in ("utf-8", "utf8"):
            it.ex.assume(z3.InRe(r.t, _ASCII) == z3.InRe(s.t, _ASCII))
            it.ex.note("assumed", "UTF-8 decoding (strict / surrogateescape / replace): the result is pure ASCII iff the input is")
    return r


@function(re.sub)
def f_re_sub(it, pattern, repl, string, *a, **k):
    pattern, repl, string = it.resolve(pattern), it.resolve(repl), it.resolve(string)
    pc = pattern.concrete() if isinstance(pattern, (SStr, SBytes)) else None
    rc = repl.concrete() if isinstance(repl, (SStr, SBytes)) else None
    lits = getattr(it.ex, "resub_literals", None)
    if a or k or pc != r"[\t ]*,[\t ]*" or rc != "," or not isinstance(string, SStr):
        raise Unsupported("call to re:sub outside the inline roots (needs a library contract)")
    c = string.concrete()
    if c is not None:
        return lift(re.sub(pc, rc, c))
    r = uf("re_sub_ows_comma", _S, _S)(string.t)
    for L in lits or ():
        it.ex.assume((r == z3.StringVal(L)) == z3.InRe(string.t, rx_to_re(te_preimage(L))))
    it.ex.assume(z3.Implies(z3.InRe(string.t, _ASCII), z3.InRe(r, _ASCII)))
    it.ex.note("lib", "re.sub('[\\t ]*,[\\t ]*', ',', s) (uninterpreted + exact preimages of the listed literals)")
    it.ex.note("assumed", "re.sub('[\\t ]*,[\\t ]*', ',', s) == L  <=>  s is L with optional blanks around each comma (for blank-free literals L)")
    return SStr(r)


# =====================================================================================================================
# native oracles for the uninterpreted functions used by C01/C02/C12 (lib.UF_ORACLES): only used to pick replayable
# counter-models / CPython conformance samples (scenario option `candidates`), never for proving.

def _l1b(s: str) -> bytes:
    return s.encode("latin-1", "replace")


def _as_text(b: bytes) -> str:
    return b.decode("latin-1")


def _o_lower(s):
    return _as_text(_l1b(s).lower()) if all(ord(c) < 256 for c in s) else s.lower()


def _o_upper(s):
    return _as_text(_l1b(s).upper()) if all(ord(c) < 256 for c in s) else s.upper()


_TE_C = re.compile(rb"(?i)(?:(?:compress|deflate|gzip)[ \t]*,[ \t]*)?chunked\Z")
_TE_P = re.compile(rb"(?i)(?:compress|deflate|gzip|identity)\Z")


def _o_cl_acc(s):
    # the named predicate CLacc *is* "the real parse_content_length returns normally"
    from mitmproxy.net.http.validate import parse_content_length
    try:
        parse_content_length(_l1b(s))
        return True
    except ValueError:
        return False


def _o_re_match(key, s):
    import ast
    pat_src, flags = key.rsplit("/", 1)
    pat = ast.literal_eval(pat_src)
    subj = _l1b(s) if isinstance(pat, bytes) else s
    return re.compile(pat, int(flags)).match(subj) is not None


def _o_int_ok(s):
    try:
        int(s)
        return not (len(s) > 0 and all(c in "0123456789" for c in s)) or True
    except ValueError:
        return False


def _o_int(s):
    try:
        return int(s)
    except ValueError:
        return 0


_ORACLES = {
    "lower": _o_lower,
    "upper": _o_upper,
    "TEc": lambda s: _TE_C.match(_l1b(s)) is not None,
    "TEp": lambda s: _TE_P.match(_l1b(s)) is not None,
    "CLacc": _o_cl_acc,
    "re_match": _o_re_match,
    "hex_lower": lambda n: "%x" % n if n >= 0 else "-%x" % -n,
    "int_parsable_nondigit": _o_int_ok,
    "int_parse_nondigit": _o_int,
    "re_sub_ows_comma": lambda s: re.sub(r"[\t ]*,[\t ]*", ",", s),
    "markup_proj": lambda s: "".join(c for c in s if c in MARKUP),
    "quote_proj": lambda s: "".join(c for c in s if c in "\"'"),
    "html_escape": lambda s: html.escape(s),
    "html_escape_noquote": lambda s: html.escape(s, False),
    "textwrap_dedent": lambda s: textwrap.dedent(s),
    "strip": lambda s: s.strip(),
    "encode_utf8_replace": lambda s: _as_text(s.encode("utf8", "replace")),
}
for _k, _v in _ORACLES.items():
    _lib.UF_ORACLES.setdefault(_k, _v)
