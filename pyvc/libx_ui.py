"""Trusted library contracts used by the user-interface properties C46-C51 (mitmdump output, mitmweb, export, content views).

* str.translate(table) for a concrete int->int table (what strutils.escape_control_characters uses): the result is an
  uninterpreted function of the subject constrained by exact consequences of the per-character map
      len(r) == len(s);  every character of r is an image of the table or a character the table does not map;
      a subject without mapped characters is returned unchanged.
* print(*args, file=f) where f is an interpreted object with a write method: f.write(sep.join(str(a))) ; f.write(end)
  (CPython's print does exactly these writes when sep/end are the defaults or given as str); other prints stay no-ops.
* str.format with keyword fields "{name}" (plain, no conversion / spec) in a concrete template.
* shutil.get_terminal_size(): an arbitrary (columns, lines) pair of positive ints.
* str.splitlines / str.strip results are characterised only through character-set facts (see char_subset).

Nothing here is property-specific: the character classes used by the C49/C50 contracts are built in the property modules.
"""
from __future__ import annotations

import shutil

import z3

from .lib import *  # noqa: F401,F403
from .lib import METHODS, FUNCTIONS, uf, _S, _I, method, function, format_value, to_native
from . import lib as _lib
from . import interp as I

MAXCHAR = 0x2FFFF  # z3's default Unicode alphabet


def class_re(ranges):
    """z3 regular expression (one character) for a list of inclusive (lo, hi) code point ranges"""
    parts = [z3.Range(chr(lo), chr(hi)) if lo != hi else z3.Re(z3.StringVal(chr(lo))) for lo, hi in ranges]
    if not parts:
        return z3.Empty(z3.ReSort(_S))
    return parts[0] if len(parts) == 1 else z3.Union(*parts)


def complement_ranges(points, top=MAXCHAR):
    """ranges covering 0..top except the given code points"""
    out = []
    lo = 0
    for p in sorted(set(points)):
        if p > top:
            break
        if p > lo:
            out.append((lo, p - 1))
        lo = p + 1
    if lo <= top:
        out.append((lo, top))
    return out


def all_in(t, ranges):
    """z3 Bool: every character of the string term t lies in the ranges"""
    return z3.InRe(t, z3.Star(class_re(ranges)))


def in_ranges(c, ranges):
    return any(lo <= c <= hi for lo, hi in ranges)


# character classes for which `translate` states "subject within the class => result within the class" whenever the
# concrete table maps the class into itself (property modules may append their own classes)
PRESERVED_CLASSES = [
    [(0, 0x7F), (0xA0, MAXCHAR)],  # no C1 control character (U+0080..U+009F)
    [(0, 0x7F)],  # ASCII
]


# ---------------------------------------------------------------------------------------------------------------------
# str.translate


@method(SStr, "translate")
def _translate(it, s, table):
    table = it.resolve(table)
    try:
        tab = to_native(table)
    except ValueError:
        raise Unsupported("str.translate with a symbolic table")
    if not isinstance(tab, dict) or not all(isinstance(k, int) and isinstance(v, int) for k, v in tab.items()):
        raise Unsupported("str.translate is modelled for int -> int tables only")
    c = s.concrete()
    if c is not None:
        return lift(c.translate(tab))
    key = ",".join(f"{k}:{v}" for k, v in sorted(tab.items()))
    r = uf("translate[" + key + "]", _S, _S)(s.t)
    unmapped = complement_ranges(tab.keys())
    images = sorted(set(tab.values()))
    it.ex.assume(z3.Length(r) == z3.Length(s.t))
    it.ex.assume(all_in(r, unmapped + [(v, v) for v in images]))
    it.ex.assume(z3.Implies(all_in(s.t, unmapped), r == s.t))
    for R in PRESERVED_CLASSES:
        # a character class closed under the table is preserved (exact consequence of the per-character map)
        if all(in_ranges(v, R) for k, v in tab.items() if in_ranges(k, R)):
            it.ex.assume(z3.Implies(all_in(s.t, R), all_in(r, R)))
    it.ex.note("assumed", "str.translate(int->int table): same length; every result character is a table image or an unmapped character; identity on subjects without mapped characters")
    return SStr(r)


# ---------------------------------------------------------------------------------------------------------------------
# print to an interpreted stream object

_prev_print = FUNCTIONS[id(print)][1]


def _print(it, *a, **k):
    f = it.resolve(k["file"]) if "file" in k else None
    if not isinstance(f, SObj) or it.find_method(f.cls, "write") is None:
        return _prev_print(it, *a, **k)
    sep = it.resolve(k["sep"]) if "sep" in k else SStr(" ")
    end = it.resolve(k["end"]) if "end" in k else SStr("\n")
    if isinstance(sep, SNoneT):
        sep = SStr(" ")
    if isinstance(end, SNoneT):
        end = SStr("\n")
    text = None
    for x in a:
        piece = format_value(it, x, -1, None)
        text = piece if text is None else text + sep + piece
    w = it.find_method(f.cls, "write")
    it.call_ifunc(w, [f, text if text is not None else SStr("")], {})
    it.call_ifunc(w, [f, end], {})
    return NONE


FUNCTIONS[id(print)] = (print, _print)


# ---------------------------------------------------------------------------------------------------------------------
# str.format with keyword fields

_prev_format = METHODS.get((SStr, "format"))


def _format_kw(it, s, *args, **kwargs):
    tmpl = s.concrete()
    if tmpl is None or not kwargs or args:
        if _prev_format is None:
            raise Unsupported("str.format")
        return _prev_format(it, s, *args, **kwargs)
    import string

    out = SStr("")
    for lit, field, spec, conv in string.Formatter().parse(tmpl):
        if lit:
            out = out + SStr(lit)
        if field is None:
            continue
        if spec or conv or field not in kwargs:
            raise Unsupported("str.format: only plain {name} keyword fields are modelled")
        out = out + format_value(it, kwargs[field], -1, None)
    return out


METHODS[(SStr, "format")] = _format_kw


# ---------------------------------------------------------------------------------------------------------------------
# dict.get(key, default) with a symbolic str/int key on a dict whose keys are concrete and whose values (and the default)
# are scalars of one type: the result is the exact case chain  If(key == k1, v1, If(key == k2, v2, ... default))  — no
# path fork (the generic model forks once per key).

_prev_dget = METHODS.get((SDict, "get"))


def _dget_merged(it, d, k, default=NONE):
    k = it.resolve(k)
    if isinstance(k, (SStr, SInt)) and k.concrete() is None and d.items and getattr(d, "default_factory", None) is None:
        keys = [kk for kk, _ in d.items]
        vals = [it.resolve(v) for _, v in d.items] + [it.resolve(default)]
        if all(type(kk) is type(k) and kk.concrete() is not None for kk in keys) and \
                all(type(v) is type(vals[0]) and isinstance(v, (SStr, SInt, SBool)) for v in vals):
            r = vals[-1].t
            for kk, v in reversed(list(zip(keys, vals[:-1]))):
                r = z3.If(k.t == kk.t, v.t, r)
            return type(vals[0])(r)
    return _prev_dget(it, d, k, default)


METHODS[(SDict, "get")] = _dget_merged


# ---------------------------------------------------------------------------------------------------------------------
# terminal size


@function(shutil.get_terminal_size)
def f_get_terminal_size(it, fallback=None):
    cols, lines = it.fresh("int", "term_columns"), it.fresh("int", "term_lines")
    it.ex.assume(z3.And(cols.t >= 0, lines.t >= 0))
    it.ex.note("assumed", "shutil.get_terminal_size() returns an arbitrary pair of non-negative ints")
    return STuple([cols, lines])


# ---------------------------------------------------------------------------------------------------------------------
# IntEnum construction from an int that need not be a member: Enum(v) raises ValueError for non-members (exact)


def enum_ctor_model(cls):
    values = sorted({m.value for m in cls})

    def mk(it, v):
        v = it.resolve(v)
        if isinstance(v, SEnum) and v.cls is cls:
            return v
        if not isinstance(v, SInt):
            raise Unsupported(f"{cls.__name__}({v!r})")
        if not it.branch(SBool(z3.Or(*[v.t == x for x in values]))):
            it.raise_(ValueError, f"not a valid {cls.__name__}")
        return SEnum(cls, v.t)

    return mk


try:
    from wsproto.frame_protocol import CloseReason as _CloseReason

    _lib.CLASS_MODELS[_CloseReason] = enum_ctor_model(_CloseReason)
except ImportError:  # pragma: no cover
    pass


# ---------------------------------------------------------------------------------------------------------------------
# shlex.quote: trusted, uninterpreted.  Contract used by C48 (stated there): sh_split(sh_quote(s)) == [s] — a quoted word is
# read back by a POSIX shell as exactly one word with value s and nothing in it is executed.  The model always returns the
# application sh_quote(s) (also for concrete s) so that contracts can inspect which fragments of a command are quoted.

import shlex as _shlex


@function(_shlex.quote)
def f_shlex_quote(it, s):
    s = it.resolve(s)
    if not isinstance(s, SStr):
        it.raise_(TypeError, "expected string or bytes-like object")
    it.ex.note("assumed", "shlex.quote(s): uninterpreted; trusted contract sh_split(quote(s)) == [s]")
    return SStr(uf("sh_quote", _S, _S)(s.t))


_lib.UF_ORACLES["sh_quote"] = _shlex.quote


# ---------------------------------------------------------------------------------------------------------------------
# hmac.compare_digest(a, b): equality (the constant-time aspect is not modelled); two str arguments must be ASCII-only,
# otherwise CPython raises TypeError ("comparing strings with non-ASCII characters is not supported") — exact.

import hmac as _hmac


@function(_hmac.compare_digest)
def f_compare_digest(it, a, b):
    a, b = it.resolve(a), it.resolve(b)
    if isinstance(a, SStr) and isinstance(b, SStr):
        ascii_ = z3.And(all_in(a.t, [(0, 0x7F)]), all_in(b.t, [(0, 0x7F)]))
        if not it.branch(SBool(ascii_)):
            it.raise_(TypeError, "comparing strings with non-ASCII characters is not supported")
        return SBool(a.t == b.t)
    if isinstance(a, SBytes) and isinstance(b, SBytes):
        return SBool(a.t == b.t)
    it.raise_(TypeError, "unsupported operand types(s) or combination of types")
