"""Trusted library contracts used by the tool-layer properties (C42-C45): str.replace facts, compiled regular
expressions (re.Pattern) as uninterpreted matchers, copy.deepcopy on option tables, weak references.

Every model is over-approximate or exact; what is assumed is recorded with it.ex.note("assumed", ...).
"""
import re
import types as _types

import z3

from .lib import *  # noqa: F401,F403
from .lib import METHODS, FUNCTIONS, CLASS_MODELS, builtin_method, uf, _S, _I, method, function
from . import lib as _lib
from . import interp as I

# ---------------------------------------------------------------------------------------------------------------------
# str.replace: Python replaces ALL non-overlapping occurrences (z3's str.replace only the first), so the result is an
# uninterpreted function of (s, a, b) constrained by facts that hold for every non-empty needle:
#   (R1) a not in s            =>  result == s
#   (R2) len(a) == 1, a not in b  =>  a not in result
#   (R3) len(a) == 1 == len(b)    =>  len(result) == len(s)


def _replace_model(it, s, a, b, *cnt):
    if cnt:
        raise Unsupported("replace with count")
    c = s.concrete()
    ac, bc = a.concrete(), b.concrete()
    if c is not None and ac is not None and bc is not None:
        return lift(c.replace(ac, bc))
    f = uf("replace_all", _S, _S, _S, _S)
    r = f(s.t, a.t, b.t)
    if ac is not None and len(ac) >= 1:
        it.ex.assume(z3.Implies(z3.Not(z3.Contains(s.t, a.t)), r == s.t))
        if len(ac) == 1 and bc is not None and ac not in bc:
            it.ex.assume(z3.Not(z3.Contains(r, a.t)))
        if len(ac) == 1 and bc is not None and len(bc) == 1:
            it.ex.assume(z3.Length(r) == z3.Length(s.t))
        if bc is not None and len(bc) >= len(ac):
            it.ex.assume(z3.Length(r) >= z3.Length(s.t))
        if bc is not None and len(bc) > len(ac):
            it.ex.assume(z3.Implies(z3.Contains(s.t, a.t), z3.Length(r) > z3.Length(s.t)))
        it.ex.note("assumed", "str.replace(a,b): result == s if a not in s; for one-character a not occurring in b the result contains no a")
    return type(s)(r)


METHODS[(SStr, "replace")] = _replace_model
METHODS[(SBytes, "replace")] = _replace_model


# ---------------------------------------------------------------------------------------------------------------------
# compiled regular expressions.  A real re.Pattern object p (class attribute or module constant of the code under
# contract) is an opaque constant; its methods are uninterpreted functions of (pattern text, flags, subject):
#   p.search(s) / p.match(s)  ->  None or an opaque match object, decided by the uninterpreted predicate re_search / re_match
#   p.sub(repl, s)            ->  uninterpreted string re_sub(pattern, s); if every alternative of the pattern needs a
#                                 literal character c (derived below for patterns that start each branch with an escaped
#                                 literal) then  c not in s  =>  result == s


def _required_literal(p: re.Pattern):
    """a character every match of p must contain, or None. Derived from the parsed pattern (re._parser): the top-level
    sequence (no top-level alternation: that would be a single BRANCH item) contains a LITERAL item."""
    if isinstance(p.pattern, bytes):
        return None
    try:
        import re._parser as P
        from re._constants import LITERAL

        t = P.parse(p.pattern, p.flags)
    except Exception:
        return None
    if p.flags & re.IGNORECASE:
        return None
    for op, arg in t.data:
        if op is LITERAL:
            return chr(arg)
    return None


def _pat_key(p):
    return z3.StringVal(f"{p.pattern!r}/{int(p.flags)}")


def _pattern_sub(it, p, repl, s, *a, **k):
    s = it.resolve(s)
    if a or k:
        raise Unsupported("re.sub with count/flags")
    if not isinstance(s, (SStr, SBytes)):
        raise Unsupported("re.sub on non-string")
    r = uf("re_sub", _S, _S, _S)(_pat_key(p), s.t)
    c = _required_literal(p)
    if c is not None:
        it.ex.assume(z3.Implies(z3.Not(z3.Contains(s.t, z3.StringVal(c))), r == s.t))
        it.ex.note("assumed", f"re.sub with a pattern whose every match contains {c!r}: identity on subjects without it; otherwise uninterpreted")
    else:
        it.ex.note("assumed", "re.sub is an uninterpreted function of (pattern, subject)")
    return type(s)(r)


def _pattern_search(kind):
    def f(it, p, s, *a, **k):
        s = it.resolve(s)
        if a or k:
            raise Unsupported("re search with pos/endpos")
        if not isinstance(s, (SStr, SBytes)):
            it.raise_(TypeError, "expected string or bytes-like object")
        if isinstance(s, SBytes) != isinstance(p.pattern, bytes):
            it.raise_(TypeError, "cannot use a string pattern on a bytes-like object")
        hit = uf("re_" + kind, _S, _S, z3.BoolSort())(_pat_key(p), s.t)
        it.ex.note("assumed", f"re.Pattern.{kind} is an uninterpreted predicate of (pattern, flags, subject)")
        if it.branch(SBool(hit)):
            return SObj(re.Match, {"re": SConst(p), "string": s})
        return NONE

    return f


PATTERN_METHODS = {"sub": _pattern_sub, "search": _pattern_search("search"), "match": _pattern_search("match"),
                   "fullmatch": _pattern_search("fullmatch")}

_prev_lookup = _lib.lookup_function


def _lookup_function(o):
    r = _prev_lookup(o)
    if r is None and isinstance(o, _types.BuiltinMethodType) and isinstance(getattr(o, "__self__", None), re.Pattern):
        fn = PATTERN_METHODS.get(o.__name__)
        if fn is not None:
            p = o.__self__

            def model(it, *a, **k):
                return fn(it, p, *a, **k)

            model.__name__ = f"re.Pattern.{o.__name__}"
            return model
    return r


_lib.lookup_function = _lookup_function


# ---------------------------------------------------------------------------------------------------------------------
# obj.__dict__ as a write-through view: `self.__dict__["_options"] = old` (OptManager.rollback) must update the object.


class _FieldItems(list):
    """association list [(SStr name, value)] mirroring SObj.fields; mutations are written through to the object"""

    def __init__(self, obj):
        super().__init__((SStr(k), v) for k, v in obj.fields.items())
        self._obj = obj

    def _sync(self):
        f = self._obj.fields
        f.clear()
        for k, v in self:
            name = k.concrete()
            if name is None:
                raise Unsupported("symbolic attribute name in __dict__")
            f[name] = v

    def append(self, kv):
        super().append(kv)
        self._sync()

    def __setitem__(self, i, kv):
        super().__setitem__(i, kv)
        self._sync()

    def __delitem__(self, i):
        super().__delitem__(i)
        self._sync()

    def pop(self, *a):
        r = super().pop(*a)
        self._sync()
        return r

    def clear(self):
        super().clear()
        self._sync()


def obj_dict_view(obj):
    d = SDict()
    d.items = _FieldItems(obj)
    return d


_lib.obj_dict_view = obj_dict_view


# ---------------------------------------------------------------------------------------------------------------------
# weak references: the referent is alive for the duration of a scenario unless the scenario builds a dead reference
# (SObj(weakref.ref, _target=NONE)).  ref() returns the referent.

import weakref as _weakref


def _mk_ref(cls):
    def mk(it, obj, callback=None):
        it.ex.note("assumed", "weak references created during a scenario stay alive (no garbage collection inside one call)")
        return SObj(cls, {"_target": it.resolve(obj)})

    return mk


CLASS_MODELS[_weakref.ref] = _mk_ref(_weakref.ref)
CLASS_MODELS[_weakref.WeakMethod] = _mk_ref(_weakref.WeakMethod)


@builtin_method(_weakref.ref, "__call__")
def _ref_call(it, r):
    return r.fields["_target"]


# ---------------------------------------------------------------------------------------------------------------------
# copy.deepcopy: structural copy with fresh identity for containers; classes with __deepcopy__ run their own (real) code.

import copy as _copy


def _deepcopy(it, x, memo=None):
    x = it.resolve(x)
    if isinstance(x, (SInt, SBool, SStr, SBytes, SNoneT, SEnum, SFloat, SConst, SSeq, SBound)):
        return x
    if isinstance(x, STuple):
        return STuple([_deepcopy(it, v) for v in x.items])
    if isinstance(x, SList):
        return SList([_deepcopy(it, v) for v in x.items])
    if isinstance(x, SSet):
        return SSet([_deepcopy(it, v) for v in x.items])
    if isinstance(x, SDict):
        return SDict([(_deepcopy(it, k), _deepcopy(it, v)) for k, v in x.items])
    if isinstance(x, SObj):
        m = it.find_method(x.cls, "__deepcopy__")
        if m is not None:
            return it.resolve(it.call_ifunc(m, [x, SDict()], {}))
        it.ex.note("assumed", f"copy.deepcopy({x.cls.__name__}) copies every field recursively (no __deepcopy__/__reduce__ customisation)")
        return SObj(x.cls, {k: _deepcopy(it, v) for k, v in x.fields.items()})
    raise Unsupported(f"deepcopy of {x!r}")


@function(_copy.deepcopy)
def f_deepcopy(it, x, memo=None):
    it.ex.note("assumed", "copy.deepcopy: no sharing between sub-objects of the copied value (memo ignored)")
    return _deepcopy(it, x)


@function(_copy.copy)
def f_copy(it, x):
    x = it.resolve(x)
    if isinstance(x, SList):
        return SList(list(x.items))
    if isinstance(x, SDict):
        return SDict(list(x.items))
    if isinstance(x, SSet):
        return SSet(list(x.items))
    if isinstance(x, (SInt, SBool, SStr, SBytes, SNoneT, SEnum, SFloat, SConst, STuple, SSeq)):
        return x
    raise Unsupported(f"copy.copy of {x!r}")


# ---------------------------------------------------------------------------------------------------------------------
# re.compile on concrete arguments: the real compiled pattern (an opaque constant whose methods are modelled above);
# an invalid expression raises re.error as in CPython.


@function(re.compile)
def f_re_compile(it, pattern, flags=None):
    try:
        p = _lib.to_native(it.resolve(pattern))
        fl = 0 if flags is None else _lib.to_native(it.resolve(flags))
    except ValueError:
        raise Unsupported("re.compile of a symbolic expression")
    try:
        return SConst(re.compile(p, fl))
    except Exception as e:
        raise I.PyExc(_lib.exc_obj_from(e))


def caseless_literal(p: re.Pattern):
    """the literal text of p if p is a plain sequence of literal characters none of which is a letter (so that IGNORECASE,
    MULTILINE and DOTALL do not change what it matches), else None"""
    try:
        import re._parser as P
        from re._constants import LITERAL

        t = P.parse(p.pattern, p.flags)
    except Exception:
        return None
    chars = []
    for op, arg in t.data:
        if op is not LITERAL:
            return None
        c = chr(arg)
        if arg > 127 or c.isalpha():
            return None
        chars.append(c)
    return "".join(chars) if chars else None


_uninterpreted_search = PATTERN_METHODS["search"]


def _search_with_literals(it, p, s, *a, **k):
    """p.search(s) for a case-less literal pattern is exactly `literal in s`; other patterns stay uninterpreted"""
    lit = caseless_literal(p)
    s = it.resolve(s)
    if lit is None or a or k or not isinstance(s, (SStr, SBytes)) or isinstance(s, SBytes) != isinstance(p.pattern, bytes):
        return _uninterpreted_search(it, p, s, *a, **k)
    it.ex.note("lib", f"re.search[{p.pattern!r}] (case-less literal: substring test, exact)")
    if it.branch(SBool(z3.Contains(s.t, z3.StringVal(lit)))):
        return SObj(re.Match, {"re": SConst(p), "string": s})
    return NONE


PATTERN_METHODS["search"] = _search_with_literals


# ---------------------------------------------------------------------------------------------------------------------
# str.isspace / bytes.isspace: exact (non-empty and every character in the whitespace set of CPython)

_STR_SPACE = [c for c in range(0x30000) if chr(c).isspace()]
_BYTES_SPACE = [9, 10, 11, 12, 13, 32]


def _ws_regex(codes):
    rs = []
    i = 0
    while i < len(codes):
        j = i
        while j + 1 < len(codes) and codes[j + 1] == codes[j] + 1:
            j += 1
        rs.append(z3.Range(chr(codes[i]), chr(codes[j])))
        i = j + 1
    return z3.Plus(z3.Union(*rs) if len(rs) > 1 else rs[0])


def _isspace(it, s):
    c = s.concrete()
    if c is not None:
        return lift(c.isspace())
    return SBool(z3.InRe(s.t, _ws_regex(_BYTES_SPACE if isinstance(s, SBytes) else _STR_SPACE)))


if (SStr, "isspace") not in METHODS:
    METHODS[(SStr, "isspace")] = _isspace
if (SBytes, "isspace") not in METHODS:
    METHODS[(SBytes, "isspace")] = _isspace


# ---------------------------------------------------------------------------------------------------------------------
# str.strip(chars) with a concrete non-empty chars: whatever model is installed stays in charge of the result; this adds the
# exact emptiness fact      s.strip(chars) == ""   <=>   every character of s is in chars


def charset_star(chars):
    """regex term  [chars]*  (one canonical construction, so that contracts can state the same term)"""
    cs = [chr(c) for c in chars] if isinstance(chars, (bytes, bytearray)) else list(chars)
    return z3.Star(z3.Union(*[z3.Re(z3.StringVal(c)) for c in cs]) if len(cs) > 1 else z3.Re(z3.StringVal(cs[0])))


def _wrap_strip(T):
    prev = METHODS[(T, "strip")]

    def strip_with_emptiness(it, s, *a):
        r = prev(it, s, *a)
        if len(a) == 1 and isinstance(a[0], (SStr, SBytes)) and s.concrete() is None and isinstance(r, (SStr, SBytes)):
            chars = a[0].concrete()
            if chars:
                it.ex.assume((z3.Length(r.t) == 0) == z3.InRe(s.t, charset_star(chars)))
                it.ex.note("assumed", "str.strip(chars) is empty iff the string consists of characters of chars only (exact)")
        return r

    METHODS[(T, "strip")] = strip_with_emptiness


_wrap_strip(SStr)
_wrap_strip(SBytes)
