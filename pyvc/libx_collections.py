"""Trusted contracts for collections.deque (a FIFO/LIFO list with concrete length and symbolic elements)."""
import collections

from .lib import *  # noqa: F401,F403
from .lib import CLASS_MODELS, builtin_method
from . import interp as I


def _deque(it, items=None, maxlen=None):
    o = SObj(collections.deque, {"_items": SList(it.iterate(items) if items is not None else [])})
    return o


CLASS_MODELS[collections.deque] = _deque


@builtin_method(collections.deque, "append")
def dq_append(it, d, x):
    d.fields["_items"].items.append(x)
    return NONE


@builtin_method(collections.deque, "appendleft")
def dq_appendleft(it, d, x):
    d.fields["_items"].items.insert(0, x)
    return NONE


@builtin_method(collections.deque, "popleft")
def dq_popleft(it, d):
    l = d.fields["_items"].items
    if not l:
        it.raise_(IndexError, "pop from an empty deque")
    return l.pop(0)


@builtin_method(collections.deque, "pop")
def dq_pop(it, d):
    l = d.fields["_items"].items
    if not l:
        it.raise_(IndexError, "pop from an empty deque")
    return l.pop()


@builtin_method(collections.deque, "clear")
def dq_clear(it, d):
    d.fields["_items"].items.clear()
    return NONE


@builtin_method(collections.deque, "extend")
def dq_extend(it, d, xs):
    d.fields["_items"].items.extend(it.iterate(xs))
    return NONE


@builtin_method(collections.deque, "__len__")
def dq_len(it, d):
    return SInt(len(d.fields["_items"].items))


@builtin_method(collections.deque, "__iter__")
def dq_iter(it, d):
    return SList(list(d.fields["_items"].items))
